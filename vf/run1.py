import sys, json, importlib
sys.path.insert(0, '/verif')
from vf.pyvc.source import SourceIndex
from vf.pyvc.solve import verify_contract
mod = importlib.import_module(sys.argv[1])
ix = SourceIndex(sys.argv[2] if len(sys.argv) > 2 else None)
reg = {}
for c in mod.CONTRACTS: reg.setdefault(c.target, []).append(c)
for c in mod.CONTRACTS:
    if len(sys.argv) > 3 and sys.argv[3] not in c.target: continue
    r = verify_contract(ix, reg, c)
    print('==', r['target'], r['status'], r.get('error', ''), 'paths', r['paths'], 'covers', r['covers'], r.get('wall_ms'), 'ms')
    if r['inlined']: print('   inlined:', r['inlined'])
    for o in r['obligations']:
        print('  ', o['result'], o['name'], o['ms'], o['backend'] if o['result']!='proved' else '', json.dumps(o.get('model')) if o.get('model') else '', o.get('reason',''))
