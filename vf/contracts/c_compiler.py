"""Contract: CompiledCircuit.add - the ordered-product step of C01, over the abstract matrix algebra MatA.

`_unitary` is an opaque matrix U0 of dimension n_modes + loss_modes (object invariant); the matrix returned by a component's
get_unitary(N) is the opaque term E(<Class>.get_unitary, N) whose entries are fixed by that component's own contract
(c_components.py).  The postcondition is structural: the new `_unitary` is exactly the term
    mul(E(get_unitary, total), U0)                       ordinary component        (LEFT multiplication)
    mul(E(get_unitary, total + 1), pad1(U0))             loss element: pad first, corner set to one, then multiply at the new size
    U0                                                   barrier
    fold of the above over the members, in order         group
so swapped operands of @, padding after reading total_modes, a missing corner, or a reversed group all fail it, for every
dimension.  mul is uninterpreted (non-commutative).
"""
import z3

from vf.pyvc.engine import Contract
from vf.pyvc.values import CList, MatA, Obj

F = "lightworks/sdk/circuit/compiler.py"
CC = "obj:CompiledCircuit{_n_modes:int;_loss_modes:int;_unitary:mata;_in_heralds:dict[int,int];_out_heralds:dict[int,int]}"
INV = "self._n_modes >= 0 and self._loss_modes >= 0 and dim_of(self._unitary) == self._n_modes + self._loss_modes"

KINDS = {
    "BeamSplitter": "obj:BeamSplitter{mode_1:int;mode_2:int;reflectivity:real;convention:'Rx'}",
    "PhaseShifter": "obj:PhaseShifter{mode:int;phi:real}",
    "Loss": "obj:Loss{mode:int;loss:real}",
    "Barrier": "obj:Barrier{modes:list[int]}",
    "ModeSwaps": "obj:ModeSwaps{swaps:dict[int,int]}",
}
VALID = {   # component valid for a circuit with N full modes (what Circuit.bs/ps/loss guarantee when they record it)
    "BeamSplitter": "0 <= spec.mode_1 and spec.mode_1 < self._n_modes and 0 <= spec.mode_2 and spec.mode_2 < self._n_modes and spec.mode_1 != spec.mode_2 and "
                    "0 <= spec.reflectivity and spec.reflectivity <= 1",
    "PhaseShifter": "0 <= spec.mode and spec.mode < self._n_modes",
    "Loss": "0 <= spec.mode and spec.mode < self._n_modes and 0 <= spec.loss and spec.loss <= 1",
    "Barrier": "True",
    "ModeSwaps": "forall(t, implies(0 <= t and t < self._n_modes + self._loss_modes, 0 <= spec.swaps.get(t, t) and spec.swaps.get(t, t) < self._n_modes + self._loss_modes))",
}


def expected(kind, u0, total):
    if kind == "Barrier":
        return u0, 0
    if kind == "Loss":
        return ("mul", ("E", "Loss.get_unitary", total + 1), ("pad1", u0)), 1
    # ModeSwaps.get_unitary is a one-line wrapper (inlined from its source) around permutation_mat_from_swaps_dict, whose contract is used
    label = "permutation_mat_from_swaps_dict" if kind == "ModeSwaps" else f"{kind}.get_unitary"
    return ("mul", ("E", label, total), u0), 0


def match(actual, want):
    """structural equality of two MatA terms; the size argument of an E term is compared as an integer expression"""
    if actual[0] != want[0]:
        return z3.BoolVal(False)
    if actual[0] == "var":
        return z3.BoolVal(actual[1] == want[1])
    if actual[0] == "E":
        return z3.And(z3.BoolVal(actual[1] == want[1]), actual[2] == want[2])
    if len(actual) != len(want):
        return z3.BoolVal(False)
    return z3.And(*[match(a, w) for a, w in zip(actual[1:], want[1:])])


def post_for(kinds):
    def post(ex, env, ret):
        self0 = ex.heap0[ex.env0["self"].id]
        u0 = ex.heap0[self0.get("_unitary").id]
        n, l0 = self0.get("_n_modes"), self0.get("_loss_modes")
        term, dl = u0.term, 0
        for k in kinds:
            term, d = expected(k, term, n + l0 + dl)
            dl += d
        now = ex.heap[ex.env0["self"].id]
        u1 = ex.heap[now.get("_unitary").id]
        return z3.And(match(u1.term, term), now.get("_loss_modes") == l0 + dl, u1.dim == n + l0 + dl, now.get("_n_modes") == n)
    return post


def group_builder(kinds):
    def build(ex, name):
        members = []
        for k, kind in enumerate(kinds):
            members.append(ex.make(f"{name}.m{k}", KINDS[kind], f"{name}.circuit_spec[{k}]"))
        return ex.alloc(Obj("Group", (("circuit_spec", ex.alloc(CList(tuple(members)), f"{name}.circuit_spec")), ("name", "g"), ("mode_1", z3.Int(name + ".mode_1")),
                                      ("mode_2", z3.Int(name + ".mode_2")), ("heralds", None))), name)
    build.label = "Group[" + ",".join(kinds) + "]"
    build.kinds = kinds
    return build


def group_valid(kinds):
    out = []
    for k, kind in enumerate(kinds):
        out.append(VALID[kind].replace("spec.", f"spec.circuit_spec[{k}]."))
    return out


DEFS = {"dim_of": lambda ex, v: ex.heap[v.id].dim}
CONTRACTS = []
for kind in KINDS:
    CONTRACTS.append(Contract(
        target=f"{F}:CompiledCircuit.add",
        types={"self": CC, "spec": KINDS[kind]},
        requires=[INV, VALID[kind]],
        modifies=["self._unitary", "self._loss_modes"],
        ensures={"ordered_product_step": post_for([kind]), "invariant": INV},
        raises={},
        defs=DEFS,
        props=["C01"],
        assumes=["MatAlg: matrices are opaque terms with an uninterpreted, non-commutative product; E(f, N) is the matrix returned by the callee contract f at size N"],
    ))
for kinds in (("BeamSplitter", "Loss", "PhaseShifter"), ("Loss", "Loss", "BeamSplitter"), ("PhaseShifter", "Barrier", "ModeSwaps")):
    # a loss element inside a group enlarges the matrices of the members after it: their validity is stated for the size they meet
    CONTRACTS.append(Contract(
        target=f"{F}:CompiledCircuit.add",
        types={"self": CC, "spec": group_builder(kinds)},
        requires=[INV] + group_valid(kinds),
        modifies=["self._unitary", "self._loss_modes"],
        ensures={"ordered_product_fold": post_for(list(kinds)), "invariant": INV},
        raises={},
        defs=DEFS,
        inline=["add"],      # the recursion into the (concrete-spine) group is executed from the real source
        props=["C01"],
    ))
