"""Contracts: permanent backend helpers (C03)."""
from vf.pyvc.engine import Contract, Loop

F = "lightworks/emulator/backend/permanent.py"

EXPAND = ("len({v}) == lsum({s}, {k}) and forall(t, implies(0 <= t and t < len({v}), 0 <= at({v},t) and at({v},t) < {k} and "
          "lsum({s}, at({v},t)) <= t and t < lsum({s}, at({v},t) + 1)))")


def replay_partition(inp):
    import numpy as np
    from lightworks.emulator.backend.permanent import partition
    i, o = list(inp["in_state"]), list(inp["out_state"])
    n = len(i)
    if len(o) != n or any(x < 0 for x in i + o) or n == 0 or n > 6 or sum(i) > 6 or sum(o) > 6:
        return None
    U = np.arange(n * n).reshape(n, n) + 1j * np.arange(n * n).reshape(n, n)[::-1]
    got = partition(U, i, o)
    rows = [m for m in range(n) for _ in range(o[m])]
    cols = [m for m in range(n) for _ in range(i[m])]
    want = np.array([[U[r, c] for c in cols] for r in rows]).reshape(len(rows), len(cols))
    if got.shape != want.shape or not np.array_equal(got, want):
        return f"partition(U, in={i}, out={o}) != U[rows by output occupation, columns by input occupation]"
    return None


def enum_partition():
    import itertools
    for n in (1, 2, 3):
        for i in itertools.product(range(3), repeat=n):
            for o in itertools.product(range(3), repeat=n):
                yield {"in_state": list(i), "out_state": list(o)}


PARTITION = Contract(
    target=f"{F}:partition",
    types={"unitary": "matsq", "in_state": "list[int]", "out_state": "list[int]"},
    requires=["len(in_state) == len(out_state)", "unitary.shape[0] >= len(in_state)",
              "forall(t, implies(0 <= t and t < len(in_state), at(in_state,t) >= 0 and at(out_state,t) >= 0))"],
    modifies=[],
    loops={"range(n_modes)": Loop(keep_len=False, invariant=[
        EXPAND.format(v="x", s="out_state", k="_k"),
        EXPAND.format(v="y", s="in_state", k="_k"),
    ])},
    ensures={
        # x / y repeat mode m exactly out_state[m] / in_state[m] times, in mode order (the "expand" lists of the Fock amplitude formula) ...
        "rows_by_output_occupation": EXPAND.format(v="x", s="out_state", k="len(out_state)"),
        "cols_by_input_occupation": EXPAND.format(v="y", s="in_state", k="len(in_state)"),
        # ... and the result is the sub-matrix with ROWS taken by the output and COLUMNS by the input
        "dims": "result.shape[0] == lsum(out_state, len(out_state)) and result.shape[1] == lsum(in_state, len(in_state))",
        "submatrix": "result.shape[0] == len(x) and result.shape[1] == len(y) and "
                     "forall((a,b), implies(0 <= a and a < len(x) and 0 <= b and b < len(y), mat_at(result,a,b) == mat_at(unitary, at(x,a), at(y,b))))",
    },
    raises={},
    replay=replay_partition,
    props=["C03"],
)
PARTITION.enum = enum_partition
PARTITION.modular = ["dims"]    # the clauses that do not mention the function's locals x, y
PARTITION.result_type = "mat"
PARTITION.pure = True          # a deterministic function of its arguments (modifies nothing): the same call denotes the same matrix in code and specification


def replay_calculate(inp):
    import math
    import numpy as np
    from thewalrus import perm
    from lightworks.emulator.backend.permanent import Permanent
    i, o = list(inp["in_state"]), list(inp["out_state"])
    n = len(i)
    if len(o) != n or any(x < 0 for x in i + o) or n == 0 or n > 4 or (sum(i) > 5 and n > 1) or sum(i) > 25 or sum(i) != sum(o):
        return None
    if n == 1:
        # one mode: perm of the k x k constant matrix u is k! u^k, so the amplitude is u^k - also for large k, where the factorials exceed 64 bits
        u = complex(0.6, 0.8)
        got = Permanent.calculate(np.array([[u]]), i, o)
        want = u ** i[0]
        return None if abs(got - want) <= 1e-9 else f"Permanent.calculate([[u]], {i}, {o}) = {got}, expected u**{i[0]} = {want}"
    rng = np.random.default_rng(7 + n)
    U = rng.normal(size=(n, n)) + 1j * rng.normal(size=(n, n))
    rows = [m for m in range(n) for _ in range(o[m])]
    cols = [m for m in range(n) for _ in range(i[m])]
    sub = np.array([[U[r, c] for c in cols] for r in rows], dtype=complex).reshape(len(rows), len(cols))
    want = (perm(sub) if len(rows) else 1.0) / math.sqrt(math.prod(math.factorial(x) for x in i) * math.prod(math.factorial(x) for x in o))
    got = Permanent.calculate(U, i, o)
    if abs(got - want) > 1e-9 * max(1, abs(want)):
        return f"Permanent.calculate(U, {i}, {o}) = {got}, expected perm(U[rows(out), cols(in)]) / sqrt(prod in! * prod out!) = {want}"
    return None


def enum_calculate():
    import itertools
    for k in (13, 20):                 # occupation factorials beyond 64 bits
        yield {"in_state": [k], "out_state": [k]}
    for n in (1, 2, 3):
        for i in itertools.product(range(4), repeat=n):
            for o in itertools.product(range(4), repeat=n):
                if sum(i) == sum(o) and sum(i) <= 4:
                    yield {"in_state": list(i), "out_state": list(o)}


CALCULATE = Contract(
    target=f"{F}:Permanent.calculate",
    types={"unitary": "matsq", "in_state": "list[int]", "out_state": "list[int]"},
    requires=["len(in_state) == len(out_state)", "unitary.shape[0] >= len(in_state)",
              "forall(t, implies(0 <= t and t < len(in_state), at(in_state,t) >= 0 and at(out_state,t) >= 0))",
              # same photon number in and out (the sub-matrix is square)
              "lsum(in_state) == lsum(out_state)"],
    modifies=[],
    ensures={
        # the bosonic amplitude formula of the statement: the permanent of the photon-indexed sub-matrix over the square root of the product
        # of ALL occupation factorials (every mode of the input and of the output counts, with its multiplicity)
        "amplitude_formula": "result == perm(partition(unitary, in_state, out_state)) / "
                             "np.sqrt(prod([factorial(i) for i in in_state]) * prod([factorial(i) for i in out_state]))",
    },
    raises={},
    replay=replay_calculate,
    props=["C03"],
)
CALCULATE.enum = enum_calculate
CONTRACTS = [PARTITION, CALCULATE]
