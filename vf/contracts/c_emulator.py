"""Contracts: emulator component setters (documented ranges), post-selection rules, compiled-circuit heralds (C05, C06, C07, C03)."""
import itertools

import z3

from vf.pyvc.engine import Contract, Loop
from vf.pyvc.values import CList, Obj

DET = "lightworks/emulator/components/detector.py"
SRC = "lightworks/emulator/components/source.py"
PS = "lightworks/sdk/utils/post_selection.py"
COMP = "lightworks/sdk/circuit/compiler.py"

DETECTOR = "obj:Detector{__efficiency:real;__p_dark:real;__photon_counting:bool}"
SOURCE = "obj:Source{__brightness:real;__purity:real;__indistinguishability:real;__probability_threshold:real}"
VAL_T = ["real", "int", "bool", "'text'"]
NUMERIC = "not isinstance(value, bool) and not isinstance(value, str)"


def ranged_setter(path, cls, selftype, attr, field, lo_strict=False, lo="0", props=()):
    lo_cmp = f"{lo} < value" if lo_strict else f"{lo} <= value"
    return Contract(
        target=f"{path}:{cls}.{attr}", kind="setter",
        types={"self": selftype, "value": VAL_T},
        requires=[],
        modifies=[f"self.{field}"],
        ensures={"stored": f"same_value(self.{field}, value)", "in_range": f"{lo_cmp} and value <= 1"},
        raises={"TypeError": f"not ({NUMERIC})", "ValueError": f"({NUMERIC}) and not ({lo_cmp} and value <= 1)"},
        exc_frame=True,
        props=list(props),
    )


def _rule_builder(n_modes, n_opts):
    def build(ex, name):
        ms = tuple(z3.Int(f"m{k}") for k in range(n_modes))
        ns = tuple(z3.Int(f"n{k}") for k in range(n_opts))
        return ex.alloc(Obj("Rule", (("modes", ms), ("n_photons", ns))), name)
    build.label = f"rule{n_modes}x{n_opts}"
    build.shape = (n_modes, n_opts)
    return build


def _rule_post(ex, env, ret):
    nm, no = ex.vt["self"].shape
    st = ex.heap[ex.heap[env["state"].id].get("_State__s").id]
    tot = sum(z3.Select(st.arr, z3.Int(f"m{k}")) for k in range(nm))
    return ex.truth(ret) == z3.Or(*[tot == z3.Int(f"n{k}") for k in range(no)])


def _rule_pre(nm):
    return " and ".join(f"0 <= self.modes[{k}] and self.modes[{k}] < len(state)" for k in range(nm))


RULES = []
for nm, no in itertools.product((1, 2, 3), (1, 2)):
    RULES.append(Contract(
        target=f"{PS}:Rule.validate",
        types={"self": _rule_builder(nm, no), "state": "obj:State{__s:list[int]}"},
        requires=[_rule_pre(nm)],
        modifies=[],
        ensures={"total_in_allowed": _rule_post},
        raises={},
        props=["C05", "C07"],
    ))

CONTRACTS = [
    ranged_setter(DET, "Detector", DETECTOR, "efficiency", "__efficiency", props=["C07"]),
    ranged_setter(DET, "Detector", DETECTOR, "p_dark", "__p_dark", props=["C07"]),
    Contract(
        target=f"{DET}:Detector.photon_counting", kind="setter",
        types={"self": DETECTOR, "value": ["bool", "int", "real"]},
        requires=[], modifies=["self.__photon_counting"],
        ensures={"stored": "same_value(self.__photon_counting, value)"},
        raises={"TypeError": "not isinstance(value, bool)"},
        exc_frame=True, props=["C07"],
    ),
    ranged_setter(SRC, "Source", SOURCE, "brightness", "__brightness", props=["C06"]),
    ranged_setter(SRC, "Source", SOURCE, "indistinguishability", "__indistinguishability", props=["C06"]),
    ranged_setter(SRC, "Source", SOURCE, "probability_threshold", "__probability_threshold", props=["C06"]),
    Contract(
        target=f"{SRC}:Source.purity", kind="setter",
        types={"self": SOURCE, "value": ["real", "int"]},
        requires=[], modifies=["self.__purity"],
        ensures={"stored": "same_value(self.__purity, value)", "in_range": "2 * value > 1 and value <= 1"},
        raises={"ValueError": "not (2 * value > 1 and value <= 1)"},
        exc_frame=True, props=["C06"],
    ),
    Contract(
        target=f"{SRC}:purity_to_prob",
        types={"purity": "real"},
        requires=["purity <= 1"], modifies=[],
        # p1 in (0,1]; with p2 = 1 - p1 the photon-number statistics at unit brightness have g2 = 2 p2 / (p1 + 2 p2)^2 = 1 - purity
        ensures={"probability": "0 < result and result <= 1",
                 "g2": "2 * (1 - result) == (1 - purity) * (result + 2 * (1 - result)) * (result + 2 * (1 - result))"},
        raises={"ValueError": "2 * purity <= 1"},
        props=["C06"],
    ),
] + RULES


# ---------------------------------------------------------------------------------------------- PostSelection.add, check_int (C05 / C07)
PSEL = "obj:PostSelection{multi_rules:%s;__rules:glist;__modes_with_rules:set[int]}"


def _pair(ex, name):
    import z3
    a, b = z3.Int(f"{name}_0"), z3.Int(f"{name}_1")
    return (a, b)


_pair.label = "tuple2"


def replay_ps_add(inp):
    import lightworks as lw
    s = inp["self"]
    modes, nph = inp["modes"], inp["n_photons"]
    if isinstance(modes, dict) or isinstance(nph, dict):
        return None
    ps = lw.PostSelection(multi_rules=bool(s["multi_rules"]))
    have = sorted(set(s.get("_PostSelection__modes_with_rules") or []))
    if any(m < 0 for m in have) or len(have) > 6:
        return None
    for m in have:
        ps.add(m, 0)
    ml = list(modes) if isinstance(modes, (list, tuple)) else [modes]
    nl = list(nph) if isinstance(nph, (list, tuple)) else [nph]
    want_err = any(v < 0 for v in ml + nl) or (not s["multi_rules"] and any(m in have for m in ml))
    n0 = len(ps.rules)
    try:
        ps.add(tuple(ml) if isinstance(modes, (list, tuple)) else modes, tuple(nl) if isinstance(nph, (list, tuple)) else nph)
        raised = False
    except ValueError:
        raised = True
    if raised != want_err:
        return f"PostSelection(multi_rules={s['multi_rules']}) with rules on {have}: add({modes}, {nph}) {'raised' if raised else 'was accepted'}, expected {'ValueError' if want_err else 'acceptance'}"
    if raised and (len(ps.rules) != n0 or ps.modes != have):
        return f"a rejected add({modes}, {nph}) changed the post-selection"
    if not raised and (len(ps.rules) != n0 + 1 or ps.rules[-1].as_tuple() != (tuple(ml), tuple(nl)) or set(ps.modes) != set(have) | set(ml)):
        return f"add({modes}, {nph}) recorded {ps.rules[-1].as_tuple() if ps.rules else None}, modes {ps.modes}"
    return None


def enum_ps_add():
    for multi in (False, True):
        for have in ([], [0], [1, 2]):
            for modes in (0, 1, -1, (0, 2), (1, 3), (3, -2)):
                for nph in (0, 2, -1, (0, 1), (1, -1)):
                    yield {"self": {"multi_rules": multi, "_PostSelection__modes_with_rules": have}, "modes": modes, "n_photons": nph}


PS_ADD = Contract(
    target="lightworks/sdk/utils/post_selection.py:PostSelection.add",
    types={"self": [PSEL % "const:False", PSEL % "const:True"], "modes": ["int", _pair], "n_photons": ["int", _pair]},
    requires=[],
    modifies=["self.__rules", "self.__modes_with_rules"],
    exc_frame=True,
    ensures={
        # exactly one rule is appended, holding the given modes and allowed photon totals as tuples
        "one_rule_appended": "len(self.__rules) == old(len(self.__rules)) + 1",
        # every mode of the new rule is now known to carry a rule, and nothing else changed in that set
        "modes_registered": "forall(x, (x in self.__modes_with_rules) == (old(x in self.__modes_with_rules) or in_arg(modes, x)))",
    },
    raises={"ValueError": "any_negative(modes) or any_negative(n_photons) or (not self.multi_rules and any_known(self, modes))"},
    defs={
        "in_arg": lambda ex, m, x: __import__("z3").Or(*[x == t for t in (m if isinstance(m, tuple) else (m,))]),
        "any_negative": lambda ex, m: __import__("z3").Or(*[t < 0 for t in (m if isinstance(m, tuple) else (m,))]),
        "any_known": lambda ex, s, m: __import__("z3").Or(*[__import__("z3").Select(ex.deref(ex.heap[s.id].get("_PostSelection__modes_with_rules")).dom, t) for t in (m if isinstance(m, tuple) else (m,))]),
    },
    replay=replay_ps_add, props=["C05", "C07"],
)
PS_ADD.enum = enum_ps_add
CONTRACTS.append(PS_ADD)


# ---------------------------------------------------------------------------------------------- constructors: the settings given are the settings held
SOURCE_INIT = Contract(
    target=f"{SRC}:Source.__init__",
    types={"self": "obj:Source{__brightness:none;__purity:none;__indistinguishability:none;__probability_threshold:none}",
           "purity": "real", "brightness": "real", "indistinguishability": "real", "probability_threshold": "real"},
    requires=[],
    modifies=["self.__brightness", "self.__purity", "self.__indistinguishability", "self.__probability_threshold"],
    ensures={
        # every argument is stored as given - also an explicit 0 (a fully distinguishable source, a source that emits nothing)
        "stored_as_given": "self.__purity == purity and self.__brightness == brightness and self.__indistinguishability == indistinguishability and "
                           "self.__probability_threshold == probability_threshold",
        "in_range": "2 * purity > 1 and purity <= 1 and 0 <= brightness and brightness <= 1 and 0 <= indistinguishability and indistinguishability <= 1 and "
                    "0 <= probability_threshold and probability_threshold <= 1",
    },
    raises={"ValueError": "not (2 * purity > 1 and purity <= 1 and 0 <= brightness and brightness <= 1 and 0 <= indistinguishability and indistinguishability <= 1 and "
                          "0 <= probability_threshold and probability_threshold <= 1)"},
    props=["C06"],
    inline=["purity", "brightness", "indistinguishability", "probability_threshold"],      # the property setters are executed from their real source
)
SOURCE_INIT.no_callee = True
DETECTOR_INIT = Contract(
    target=f"{DET}:Detector.__init__",
    types={"self": "obj:Detector{__efficiency:none;__p_dark:none;__photon_counting:none}", "efficiency": "real", "p_dark": "real", "photon_counting": "bool"},
    requires=[],
    modifies=["self.__efficiency", "self.__p_dark", "self.__photon_counting"],
    ensures={"stored_as_given": "self.__efficiency == efficiency and self.__p_dark == p_dark and self.__photon_counting == photon_counting",
             "in_range": "0 <= efficiency and efficiency <= 1 and 0 <= p_dark and p_dark <= 1"},
    raises={"ValueError": "not (0 <= efficiency and efficiency <= 1 and 0 <= p_dark and p_dark <= 1)"},
    props=["C07"],
    inline=["efficiency", "p_dark", "photon_counting"],
)
DETECTOR_INIT.no_callee = True
CONTRACTS += [SOURCE_INIT, DETECTOR_INIT]


# ---------------------------------------------------------------------------------------------- process_post_selection (C05 / C07 / C11)
PSP_PATH = "lightworks/emulator/utils/post_selection_processing.py"
PROCESS_PS = Contract(
    target=f"{PSP_PATH}:process_post_selection",
    types={"post_selection": ["obj:PostSelection{multi_rules:bool;__rules:list[int];__modes_with_rules:list[int]}", "none", "'text'", "int"]},
    requires=[], modifies=[],
    ensures={
        # a PostSelection object is handed on as the object it is (rules added to it later are seen by whoever holds it); nothing gives the always-true object
        "the_same_object": "implies(isinstance(old(post_selection), PostSelection), result is old(post_selection))",
        "default_for_none": "implies(is_none(old(post_selection)), isinstance(result, DefaultPostSelection))",
    },
    raises={"TypeError": "not is_none(post_selection) and not isinstance(post_selection, PostSelection)"},
    props=["C05", "C07", "C11"],
)
CONTRACTS += [PROCESS_PS]


# ---------------------------------------------------------------------------------------------- PostSelection.validate: the conjunction of its rules
def _ps_with_rules(shapes):
    def build(ex, name):
        rules = []
        for i, (nm, no) in enumerate(shapes):
            ms = tuple(z3.Int(f"r{i}m{k}") for k in range(nm))
            ns = tuple(z3.Int(f"r{i}n{k}") for k in range(no))
            rules.append(ex.alloc(Obj("Rule", (("modes", ms), ("n_photons", ns))), f"{name}.rules[{i}]"))
        return ex.alloc(Obj("PostSelection", (("multi_rules", z3.BoolVal(True)), ("_PostSelection__rules", ex.alloc(CList(tuple(rules)), f"{name}.__rules")),
                                               ("_PostSelection__modes_with_rules", ex.make(f"{name}.mwr", "set[int]", f"{name}.mwr")))), name)
    build.label = "rules " + repr(shapes)
    return build


def _ps_validate(shapes):
    names = {}
    conj = []
    pre = []
    for i, (nm, no) in enumerate(shapes):
        tot = " + ".join(f"at(state._State__s, r{i}m{k})" for k in range(nm))
        conj.append("(" + " or ".join(f"{tot} == r{i}n{k}" for k in range(no)) + ")")
        pre += [f"0 <= r{i}m{k} and r{i}m{k} < len(state._State__s)" for k in range(nm)]
        names.update({f"r{i}m{k}": "int" for k in range(nm)})
        names.update({f"r{i}n{k}": "int" for k in range(no)})
    c = Contract(
        target=f"{PS}:PostSelection.validate",
        types={"self": _ps_with_rules(shapes), "state": "obj:State{__s:list[int]}", **names},
        requires=pre, modifies=[],
        # accepted exactly when EVERY rule holds: the photons on a rule's modes add up to one of its allowed totals
        ensures={"all_rules_hold": "result == (" + (" and ".join(conj) or "True") + ")"},
        raises={}, props=["C05", "C07"],
        inline=["validate"],
    )
    c.no_callee = True
    c.label = "rules " + repr(shapes)
    return c


PS_VALIDATE = [_ps_validate(()), _ps_validate(((1, 1),)), _ps_validate(((2, 2),)), _ps_validate(((1, 2), (2, 1))), _ps_validate(((1, 1), (1, 1), (3, 2)))]
CONTRACTS += PS_VALIDATE


# ---------------------------------------------------------------------------------------------- check_int (used for every mode / photon number of a post-selection rule)
CHECK_INT = Contract(
    target=f"{PS}:check_int",
    types={"value": ["int", "real"]},
    requires=[], modifies=[],
    # whole numbers come back as ints with the same value; anything with a fractional part is refused
    ensures={"same_whole_number": "result == value and isinstance(result, int)"},
    raises={"ValueError": "not isinstance(value, int) and int(value) != value"},
    props=["C05", "C07"],
)
CHECK_INT.no_callee = True
CONTRACTS += [CHECK_INT]
