"""Contracts: per-component matrices (C01), validators, permutation matrix."""
from vf.pyvc.engine import Contract, Loop

F = "lightworks/sdk/circuit/components.py"
PERM = "lightworks/sdk/utils/permutation_conversion.py"

BS = "obj:BeamSplitter{mode_1:int;mode_2:int;reflectivity:real;convention:%s}"
IN_RANGE2 = "0 <= self.mode_1 and self.mode_1 < n_modes and 0 <= self.mode_2 and self.mode_2 < n_modes and self.mode_1 != self.mode_2"


def ident_else(expr_cases):
    """entrywise spec: result[i,j] == (case values ...) else identity"""
    body = "cplx(1 if i == j else 0, 0)"
    for cond, val in reversed(expr_cases):
        body = f"({val} if ({cond}) else {body})"
    return f"forall((i,j), implies(0 <= i and i < n_modes and 0 <= j and j < n_modes, mat_at(result,i,j) == {body}))"


def _np_eq(a, b, tol=1e-12):
    import numpy as np
    return np.allclose(a, b, atol=tol, rtol=0)


def replay_bs(inp):
    import numpy as np
    from lightworks.sdk.circuit.components import BeamSplitter
    s = inp["self"]
    r = _f(s["reflectivity"])
    n, a, b, conv = inp["n_modes"], s["mode_1"], s["mode_2"], s["convention"]
    if not (0 <= a < n and 0 <= b < n and a != b and 0 <= r <= 1):
        return None
    U = BeamSplitter(a, b, r, conv).get_unitary(n)
    E = np.identity(n, dtype=complex)
    if conv == "Rx":
        E[a, a], E[a, b], E[b, a], E[b, b] = r ** 0.5, 1j * (1 - r) ** 0.5, 1j * (1 - r) ** 0.5, r ** 0.5
    else:
        E[a, a], E[a, b], E[b, a], E[b, b] = r ** 0.5, (1 - r) ** 0.5, (1 - r) ** 0.5, -(r ** 0.5)
    if U.shape != (n, n) or not _np_eq(U, E):
        return f"BeamSplitter({a},{b},{r},{conv}).get_unitary({n}) differs from the documented matrix:\n{U}"
    if not _np_eq(U.conj().T @ U, np.identity(n)):
        return f"BeamSplitter({a},{b},{r},{conv}).get_unitary({n}) is not unitary"
    return None


def _f(v):
    if isinstance(v, dict):
        return v.get("float", v["frac"][0] / v["frac"][1] if "frac" in v else None)
    return float(v)


def enum_bs():
    for n in (2, 3):
        for a in range(n):
            for b in range(n):
                if a != b:
                    for r in (0, 0.25, 1):
                        for conv in ("Rx", "H"):
                            yield {"self": {"mode_1": a, "mode_2": b, "reflectivity": r, "convention": conv}, "n_modes": n}


def replay_ps(inp):
    import numpy as np
    from lightworks.sdk.circuit.components import PhaseShifter
    s = inp["self"]
    n, a, phi = inp["n_modes"], s["mode"], _f(s["phi"])
    if not 0 <= a < n:
        return None
    U = PhaseShifter(a, phi).get_unitary(n)
    E = np.identity(n, dtype=complex)
    E[a, a] = np.exp(1j * phi)
    if U.shape != (n, n) or not _np_eq(U, E):
        return f"PhaseShifter({a},{phi}).get_unitary({n}) differs from the documented matrix"
    return None


def replay_loss(inp):
    import numpy as np
    from lightworks.sdk.circuit.components import Loss
    s = inp["self"]
    n, a, l = inp["n_modes"], s["mode"], _f(s["loss"])
    if not (0 <= a < n - 1 and 0 <= l <= 1):
        return None
    U = Loss(a, l).get_unitary(n)
    if U.shape != (n, n):
        return "wrong shape"
    E = np.identity(n - 1, dtype=complex)
    E[a, a] = (1 - l) ** 0.5
    if not _np_eq(U[: n - 1, : n - 1], E):
        return f"Loss({a},{l}).get_unitary({n}): leading block is not diag(sqrt(1-loss)) on the mode"
    if not _np_eq(U.conj().T @ U, np.identity(n)):
        return f"Loss({a},{l}).get_unitary({n}) is not unitary: U^dagger U =\n{np.round(U.conj().T @ U, 6)}"
    return None


def enum_loss():
    for n in (2, 3):
        for a in range(n - 1):
            for l in (0, 0.3, 1):
                yield {"self": {"mode": a, "loss": l}, "n_modes": n}


def replay_perm(inp):
    import numpy as np
    from lightworks.sdk.utils.permutation_conversion import permutation_mat_from_swaps_dict
    d = {k: v for k, v in inp["swaps"]["dict"]}
    n = inp["n_modes"]
    if n < 0 or not all(0 <= v < n for k, v in d.items() if 0 <= k < n):
        return None
    U = permutation_mat_from_swaps_dict(d, n)
    for i in range(n):
        for j in range(n):
            want = 1 if d.get(i, i) == j else 0
            if U[j, i] != want:
                return f"permutation_mat_from_swaps_dict({d},{n})[{j},{i}] = {U[j, i]}, expected {want}"
    return None


CONTRACTS = [
    Contract(
        target=f"{F}:BeamSplitter.get_unitary",
        types={"self": [BS % "'Rx'", BS % "'H'"], "n_modes": "int"},
        requires=[IN_RANGE2, "0 <= self.reflectivity and self.reflectivity <= 1"],
        modifies=[],
        ensures={
            "dims": "result.shape[0] == n_modes and result.shape[1] == n_modes",
            "entries": "ENTRY_BS",
            # 2x2 block unitary (with lemma M3 this is unitarity of the embedding): |a|^2+|c|^2 = 1, a conj(b) + c conj(d) = 0, ...
            "block_unitary": "UNITARY_BLOCK(self.mode_1, self.mode_2)",
        },
        raises={},
        result_type="matsq",
        replay=replay_bs,
        props=["C01"],
        assumes=["lemma M3bs (identity outside the two modes + the four block identities => unitary): kernel-checked by Lean 4 + Mathlib, vf/lemmas/lean/Lemmas.lean"],
    ),
    Contract(
        target=f"{F}:PhaseShifter.get_unitary",
        types={"self": "obj:PhaseShifter{mode:int;phi:real}", "n_modes": "int"},
        requires=["0 <= self.mode and self.mode < n_modes"],
        modifies=[],
        ensures={
            "dims": "result.shape[0] == n_modes and result.shape[1] == n_modes",
            "entries": ident_else([("i == self.mode and j == self.mode", "cplx(np.cos(self.phi), np.sin(self.phi))")]),
            "unit_modulus": "re(mat_at(result,self.mode,self.mode))**2 + im(mat_at(result,self.mode,self.mode))**2 == 1",
        },
        raises={},
        result_type="matsq",
        replay=replay_ps,
        props=["C01"],
    ),
    Contract(
        target=f"{F}:Loss.get_unitary",
        types={"self": "obj:Loss{mode:int;loss:real}", "n_modes": "int"},
        # n_modes counts the loss mode that the compiler has just appended: the component acts on (mode, n_modes-1)
        requires=["0 <= self.mode and self.mode < n_modes - 1", "0 <= self.loss and self.loss <= 1"],
        modifies=[],
        ensures={
            "dims": "result.shape[0] == n_modes and result.shape[1] == n_modes",
            "leading_block": "forall((i,j), implies(0 <= i and i < n_modes - 1 and 0 <= j and j < n_modes - 1, mat_at(result,i,j) == "
                             "(cplx((1 - self.loss) ** 0.5, 0) if (i == self.mode and j == self.mode) else cplx(1 if i == j else 0, 0))))",
            "other_modes_identity": "forall((i,j), implies(0 <= i and i < n_modes and 0 <= j and j < n_modes and i != self.mode and i != n_modes - 1, "
                                    "mat_at(result,i,j) == cplx(1 if i == j else 0, 0))) and "
                                    "forall((i,j), implies(0 <= i and i < n_modes and 0 <= j and j < n_modes and j != self.mode and j != n_modes - 1, "
                                    "mat_at(result,i,j) == cplx(1 if i == j else 0, 0)))",
            "block_unitary": "UNITARY_BLOCK(self.mode, n_modes - 1)",
        },
        raises={},
        result_type="matsq",
        replay=replay_loss,
        props=["C01"],
        assumes=["lemma M3bs (identity outside the two modes + the four block identities => unitary): kernel-checked by Lean 4 + Mathlib, vf/lemmas/lean/Lemmas.lean"],
    ),
    Contract(
        target=f"{F}:Barrier.get_unitary",
        types={"self": "obj:Barrier{modes:list[int]}", "n_modes": "nat"},
        requires=[],
        modifies=[],
        ensures={"identity": ident_else([])},
        raises={},
        result_type="matsq",
        props=["C01"],
    ),
    Contract(
        target=f"{PERM}:permutation_mat_from_swaps_dict",
        types={"swaps": "dict[int,int]", "n_modes": "nat"},
        requires=["forall(t, implies(0 <= t and t < n_modes, 0 <= swaps.get(t, t) and swaps.get(t, t) < n_modes))"],
        modifies=[],
        loops={
            "range(n_modes)": Loop(invariant=[
                "len(full_swaps) == _k",
                "forall(t, (t in full_swaps) == (0 <= t and t < _k))",
                "forall(t, implies(0 <= t and t < _k, at(full_swaps,t) == swaps.get(t, t) and key_at(full_swaps,t) == t))"]),
            "full_swaps.items()": Loop(invariant=[
                "permutation.shape[0] == n_modes and permutation.shape[1] == n_modes",
                "forall((i,j), implies(0 <= i and i < n_modes and 0 <= j and j < n_modes, mat_at(permutation,j,i) == "
                "cplx(1 if (i < _k and swaps.get(i, i) == j) else 0, 0)))"]),
        },
        ensures={
            "dims": "result.shape[0] == n_modes and result.shape[1] == n_modes",
            "entries": "forall((i,j), implies(0 <= i and i < n_modes and 0 <= j and j < n_modes, mat_at(result,j,i) == "
                       "cplx(1 if swaps.get(i, i) == j else 0, 0)))",
        },
        raises={},
        result_type="matsq",
        replay=replay_perm,
        props=["C01", "C09"],
    ),
]
def replay_um(inp):
    import numpy as np
    from lightworks.sdk.circuit.components import UnitaryMatrix
    s, n = inp["self"], inp["n_modes"]
    U = s["unitary"]
    if not (isinstance(U, dict) and isinstance(U.get("mat"), list)):
        return None
    k = len(U["mat"])
    M = np.array([[complex(a, b) for a, b in row] for row in U["mat"]]).reshape(k, k)
    m = s["mode"]
    if not (0 <= m and m + k <= n and n <= 8):
        return None
    comp = UnitaryMatrix(m, np.identity(k, dtype=complex), "U")
    comp.unitary = M
    got = comp.get_unitary(n)
    for i in range(n):
        for j in range(n):
            want = M[i - m, j - m] if (m <= i < m + k and m <= j < m + k) else (1 if i == j else 0)
            if got[i, j] != want:
                return f"UnitaryMatrix(mode={m}, {k}x{k}).get_unitary({n})[{i},{j}] = {got[i, j]}, expected {want}"
    return None


def enum_um():
    for k in (1, 2):
        for m in range(3):
            for n in range(m + k, m + k + 2):
                yield {"self": {"mode": m, "unitary": {"mat": [[[i * k + j + 1, i - j] for j in range(k)] for i in range(k)]}}, "n_modes": n}


UM = Contract(
    target=f"{F}:UnitaryMatrix.get_unitary",
    types={"self": "obj:UnitaryMatrix{mode:int;unitary:matsq;label:'U'}", "n_modes": "int"},
    requires=["0 <= self.mode and self.mode + self.unitary.shape[0] <= n_modes"],
    modifies=[],
    ensures={
        "dims": "result.shape[0] == n_modes and result.shape[1] == n_modes",
        # the documented embedding: the block on modes [mode, mode + dim), identity elsewhere
        "entries": "forall((i,j), implies(0 <= i and i < n_modes and 0 <= j and j < n_modes, mat_at(result,i,j) == "
                   "(mat_at(self.unitary, i - self.mode, j - self.mode) if (self.mode <= i and i < self.mode + self.unitary.shape[0] and "
                   "self.mode <= j and j < self.mode + self.unitary.shape[0]) else cplx(1 if i == j else 0, 0))))",
    },
    raises={},
    result_type="matsq",
    replay=replay_um,
    props=["C01"],
)
UM.enum = enum_um
CONTRACTS.append(UM)
PARAM = "obj:Parameter{__value:real;__min_bound:none;__max_bound:none;label:none}"


def replay_bs_validation(inp):
    import warnings
    import numpy as np
    import lightworks as lw
    from lightworks.sdk.circuit.components import BeamSplitter
    s = inp["self"]
    refl = s["reflectivity"]
    n, a, b = inp["n_modes"], s["mode_1"], s["mode_2"]
    if not (0 <= a < n and 0 <= b < n and a != b):
        return None
    if isinstance(refl, dict) and "class" in refl:
        r = _f(refl["_Parameter__value"])
        p = lw.Parameter(0.5)
        bs = BeamSplitter(a, b, p, s["convention"])
        p.set(r)
    else:
        r = _f(refl)
        try:
            bs = BeamSplitter(a, b, 0.5, s["convention"])
            bs.reflectivity = r
        except ValueError:
            return None
    with warnings.catch_warnings():
        warnings.simplefilter("ignore")
        try:
            U = bs.get_unitary(n)
            raised = None
        except ValueError:
            raised = "ValueError"
    if not 0 <= r <= 1:
        if raised != "ValueError":
            return f"BeamSplitter with reflectivity {r} ({'Parameter' if isinstance(refl, dict) else 'number'}): get_unitary returned instead of raising ValueError; matrix has NaN: {bool(np.isnan(U).any())}"
    elif raised:
        return f"BeamSplitter with valid reflectivity {r} raised {raised}"
    return None


def enum_bs_validation():
    for r in (-0.5, 0, 0.5, 1, 1.5):
        for as_param in (False, True):
            refl = {"class": "Parameter", "_Parameter__value": r} if as_param else r
            yield {"self": {"mode_1": 0, "mode_2": 1, "reflectivity": refl, "convention": "Rx"}, "n_modes": 2}


_BSV = "obj:BeamSplitter{mode_1:int;mode_2:int;reflectivity:%s;convention:'Rx'}"
BS_VALIDATION = Contract(
    target=f"{F}:BeamSplitter.get_unitary",
    types={"self": [_BSV % "real", _BSV % PARAM], "n_modes": "int"},
    requires=[IN_RANGE2],
    modifies=[],
    ensures={},
    # an invalid reflectivity - a plain number or the current value of a Parameter - is rejected when the matrix is requested
    raises={"ValueError": "not (0 <= rvalue(self.reflectivity) and rvalue(self.reflectivity) <= 1)"},
    defs={"rvalue": lambda ex, v: (ex.heap[v.id].get("_Parameter__value") if hasattr(v, "id") else v)},
    replay=replay_bs_validation,
    props=["C10", "C01"],
)
BS_VALIDATION.enum = enum_bs_validation
CONTRACTS.append(BS_VALIDATION)
CONTRACTS[0].enum = enum_bs
CONTRACTS[2].enum = enum_loss


def enum_perm():
    """every partial map of the modes {0..n-1} (n <= 3) into themselves given in every insertion order - including entries that keep a mode in place"""
    import itertools
    for n in (0, 1, 2, 3):
        for keys in itertools.chain.from_iterable(itertools.permutations(range(n), k) for k in range(n + 1)):
            for vals in itertools.product(range(n), repeat=len(keys)):
                yield {"swaps": {"dict": [[k, v] for k, v in zip(keys, vals)]}, "n_modes": n}


[c for c in CONTRACTS if c.target.endswith("permutation_mat_from_swaps_dict")][0].enum = enum_perm


def replay_loss_validation(inp):
    import warnings
    import numpy as np
    import lightworks as lw
    from lightworks.sdk.circuit.components import Loss
    s = inp["self"]
    lv = s["loss"]
    n, a = inp["n_modes"], s["mode"]
    if not 0 <= a < n - 1:
        return None
    if isinstance(lv, dict) and "class" in lv:
        r = _f(lv["_Parameter__value"])
        p = lw.Parameter(0.5)
        comp = Loss(a, p)
        p.set(r)
    else:
        r = _f(lv)
        comp = Loss(a, 0.5)
        comp.loss = r
    with warnings.catch_warnings():
        warnings.simplefilter("ignore")
        try:
            U = comp.get_unitary(n)
            raised = None
        except ValueError:
            raised = "ValueError"
    if not 0 <= r <= 1:
        if raised != "ValueError":
            return (f"Loss with value {r} ({'Parameter' if isinstance(lv, dict) else 'number'}): get_unitary returned instead of raising ValueError; "
                    f"matrix has NaN: {bool(np.isnan(U).any())}, U^dagger U = identity: {bool(np.allclose(U.conj().T @ U, np.identity(n)))}")
    elif raised:
        return f"Loss with valid value {r} raised {raised}"
    return None


def enum_loss_validation():
    for r in (-0.25, 0, 0.5, 1, 1.5):
        for as_param in (False, True):
            lv = {"class": "Parameter", "_Parameter__value": r} if as_param else r
            yield {"self": {"mode": 0, "loss": lv}, "n_modes": 2}


_LV = "obj:Loss{mode:int;loss:%s}"
LOSS_VALIDATION = Contract(
    target=f"{F}:Loss.get_unitary",
    types={"self": [_LV % "real", _LV % PARAM], "n_modes": "int"},
    requires=["0 <= self.mode and self.mode < n_modes - 1"],
    modifies=[],
    ensures={},
    # a loss outside [0,1] - a plain number or the CURRENT value of a Parameter - is rejected when the matrix is requested (no silent non-physical matrix)
    raises={"ValueError": "not (0 <= rvalue(self.loss) and rvalue(self.loss) <= 1)"},
    defs={"rvalue": lambda ex, v: (ex.heap[v.id].get("_Parameter__value") if hasattr(v, "id") else v)},
    replay=replay_loss_validation,
    props=["C10", "C01"],
)
LOSS_VALIDATION.enum = enum_loss_validation
CONTRACTS.append(LOSS_VALIDATION)

# spec macros
_bs_rx = ident_else([("i == self.mode_1 and j == self.mode_1", "cplx(self.reflectivity ** 0.5, 0)"),
                     ("i == self.mode_2 and j == self.mode_2", "cplx(self.reflectivity ** 0.5, 0)"),
                     ("i == self.mode_1 and j == self.mode_2", "cplx(0, (1 - self.reflectivity) ** 0.5)"),
                     ("i == self.mode_2 and j == self.mode_1", "cplx(0, (1 - self.reflectivity) ** 0.5)")])
_bs_h = ident_else([("i == self.mode_1 and j == self.mode_1", "cplx(self.reflectivity ** 0.5, 0)"),
                    ("i == self.mode_2 and j == self.mode_2", "cplx(0 - self.reflectivity ** 0.5, 0)"),
                    ("i == self.mode_1 and j == self.mode_2", "cplx((1 - self.reflectivity) ** 0.5, 0)"),
                    ("i == self.mode_2 and j == self.mode_1", "cplx((1 - self.reflectivity) ** 0.5, 0)")])
CONTRACTS[0].ensures["entries"] = f"({_bs_rx}) if self.convention == 'Rx' else ({_bs_h})"


def _unitary_block(a, b):
    A, B_, C, D = (f"mat_at(result,{a},{a})", f"mat_at(result,{a},{b})", f"mat_at(result,{b},{a})", f"mat_at(result,{b},{b})")
    def n2(x):
        return f"(re({x})**2 + im({x})**2)"
    def dot_re(x, y):   # Re(conj(x) y)
        return f"(re({x})*re({y}) + im({x})*im({y}))"
    def dot_im(x, y):   # Im(conj(x) y)
        return f"(re({x})*im({y}) - im({x})*re({y}))"
    return (f"{n2(A)} + {n2(C)} == 1 and {n2(B_)} + {n2(D)} == 1 and "
            f"{dot_re(A, B_)} + {dot_re(C, D)} == 0 and {dot_im(A, B_)} + {dot_im(C, D)} == 0")


for c in CONTRACTS:
    for k, v in list(c.ensures.items()):
        if v.startswith("UNITARY_BLOCK("):
            a, b = v[len("UNITARY_BLOCK("):-1].split(",")
            c.ensures[k] = _unitary_block(a.strip(), b.strip())


# ModeSwaps.get_unitary: the permutation matrix of its dictionary for EVERY complete dictionary - also the empty one - and never an exception
MODESWAPS_UNITARY = Contract(
    target=f"{F}:ModeSwaps.get_unitary",
    types={"self": "obj:ModeSwaps{swaps:dict[int,int]}", "n_modes": "nat"},
    requires=["forall(t, implies(0 <= t and t < n_modes, 0 <= self.swaps.get(t, t) and self.swaps.get(t, t) < n_modes))"],
    modifies=[],
    ensures={
        "dims": "result.shape[0] == n_modes and result.shape[1] == n_modes",
        "entries": "forall((i,j), implies(0 <= i and i < n_modes and 0 <= j and j < n_modes, mat_at(result,j,i) == cplx(1 if self.swaps.get(i, i) == j else 0, 0)))",
    },
    raises={},
    result_type="matsq",
    props=["C01", "C09"],
)
MODESWAPS_UNITARY.no_callee = True
CONTRACTS.append(MODESWAPS_UNITARY)
