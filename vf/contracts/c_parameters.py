"""Contracts: Parameter (C10) - bounds invariant, rejected updates change nothing."""
import itertools

from vf.pyvc.engine import Contract

F = "lightworks/sdk/circuit/parameters.py"


def ptype(value, lo, hi):
    return f"obj:Parameter{{__value:{value};__min_bound:{lo};__max_bound:{hi};label:none}}"


VALS = ["real", "'text'", "bool"]
BOUNDS = ["none", "real"]
# object invariant: bounds only with a numeric value, and the value lies within them
SELF_TYPES = [ptype(v, lo, hi) for v in VALS for lo in BOUNDS for hi in BOUNDS if v == "real" or (lo == "none" and hi == "none")]

INV = ("implies(not is_none(self.__min_bound), self.__value >= self.__min_bound) and "
       "implies(not is_none(self.__max_bound), self.__value <= self.__max_bound)")


def _mk(inp):
    import lightworks as lw
    s = inp["self"]
    p = lw.Parameter(0)
    p._Parameter__value = _v(s["_Parameter__value"])
    p._Parameter__min_bound = _v(s["_Parameter__min_bound"])
    p._Parameter__max_bound = _v(s["_Parameter__max_bound"])
    return p


def _v(x):
    if isinstance(x, dict):
        if "float" in x:
            return x["float"]
        if "frac" in x:
            return x["frac"][0] / x["frac"][1]
    return x


def _state(p):
    return (p._Parameter__value, p._Parameter__min_bound, p._Parameter__max_bound)


def _numeric(x):
    from numbers import Number
    return isinstance(x, Number) and not isinstance(x, bool)


def _inv(p):
    v, lo, hi = _state(p)
    if lo is None and hi is None:
        return True
    return _numeric(v) and (lo is None or v >= lo) and (hi is None or v <= hi)


def replay_set(inp):
    p = _mk(inp)
    if not _inv(p):
        return None
    val = _v(inp["value"])
    before = _state(p)
    v, lo, hi = before
    should_raise = ((lo is not None or hi is not None) and not _numeric(val)) or (lo is not None and val < lo) or (hi is not None and val > hi)
    try:
        p.set(val)
        raised = None
    except Exception as e:  # noqa: BLE001
        raised = type(e).__name__
    if should_raise:
        if raised != "ParameterValueError":
            return f"Parameter(value={v}, bounds=[{lo},{hi}]).set({val!r}) should raise ParameterValueError, got {raised}; state now {_state(p)}"
        if _state(p) != before:
            return f"rejected set({val!r}) changed the parameter: {before} -> {_state(p)}"
    else:
        if raised:
            return f"Parameter(value={v}, bounds=[{lo},{hi}]).set({val!r}) raised {raised}"
        if p.get() != val or not _inv(p):
            return f"after set({val!r}) the value is {p.get()!r} with bounds [{lo},{hi}]"
    return None


def enum_set():
    for v, lo, hi in [(0.5, None, None), (0.5, 0, 1), (0.5, 0, None), (0.5, None, 1), (0.0, -1, 0), (0.0, 0, 0), ("a", None, None), (-2.0, -3, -1)]:
        for val in (-5, -1, 0, 0.5, 1, 5, "b", True):
            yield {"self": {"_Parameter__value": v, "_Parameter__min_bound": lo, "_Parameter__max_bound": hi}, "value": val}


def replay_bound(which):
    def f(inp):
        p = _mk(inp)
        if not _inv(p):
            return None
        val = _v(inp["value"])
        before = _state(p)
        v, lo, hi = before
        if val is None:
            should = False
        else:
            should = (not _numeric(v)) or (not _numeric(val)) or (v < val if which == "min" else v > val)
        try:
            setattr(p, which + "_bound", val)
            raised = None
        except Exception as e:  # noqa: BLE001
            raised = type(e).__name__
        if should:
            if raised != "ParameterBoundsError":
                return f"{which}_bound = {val!r} on Parameter(value={v}, bounds=[{lo},{hi}]) should raise ParameterBoundsError, got {raised}"
            if _state(p) != before:
                return f"rejected {which}_bound = {val!r} changed the parameter: {before} -> {_state(p)}"
        else:
            if raised:
                return f"{which}_bound = {val!r} on Parameter(value={v}, bounds=[{lo},{hi}]) raised {raised}"
            if not _inv(p) or getattr(p, which + "_bound") != val:
                return f"after {which}_bound = {val!r}: state {_state(p)} violates the bounds invariant"
        return None
    return f


def enum_bound():
    for v, lo, hi in [(0.5, None, None), (0.5, 0, 1), (0.0, -1, 0), ("a", None, None), (True, None, None)]:
        for val in (None, -5, 0, 0.5, 1, 5, "b", False):
            yield {"self": {"_Parameter__value": v, "_Parameter__min_bound": lo, "_Parameter__max_bound": hi}, "value": val}


SET = Contract(
    target=f"{F}:Parameter.set",
    types={"self": SELF_TYPES, "value": VALS},
    requires=[INV],
    modifies=["self.__value"],
    ensures={"value_set": "self.__value == value", "invariant": INV,
             "bounds_unchanged": "same_value(self.__min_bound, old(self.__min_bound)) and same_value(self.__max_bound, old(self.__max_bound))"},
    raises={"ParameterValueError": "((not is_none(self.__min_bound) or not is_none(self.__max_bound)) and not numeric(value)) or "
                                   "(numeric(value) and not is_none(self.__min_bound) and value < self.__min_bound) or "
                                   "(numeric(value) and not is_none(self.__max_bound) and value > self.__max_bound)"},
    exc_frame=True,
    replay=replay_set,
    props=["C10"],
)
SET.enum = enum_set


def mk_bound(which):
    other = "max" if which == "min" else "min"
    cmp_ = "self.__value < value" if which == "min" else "self.__value > value"
    c = Contract(
        target=f"{F}:Parameter.{which}_bound", kind="setter",
        types={"self": SELF_TYPES, "value": ["none", "real", "'text'", "bool"]},
        requires=[INV],
        modifies=[f"self.__{which}_bound"],
        ensures={"bound_set": f"same_value(self.__{which}_bound, value)", "invariant": INV,
                 "others_unchanged": f"same_value(self.__value, old(self.__value)) and same_value(self.__{other}_bound, old(self.__{other}_bound))"},
        raises={"ParameterBoundsError": f"not is_none(value) and (not numeric(self.__value) or not numeric(value) or (numeric(value) and numeric(self.__value) and {cmp_}))"},
        exc_frame=True,
        replay=replay_bound(which),
        props=["C10"],
    )
    c.enum = enum_bound
    return c


GET = Contract(
    target=f"{F}:Parameter.get",
    types={"self": SELF_TYPES},
    requires=[],
    modifies=[],
    ensures={"current": "same_value(result, self.__value)"},
    raises={},
    props=["C10"],
)

GET.no_callee = True      # a one-line getter: callers inline it from the real source (its result type follows the stored value)
CONTRACTS = [SET, mk_bound("min"), mk_bound("max"), GET]
