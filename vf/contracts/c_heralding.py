"""Contracts: herald insertion / removal (C03, C07, C18)."""
from vf.pyvc.engine import Contract, Loop

F = "lightworks/sdk/utils/heralding_utils.py"
STATE = "obj:State{__s:list[int]}"

# keys of `heralds` lie in [0, len(state)+len(heralds)):  stated through the counting function
# (equivalent to "every key in range" for a well-formed dict by the cardinality lemma L-card, DESIGN 2.4)
KEYS_IN_RANGE = "cnt(heralds, len(state) + len(heralds)) == len(heralds)"


def _mk_state(inp, as_state):
    import lightworks as lw
    s = inp["state"]["_State__s"] if isinstance(inp["state"], dict) else inp["state"]
    return (lw.State(list(s)) if as_state else list(s)), list(s)


def replay_add(inp):
    from lightworks.sdk.utils.heralding_utils import add_heralds_to_state
    as_state = isinstance(inp["state"], dict)
    st, s = _mk_state(inp, as_state)
    her = {k: v for k, v in inp["heralds"]["dict"]}
    n = len(s) + len(her)
    if not all(0 <= k < n for k in her):
        return None   # outside the precondition
    before = dict(her)
    try:
        out = add_heralds_to_state(st, her)
    except Exception as e:  # noqa: BLE001
        return f"add_heralds_to_state({s}, {her}) raised {type(e).__name__}: {e}"
    exp, c = [], 0
    for i in range(n):
        if i in her:
            exp.append(her[i])
        else:
            exp.append(s[c])
            c += 1
    if list(out) != exp:
        return f"add_heralds_to_state({s}, {her}) = {out}, expected {exp}"
    if her != before or (as_state and st.s != s):
        return "add_heralds_to_state modified its arguments"
    if not as_state and out is st:
        return "add_heralds_to_state returned its argument (alias), not a new list"
    return None


def enum_add():
    import itertools
    for n in range(0, 4):
        for vals in itertools.product([0, 1, 2], repeat=n):
            for nh in range(0, 3):
                for keys in itertools.permutations(range(n + nh), nh):
                    for as_state in (False, True):
                        st = {"_State__s": list(vals)} if as_state else list(vals)
                        yield {"state": st, "heralds": {"dict": [[k, 3 + j] for j, k in enumerate(keys)]}}


def replay_remove(inp):
    from lightworks.sdk.utils.heralding_utils import remove_heralds_from_state
    as_state = isinstance(inp["state"], dict)
    st, s = _mk_state(inp, as_state)
    hm = list(inp["herald_modes"])
    if len(set(hm)) != len(hm) or not all(0 <= m < len(s) for m in hm):
        return None
    try:
        out = remove_heralds_from_state(st, hm)
    except Exception as e:  # noqa: BLE001
        return f"remove_heralds_from_state({s}, {hm}) raised {type(e).__name__}: {e}"
    exp = [x for i, x in enumerate(s) if i not in hm]
    if list(out) != exp:
        return f"remove_heralds_from_state({s}, {hm}) = {out}, expected {exp}"
    if hm != list(inp["herald_modes"]) or (as_state and st.s != s) or (not as_state and st != s):
        return "remove_heralds_from_state modified its arguments"
    return None


def enum_remove():
    import itertools
    for n in range(0, 5):
        for vals in itertools.product([0, 1], repeat=n):
            vals = [v + 2 * i for i, v in enumerate(vals)]
            for nh in range(0, min(n, 3) + 1):
                for keys in itertools.permutations(range(n), nh):
                    for as_state in (False, True):
                        st = {"_State__s": list(vals)} if as_state else list(vals)
                        yield {"state": st, "herald_modes": list(keys)}


ADD = Contract(
    target=f"{F}:add_heralds_to_state",
    types={"state": ["list[int]", STATE], "heralds": "dict[int,int]"},
    requires=[KEYS_IN_RANGE],
    modifies=[],
    loops={"range(n_modes)": Loop(
        invariant=["len(new_state) == n_modes",
                   "count == _k - cnt(heralds, _k)",
                   "forall(t, implies(0 <= t and t < _k, at(new_state,t) == "
                   "(at(heralds,t) if t in heralds else at(state, t - cnt(heralds,t)))))"])},
    ensures={
        "length": "len(result) == len(state) + len(heralds)",
        # herald values on herald modes, the state's entries in order on the others
        "content": "forall(t, implies(0 <= t and t < len(result), at(result,t) == "
                   "(at(heralds,t) if t in heralds else at(state, t - cnt(heralds,t)))))",
        "fresh": "fresh_ref(result)",
    },
    raises={},
    replay=replay_add,
    props=["C03", "C18", "C07"],
)
ADD.enum = enum_add

DISTINCT_IN_RANGE = ("forall((t,u), implies(0 <= t and t < u and u < len(herald_modes), at(herald_modes,t) != at(herald_modes,u))) and "
                     "forall(t, implies(0 <= t and t < len(herald_modes), 0 <= at(herald_modes,t) and at(herald_modes,t) < len(state)))")

REMOVE = Contract(
    target=f"{F}:remove_heralds_from_state",
    types={"state": ["list[int]", STATE], "herald_modes": "list[int]"},
    requires=[DISTINCT_IN_RANGE],
    modifies=[],
    loops={"to_remove": Loop(
        # g: position in new_s -> original index (strictly increasing); ginv: original index -> position, for indices not removed
        ghost={"g": ("lam(t, t)", "lam(t, ite(t < m, app(g, t), app(g, t + 1)))"),
               "ginv": ("lam(j, j)", "lam(j, ite(j < m, app(ginv, j), app(ginv, j) - 1))")},
        invariant=[
            "len(new_s) == len(state) - _k",
            "implies(_k >= 1, at(_it, _k - 1) <= len(state) - _k)",
            # below the smallest removed index nothing moved
            "forall(t, implies(0 <= t and t < (at(_it, _k - 1) if _k >= 1 else len(state)), app(g, t) == t and app(ginv, t) == t))",
            "forall(t, implies(0 <= t and t < len(new_s), at(new_s, t) == at(state, app(g, t)) and 0 <= app(g, t) and app(g, t) < len(state)))",
            "forall((t,u), implies(0 <= t and t < u and u < len(new_s), app(g, t) < app(g, u)))",
            # the indices already removed are exactly _it[0.._k): g avoids them, every other index is hit
            "forall((t,r), implies(0 <= t and t < len(new_s) and 0 <= r and r < _k, app(g, t) != at(_it, r)))",
            "forall(j, implies(0 <= j and j < len(state) and forall(r, implies(0 <= r and r < _k, at(_it, r) != j)), "
            "0 <= app(ginv, j) and app(ginv, j) < len(new_s) and app(g, app(ginv, j)) == j))",
        ])},
    ensures={
        "length": "len(result) == len(state) - len(herald_modes)",
        # order-preserving deletion: result[t] = state[g(t)] with g strictly increasing onto the non-herald indices
        "content": "forall(t, implies(0 <= t and t < len(result), at(result, t) == at(state, app(g, t)) and not (app(g, t) in herald_modes)))",
        "order": "forall((t,u), implies(0 <= t and t < u and u < len(result), app(g, t) < app(g, u)))",
        "complete": "forall(j, implies(0 <= j and j < len(state) and not (j in herald_modes), 0 <= app(ginv, j) and app(ginv, j) < len(result) and app(g, app(ginv, j)) == j))",
        "fresh": "fresh_ref(result)",
        "argument_unchanged": "state == old(state)",
    },
    raises={},
    replay=replay_remove,
    props=["C18", "C07", "C03"],
)
REMOVE.enum = enum_remove

CONTRACTS = [ADD, REMOVE]
