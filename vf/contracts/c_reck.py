"""Contracts: Reck unit-cell matrix and error-model distributions (C14)."""
from vf.pyvc.engine import Contract, Loop

D = "lightworks/interferometers/decomposition.py"
G = "lightworks/interferometers/dists/gaussian.py"
T = "lightworks/interferometers/dists/top_hat.py"


def _u(a, b):
    A, B_, C, Dd = (f"mat_at(result,{a},{a})", f"mat_at(result,{a},{b})", f"mat_at(result,{b},{a})", f"mat_at(result,{b},{b})")
    n2 = lambda x: f"(re({x})**2 + im({x})**2)"  # noqa: E731
    dr = lambda x, y: f"(re({x})*re({y}) + im({x})*im({y}))"  # noqa: E731
    di = lambda x, y: f"(re({x})*im({y}) - im({x})*re({y}))"  # noqa: E731
    return {"block_unitary.col1": f"{n2(A)} + {n2(C)} == 1", "block_unitary.col2": f"{n2(B_)} + {n2(Dd)} == 1",
            "block_unitary.orth_re": f"{dr(A, B_)} + {dr(C, Dd)} == 0", "block_unitary.orth_im": f"{di(A, B_)} + {di(C, Dd)} == 0"}


def replay_bs(inp):
    import numpy as np
    from lightworks.interferometers.decomposition import bs_matrix
    f = lambda v: v["float"] if isinstance(v, dict) else float(v)  # noqa: E731
    a, b, n = inp["mode1"], inp["mode2"], inp["n_modes"]
    if not (0 <= a < n and 0 <= b < n and a != b):
        return None
    M = bs_matrix(a, b, f(inp["theta"]), f(inp["phi"]), n)
    if not np.allclose(M.conj().T @ M, np.identity(n), atol=1e-9):
        return f"bs_matrix({a},{b},{f(inp['theta'])},{f(inp['phi'])},{n}) is not unitary"
    return None


CONTRACTS = [
    Contract(
        target=f"{D}:bs_matrix",
        types={"mode1": "int", "mode2": "int", "theta": "real", "phi": "real", "n_modes": "int"},
        requires=["0 <= mode1 and mode1 < n_modes and 0 <= mode2 and mode2 < n_modes and mode1 != mode2"],
        modifies=[],
        ensures={
            "dims": "result.shape[0] == n_modes and result.shape[1] == n_modes",
            "identity_elsewhere": "forall((i,j), implies(0 <= i and i < n_modes and 0 <= j and j < n_modes and not ((i == mode1 or i == mode2) and (j == mode1 or j == mode2)), "
                                  "mat_at(result,i,j) == cplx(1 if i == j else 0, 0)))",
            **_u("mode1", "mode2"),
        },
        raises={},
        replay=replay_bs,
        props=["C14"],
        assumes=["lemma M3bs (identity outside the two modes + the four block identities => unitary): kernel-checked by Lean 4 + Mathlib, vf/lemmas/lean/Lemmas.lean"],
    ),
    Contract(
        target=f"{T}:TopHat.value",
        types={"self": "obj:TopHat{_min_value:real;_max_value:real;_rng:opaque:rng}"},
        requires=["self._min_value <= self._max_value"],
        modifies=[],
        ensures={"within_bounds": "self._min_value <= result and result <= self._max_value"},
        raises={},
        props=["C14"],
    ),
    Contract(
        target=f"{G}:Gaussian.value",
        types={"self": "obj:Gaussian{_center:real;_deviation:real;_min_value:real;_max_value:real;_rng:opaque:rng}"},
        requires=["self._min_value <= self._max_value", "self._deviation >= 0"],     # numpy refuses a negative scale
        modifies=[],
        loops={"val < self._min_value or val > self._max_value": Loop(invariant=["True"])},
        # partial correctness: whenever the resampling loop exits, the value is inside the declared bounds
        ensures={"within_bounds": "self._min_value <= result and result <= self._max_value"},
        raises={},
        props=["C14"],
    ),
]
