"""Contracts: Reck unit-cell matrix and error-model distributions (C14)."""
from vf.pyvc.engine import Contract, Loop

D = "lightworks/interferometers/decomposition.py"
G = "lightworks/interferometers/dists/gaussian.py"
T = "lightworks/interferometers/dists/top_hat.py"


def _u(a, b):
    A, B_, C, Dd = (f"mat_at(result,{a},{a})", f"mat_at(result,{a},{b})", f"mat_at(result,{b},{a})", f"mat_at(result,{b},{b})")
    n2 = lambda x: f"(re({x})**2 + im({x})**2)"  # noqa: E731
    dr = lambda x, y: f"(re({x})*re({y}) + im({x})*im({y}))"  # noqa: E731
    di = lambda x, y: f"(re({x})*im({y}) - im({x})*re({y}))"  # noqa: E731
    return {"block_unitary.col1": f"{n2(A)} + {n2(C)} == 1", "block_unitary.col2": f"{n2(B_)} + {n2(Dd)} == 1",
            "block_unitary.orth_re": f"{dr(A, B_)} + {dr(C, Dd)} == 0", "block_unitary.orth_im": f"{di(A, B_)} + {di(C, Dd)} == 0"}


def replay_bs(inp):
    import numpy as np
    from lightworks.interferometers.decomposition import bs_matrix
    f = lambda v: v["float"] if isinstance(v, dict) else float(v)  # noqa: E731
    a, b, n = inp["mode1"], inp["mode2"], inp["n_modes"]
    if not (0 <= a < n and 0 <= b < n and a != b):
        return None
    M = bs_matrix(a, b, f(inp["theta"]), f(inp["phi"]), n)
    if not np.allclose(M.conj().T @ M, np.identity(n), atol=1e-9):
        return f"bs_matrix({a},{b},{f(inp['theta'])},{f(inp['phi'])},{n}) is not unitary"
    return None


CONTRACTS = [
    Contract(
        target=f"{D}:bs_matrix",
        types={"mode1": "int", "mode2": "int", "theta": "real", "phi": "real", "n_modes": "int"},
        requires=["0 <= mode1 and mode1 < n_modes and 0 <= mode2 and mode2 < n_modes and mode1 != mode2"],
        modifies=[],
        ensures={
            "dims": "result.shape[0] == n_modes and result.shape[1] == n_modes",
            "identity_elsewhere": "forall((i,j), implies(0 <= i and i < n_modes and 0 <= j and j < n_modes and not ((i == mode1 or i == mode2) and (j == mode1 or j == mode2)), "
                                  "mat_at(result,i,j) == cplx(1 if i == j else 0, 0)))",
            **_u("mode1", "mode2"),
        },
        raises={},
        replay=replay_bs,
        props=["C14"],
        assumes=["lemma M3bs (identity outside the two modes + the four block identities => unitary): kernel-checked by Lean 4 + Mathlib, vf/lemmas/lean/Lemmas.lean"],
    ),
    Contract(
        target=f"{T}:TopHat.value",
        types={"self": "obj:TopHat{_min_value:real;_max_value:real;_rng:opaque:rng}"},
        requires=["self._min_value <= self._max_value"],
        modifies=[],
        ensures={"within_bounds": "self._min_value <= result and result <= self._max_value"},
        raises={},
        props=["C14"],
    ),
    Contract(
        target=f"{G}:Gaussian.value",
        types={"self": "obj:Gaussian{_center:real;_deviation:real;_min_value:real;_max_value:real;_rng:opaque:rng}"},
        requires=["self._min_value <= self._max_value", "self._deviation >= 0"],     # numpy refuses a negative scale
        modifies=[],
        loops={"val < self._min_value or val > self._max_value": Loop(invariant=["True"])},
        # partial correctness: whenever the resampling loop exits, the value is inside the declared bounds
        ensures={"within_bounds": "self._min_value <= result and result <= self._max_value"},
        raises={},
        props=["C14"],
    ),
]


# ---------------------------------------------------------------------------------------------- distribution constructors (C14)
def replay_gauss_init(inp):
    from lightworks.interferometers import dists
    lo, hi = inp["min_value"], inp["max_value"]
    c, d = inp["center"], inp["deviation"]
    if isinstance(c, dict) or isinstance(d, dict) or isinstance(lo, dict) or isinstance(hi, dict):
        return None
    try:
        g = dists.Gaussian(c, d, min_value=lo, max_value=hi)
    except (ValueError, TypeError):
        return None if (lo is not None and hi is not None and hi < lo) or isinstance(lo, bool) or isinstance(hi, bool) else f"Gaussian({c},{d},{lo},{hi}) was refused"
    want_lo = float("-inf") if lo is None else lo
    want_hi = float("inf") if hi is None else hi
    if g._min_value != want_lo or g._max_value != want_hi or g._center != c or g._deviation != d:
        return f"Gaussian({c}, {d}, min_value={lo}, max_value={hi}) stores bounds [{g._min_value}, {g._max_value}], expected [{want_lo}, {want_hi}]"
    return None


def enum_gauss_init():
    for lo in (None, 0, 0.0, -1.5, 2):
        for hi in (None, 0, 0.0, 3.5):
            yield {"center": 0.5, "deviation": 0.1, "min_value": lo, "max_value": hi}


_GSELF = "obj:Gaussian{_center:none;_deviation:none;_min_value:none;_max_value:none;_rng:none}"
GAUSS_INIT = Contract(
    target=f"{G}:Gaussian.__init__",
    types={"self": _GSELF, "center": ["real", "int"], "deviation": "real", "min_value": ["real", "int", "none"], "max_value": ["real", "int", "none"]},
    requires=[], modifies=["self._center", "self._deviation", "self._min_value", "self._max_value", "self._rng"],
    ensures={
        # the declared bounds are stored as given - also when a bound is 0 - and a missing bound means no bound on that side
        "min_stored": "self._min_value == (min_value if not is_none(min_value) else 0 - np.inf)",
        "max_stored": "self._max_value == (max_value if not is_none(max_value) else np.inf)",
        "centre_and_width": "self._center == center and self._deviation == deviation",
    },
    raises={"ValueError": "(max_value if not is_none(max_value) else np.inf) < (min_value if not is_none(min_value) else 0 - np.inf)"},
    replay=replay_gauss_init, props=["C14"],
)
GAUSS_INIT.enum = enum_gauss_init
_TSELF = "obj:TopHat{_min_value:none;_max_value:none;_rng:none}"
TOPHAT_INIT = Contract(
    target=f"{T}:TopHat.__init__",
    types={"self": _TSELF, "min_value": ["real", "int"], "max_value": ["real", "int"]},
    requires=[], modifies=["self._min_value", "self._max_value", "self._rng"],
    ensures={"bounds_stored": "self._min_value == min_value and self._max_value == max_value"},
    raises={"ValueError": "max_value < min_value"},
    props=["C14"],
)
CONTRACTS += [GAUSS_INIT, TOPHAT_INIT]
