"""Contracts: the circuit-spec rewrites of C09 (swap composition, non-adjacent beam splitter synthesis, group flattening)."""
from vf.pyvc.engine import Contract

UTIL = "lightworks/sdk/circuit/circuit_utils.py"


def _swap_dict(k):
    def build(ex, name):
        import z3
        from vf.pyvc.values import CDict
        return ex.alloc(CDict(tuple((z3.Int(f"{name}_k{i}"), z3.Int(f"{name}_v{i}")) for i in range(k))), name)
    build.label = f"dict of {k} swap(s)"
    build.native = lambda v: {a: b for a, b in v["dict"]}
    return build


def _perm_requires(name, k):
    """the dictionary is a complete swap (ModeSwaps accepts only those): keys pairwise distinct (a dict), values pairwise distinct, every value a key"""
    ks = [f"{name}_k{i}" for i in range(k)]
    vs = [f"{name}_v{i}" for i in range(k)]
    out = [f"{a} != {b}" for i, a in enumerate(ks) for b in ks[i + 1:]]
    out += [f"{a} != {b}" for i, a in enumerate(vs) for b in vs[i + 1:]]
    out += ["(" + " or ".join(f"{v} == {a}" for a in ks) + ")" for v in vs]
    return out


def _img(name, k, x):
    """text of: name[x] if x in name else x"""
    r = x
    for i in reversed(range(k)):
        r = f"({name}_v{i} if {x} == {name}_k{i} else {r})"
    return r


def replay_combine(inp):
    from lightworks.sdk.circuit.circuit_utils import combine_mode_swap_dicts
    d1 = {a: b for a, b in inp["swaps1"]["dict"]}
    d2 = {a: b for a, b in inp["swaps2"]["dict"]}
    if sorted(d1) != sorted(d1.values()) or sorted(d2) != sorted(d2.values()) or not all(isinstance(x, int) for x in [*d1, *d2]):
        return None
    b1, b2 = dict(d1), dict(d2)
    got = combine_mode_swap_dicts(d1, d2)
    want = {}
    for x in [*d1, *d2]:
        y = d1.get(x, x)
        y = d2.get(y, y)
        if y != x:
            want[x] = y
    if got != want:
        return f"combine_mode_swap_dicts({b1}, {b2}) = {got}, expected the composition {want} (first swaps1, then swaps2; unchanged modes dropped)"
    if d1 != b1 or d2 != b2:
        return f"combine_mode_swap_dicts changed its arguments: {b1}, {b2} -> {d1}, {d2}"
    return None


def enum_combine():
    """every pair of complete swap dictionaries over <=3 modes out of {0..3} (as permutations, in every key order of the first)"""
    import itertools
    perms = []
    for r in range(0, 4):
        for keys in itertools.combinations(range(4), r):
            for vals in itertools.permutations(keys):
                perms.append(list(zip(keys, vals)))
    for p1 in perms:
        for p2 in perms:
            yield {"swaps1": {"dict": [list(x) for x in p1]}, "swaps2": {"dict": [list(x) for x in reversed(p2)]}}


def _combine(k1, k2):
    xs = [f"swaps1_k{i}" for i in range(k1)] + [f"swaps2_k{i}" for i in range(k2)]
    ens = {"not_larger": f"len(result) <= {k1 + k2}",
           "keys_from_arguments": "forall(y, implies(y in result, " + (" or ".join(f"y == {x}" for x in xs) or "False") + "))",
           "no_fixed_mode_kept": "forall(y, implies(y in result, result[y] != y))"}
    for x in xs:
        img = _img("swaps2", k2, _img("swaps1", k1, x))
        # every mode named by either dictionary: present in the result exactly when the composition moves it, and then sent where the composition sends it
        ens[f"composition[{x}]"] = f"(({x} in result) == ({img} != {x})) and implies({x} in result, result[{x}] == {img})"
    c = Contract(
        target=f"{UTIL}:combine_mode_swap_dicts",
        types={"swaps1": _swap_dict(k1), "swaps2": _swap_dict(k2), **{f"swaps1_{a}{i}": "int" for i in range(k1) for a in "kv"}, **{f"swaps2_{a}{i}": "int" for i in range(k2) for a in "kv"}},
        requires=_perm_requires("swaps1", k1) + _perm_requires("swaps2", k2),
        modifies=[],
        ensures=ens,
        raises={},
        replay=replay_combine,
        props=["C09"],
    )
    c.enum = enum_combine
    c.no_callee = True        # one contract per pair of dictionary sizes: not a contract for an arbitrary call site
    c.label = f"{k1} then {k2} swap(s)"
    return c


COMBINE = [_combine(a, b) for a in range(0, 4) for b in range(0, 4)]
CONTRACTS = list(COMBINE)


# ---------------------------------------------------------------------------------------------- convert_non_adj_beamsplitters
def _far_bs(conv):
    def build(ex, name):
        import z3
        from vf.pyvc.values import CList, Obj
        p = f"{name}[0]"
        b = ex.alloc(Obj("BeamSplitter", (("mode_1", z3.Int(f"{p}.mode_1")), ("mode_2", z3.Int(f"{p}.mode_2")), ("reflectivity", z3.Real(f"{p}.reflectivity")),
                                            ("convention", conv))), p)
        return ex.alloc(CList((b,)), name)
    build.label = f"one non-adjacent BeamSplitter ({conv})"
    return build


def replay_nonadj(inp):
    import copy
    import numpy as np
    from lightworks.sdk.circuit import components as C
    from lightworks.sdk.circuit.circuit_utils import convert_non_adj_beamsplitters
    e = inp["circuit_spec"][0]
    m1, m2 = e.get("mode_1"), e.get("mode_2")
    if not (isinstance(m1, int) and isinstance(m2, int)) or m1 < 0 or m2 < 0 or m1 == m2 or max(m1, m2) > 40:
        return None
    out_all = []
    for conv in ("Rx", "H"):
        bs = C.BeamSplitter(m1, m2, 0.3, conv)
        before = copy.deepcopy(bs)
        out = convert_non_adj_beamsplitters([bs])
        n = max(m1, m2) + 2
        U = np.identity(n, dtype=complex)
        for comp in out:
            if isinstance(comp, C.BeamSplitter) and abs(comp.mode_1 - comp.mode_2) != 1:
                return f"convert_non_adj_beamsplitters([BS({m1},{m2},{conv})]) still contains a beam splitter on non-adjacent modes ({comp.mode_1},{comp.mode_2})"
            U = comp.get_unitary(n) @ U
        if not np.allclose(U, before.get_unitary(n), atol=1e-12):
            return f"convert_non_adj_beamsplitters([BS({m1},{m2},0.3,{conv})]) = {out}: the product of the replacement differs from the beam splitter's matrix"
        if (bs.mode_1, bs.mode_2, bs.reflectivity, bs.convention) != (before.mode_1, before.mode_2, before.reflectivity, before.convention):
            return "convert_non_adj_beamsplitters changed its argument element"
        out_all.append(out)
    return None


def enum_nonadj():
    for a in range(0, 5):
        for d in range(1, 7):
            yield {"circuit_spec": [{"mode_1": a, "mode_2": a + d}]}
            yield {"circuit_spec": [{"mode_1": a + d, "mode_2": a}]}


def _nonadj(d, rev, conv):
    E = "circuit_spec[0]"
    lo, hi = (f"{E}.mode_2", f"{E}.mode_1") if rev else (f"{E}.mode_1", f"{E}.mode_2")
    mid = f"({lo} + {(d - 1) // 2})"          # int((lo + hi - 1) / 2) with hi = lo + d
    S0, B, S1 = "result[0]", "result[1]", "result[2]"
    modes = [f"({lo} + {j})" for j in range(d + 1)]

    def image(j):
        # where the first swap sends mode lo+j: the two beam splitter modes meet in the middle, the modes in between move outwards by one
        if j == 0:
            return mid
        if j == d:
            return f"({mid} + 1)"
        return f"({lo} + {j - 1})" if j <= (d - 1) // 2 else f"({lo} + {j + 1})"
    ens = {
        "three_components": f"len(result) == 3 and isinstance({S0}, ModeSwaps) and isinstance({B}, BeamSplitter) and isinstance({S1}, ModeSwaps)",
        # structure postcondition of the property: the beam splitter left in the spec acts on adjacent modes
        "bs_adjacent": f"abs({B}.mode_2 - {B}.mode_1) == 1",
        "bs_same_settings": f"{B}.reflectivity == {E}.reflectivity and {B}.convention == {E}.convention",
        # the beam splitter's first mode is where the swap brings the original first mode (orientation kept), likewise the second
        "bs_on_images": f"{B}.mode_1 == " + (image(d) if rev else image(0)) + f" and {B}.mode_2 == " + (image(0) if rev else image(d)),
        "swap_domain": f"len({S0}.swaps) == {d + 1} and len({S1}.swaps) == {d + 1}",
        "swap_images": " and ".join(f"{m} in {S0}.swaps and {S0}.swaps[{m}] == {image(j)}" for j, m in enumerate(modes)),
        # the closing swap undoes the opening one
        "swap_back": " and ".join(f"{image(j)} in {S1}.swaps and {S1}.swaps[{image(j)}] == {m}" for j, m in enumerate(modes)),
        "argument_unchanged": f"{E}.mode_1 == old({E}.mode_1) and {E}.mode_2 == old({E}.mode_2)",
    }
    c = Contract(
        target=f"{UTIL}:convert_non_adj_beamsplitters",
        types={"circuit_spec": _far_bs(conv)},
        requires=[f"{lo} >= 0", f"{hi} == {lo} + {d}", f"0 <= {E}.reflectivity and {E}.reflectivity <= 1"],
        modifies=[],
        ensures=ens,
        raises={},
        replay=replay_nonadj,
        props=["C09"],
    )
    c.enum = enum_nonadj
    c.no_callee = True
    c.label = f"{conv}, modes {d} apart, " + ("second mode lower" if rev else "first mode lower")
    return c


NONADJ = [_nonadj(d, rev, conv) for d in (2, 3, 4, 5) for rev in (False, True) for conv in ("Rx", "H")]
CONTRACTS += NONADJ


# ---------------------------------------------------------------------------------------------- unpack_circuit_spec
def _spec_list(kinds):
    """a circuit spec with a concrete spine: components of the given kinds (their fields symbolic); a Group holds an arbitrary inner list"""
    def build(ex, name):
        import z3
        from vf.pyvc.values import CDict, CList, Obj
        items = []
        for i, k in enumerate(kinds):
            p = f"{name}[{i}]"
            if k == "PS":
                items.append(ex.alloc(Obj("PhaseShifter", (("mode", z3.Int(f"{p}.mode")), ("phi", z3.Real(f"{p}.phi")))), p))
            elif k == "SW2":
                a, b = z3.Int(f"{name}_{i}_a"), z3.Int(f"{name}_{i}_b")        # the transposition a <-> b (named so that the contract text can refer to them)
                items.append(ex.alloc(Obj("ModeSwaps", (("swaps", ex.alloc(CDict(((a, b), (b, a))), f"{p}.swaps")),)), p))
            elif k == "LOSS":
                items.append(ex.alloc(Obj("Loss", (("mode", z3.Int(f"{p}.mode")), ("loss", z3.Real(f"{p}.loss")))), p))
            elif k == "BS":
                items.append(ex.alloc(Obj("BeamSplitter", (("mode_1", z3.Int(f"{p}.mode_1")), ("mode_2", z3.Int(f"{p}.mode_2")), ("reflectivity", z3.Real(f"{p}.reflectivity")),
                                                            ("convention", "Rx"))), p))
            else:
                inner_kinds = k[1]
                inner = _spec_list(inner_kinds)(ex, f"{p}.circuit_spec")
                her = ex.alloc(CDict((("input", ex.make(f"{p}.heralds.input", "dict[int,int]", f"{p}.heralds.input")),
                                      ("output", ex.make(f"{p}.heralds.output", "dict[int,int]", f"{p}.heralds.output")))), f"{p}.heralds")
                items.append(ex.alloc(Obj("Group", (("circuit_spec", inner), ("name", "g"), ("mode_1", z3.Int(f"{p}.mode_1")), ("mode_2", z3.Int(f"{p}.mode_2")), ("heralds", her))), p))
        return ex.alloc(CList(tuple(items)), name)
    build.label = "spec " + repr(kinds)
    return build


def _flat(kinds, path="circuit_spec"):
    """access paths of the non-group components in flattening order"""
    out = []
    for i, k in enumerate(kinds):
        if isinstance(k, tuple):
            out += _flat(k[1], f"{path}[{i}].circuit_spec")
        else:
            out.append(f"{path}[{i}]")
    return out


def replay_unpack(inp):
    return None


def _unpack(kinds, label):
    flat = _flat(kinds)
    c = Contract(
        target=f"{UTIL}:unpack_circuit_spec",
        types={"circuit_spec": _spec_list(kinds)},
        requires=[], modifies=[],
        ensures={
            # structure postcondition of the property: no group remains
            "no_group_remains": f"len(result) == {len(flat)} and " + " and ".join([f"not isinstance(result[{j}], Group)" for j in range(len(flat))] or ["True"]),
            # the components of the groups take the group's place, in order (the same component objects: unpacking does not copy or reorder)
            "flattened_in_order": " and ".join([f"result[{j}] is {pth}" for j, pth in enumerate(flat)] or ["True"]),
            "a_new_list": "fresh_ref(result)",
            "argument_unchanged": f"len(circuit_spec) == {len(kinds)}",
        },
        raises={}, props=["C09", "C08"],
    )
    c.no_callee = True
    c.label = label
    return c


G = lambda *inner: ("G", tuple(inner))       # noqa: E731
UNPACK = [
    _unpack((), "empty spec"),
    _unpack(("PS", "BS"), "no group"),
    _unpack((G("PS", "BS"),), "a single group (the whole spec)"),
    _unpack(("BS", G("PS"), "PS"), "group between components"),
    _unpack((G(), "PS"), "empty group"),
    _unpack((G("PS", G("BS", "PS")), "BS"), "group inside a group"),
    _unpack((G(G(G("PS"))),), "groups nested three deep"),
    _unpack((G("PS"), G("BS")), "two groups"),
]
CONTRACTS += UNPACK


# convert_non_adj_beamsplitters on components it must leave alone, and inside groups
def _passthrough():
    c = Contract(
        target=f"{UTIL}:convert_non_adj_beamsplitters",
        types={"circuit_spec": _spec_list(("PS", "BS"))},
        requires=["abs(circuit_spec[1].mode_2 - circuit_spec[1].mode_1) == 1"],
        modifies=[],
        ensures={
            "same_length": "len(result) == 2 and isinstance(result[0], PhaseShifter) and isinstance(result[1], BeamSplitter)",
            "copies_with_the_same_settings": "fresh_ref(result[0]) and fresh_ref(result[1]) and result[0].mode == circuit_spec[0].mode and result[0].phi == circuit_spec[0].phi and "
                                             "result[1].mode_1 == circuit_spec[1].mode_1 and result[1].mode_2 == circuit_spec[1].mode_2 and "
                                             "result[1].reflectivity == circuit_spec[1].reflectivity and result[1].convention == circuit_spec[1].convention",
        },
        raises={}, props=["C09"],
    )
    c.no_callee = True
    c.label = "phase shifter and adjacent beam splitter: copied unchanged"
    return c


def _in_group():
    E = "circuit_spec[0].circuit_spec[1]"
    R = "result[0].circuit_spec"
    c = Contract(
        target=f"{UTIL}:convert_non_adj_beamsplitters",
        types={"circuit_spec": _spec_list((G("PS", "BS"),))},
        requires=[f"{E}.mode_1 >= 0", f"{E}.mode_2 == {E}.mode_1 + 2", f"0 <= {E}.reflectivity and {E}.reflectivity <= 1"],
        modifies=[],
        ensures={
            "group_kept": "len(result) == 1 and isinstance(result[0], Group) and fresh_ref(result[0]) and result[0].mode_1 == circuit_spec[0].mode_1 and result[0].mode_2 == circuit_spec[0].mode_2",
            # the beam splitter inside the group is replaced too (the property asks for no non-adjacent beam splitter at any depth)
            "inner_replaced": f"len({R}) == 4 and isinstance({R}[0], PhaseShifter) and isinstance({R}[1], ModeSwaps) and isinstance({R}[2], BeamSplitter) and isinstance({R}[3], ModeSwaps) "
                              f"and abs({R}[2].mode_2 - {R}[2].mode_1) == 1",
            "original_group_untouched": "len(circuit_spec[0].circuit_spec) == 2 and isinstance(circuit_spec[0].circuit_spec[1], BeamSplitter) and "
                                        f"{E}.mode_2 == old({E}.mode_2)",
        },
        raises={}, props=["C09", "C08"],
        inline=["convert_non_adj_beamsplitters"],      # the recursive call on the group's (concrete-spine) inner list is executed from the real source
    )
    c.no_callee = True
    c.label = "non-adjacent beam splitter inside a group"
    return c


CONTRACTS += [_passthrough(), _in_group()]



# ---------------------------------------------------------------------------------------------- compress_mode_swaps
def _compress(middle, label):
    """[swap a<->b, <middle component>, swap c<->d] with all modes symbolic: the later swap is merged into the first exactly when the component
    in between touches none of its modes; otherwise the spec is returned unchanged (as copies)"""
    S0, M, S1 = "circuit_spec[0]", "circuit_spec[1]", "circuit_spec[2]"
    a, b, c_, d = "circuit_spec_0_a", "circuit_spec_0_b", "circuit_spec_2_a", "circuit_spec_2_b"
    touched = {"PS": [f"{M}.mode"], "LOSS": [f"{M}.mode"], "BS": [f"{M}.mode_1", f"{M}.mode_2"],
               "GROUP3": [f"{M}.mode_1", f"({M}.mode_1 + 1)", f"({M}.mode_1 + 2)"]}[middle]      # a group blocks every mode of its range mode_1..mode_2
    kind = G("PS") if middle == "GROUP3" else middle
    blocked = "(" + " or ".join(f"{t} == {x}" for t in touched for x in (c_, d)) + ")"
    comp = lambda x: _img2(c_, d, _img2(a, b, x))       # noqa: E731
    xs = [a, b, c_, d]
    merged = " and ".join(f"(({x} in result[0].swaps) == ({comp(x)} != {x})) and implies({x} in result[0].swaps, result[0].swaps[{x}] == {comp(x)})" for x in xs)
    con = Contract(
        target=f"{UTIL}:compress_mode_swaps",
        types={"circuit_spec": _spec_list(("SW2", kind, "SW2")), a: "int", b: "int", c_: "int", d: "int"},
        requires=[f"{a} != {b}", f"{c_} != {d}", f"{a} >= 0 and {b} >= 0 and {c_} >= 0 and {d} >= 0"] + ([f"{M}.mode_1 != {M}.mode_2"] if middle == "BS" else []) +
                 ([f"{M}.mode_2 == {M}.mode_1 + 2"] if middle == "GROUP3" else []),
        modifies=[],
        ensures={
            "not_longer": "len(result) <= 3",
            "blocked_swap_stays": f"implies({blocked}, len(result) == 3 and isinstance(result[0], ModeSwaps) and isinstance(result[2], ModeSwaps) and "
                                  f"result[0].swaps[{a}] == {b} and result[0].swaps[{b}] == {a} and len(result[0].swaps) == 2 and "
                                  f"result[2].swaps[{c_}] == {d} and result[2].swaps[{d}] == {c_} and len(result[2].swaps) == 2)",
            "free_swap_is_merged": f"implies(not {blocked}, len(result) == 2 and isinstance(result[0], ModeSwaps) and not isinstance(result[1], ModeSwaps) and {merged})",
            "argument_unchanged": f"len(circuit_spec) == 3 and len({S0}.swaps) == 2 and {S0}.swaps[{a}] == {b} and {S0}.swaps[{b}] == {a} and len({S1}.swaps) == 2",
        },
        raises={}, props=["C09", "C08"],
        inline=["combine_mode_swap_dicts"],
    )
    con.no_callee = True
    con.label = label
    return con


def _img2(p, q, x):
    return f"({q} if {x} == {p} else ({p} if {x} == {q} else {x}))"


COMPRESS = [_compress("PS", "swap, phase shifter, swap"), _compress("LOSS", "swap, loss, swap"), _compress("BS", "swap, beam splitter, swap"),
            _compress("GROUP3", "swap, group over three modes, swap")]
CONTRACTS += COMPRESS


# ---------------------------------------------------------------------------------------------- Circuit._freeze_params (C09 / C10)
CIRC = "lightworks/sdk/circuit/circuit.py"
_PARAM = "obj:Parameter{__value:real;__min_bound:none;__max_bound:none;label:none}"


def _frozen_spec(kinds):
    """a spec whose numeric settings are Parameter objects (fields symbolic)"""
    def build(ex, name):
        import z3
        from vf.pyvc.values import CDict, CList, Obj
        items = []
        for i, k in enumerate(kinds):
            p = f"{name}[{i}]"
            par = lambda tag: ex.make(f"{p}.{tag}", _PARAM, f"{p}.{tag}")       # noqa: E731
            if k == "PSP":
                items.append(ex.alloc(Obj("PhaseShifter", (("mode", z3.Int(f"{p}.mode")), ("phi", par("phi")))), p))
            elif k == "PSP@0":
                # a second phase shifter bound to the SAME Parameter object as element 0
                items.append(ex.alloc(Obj("PhaseShifter", (("mode", z3.Int(f"{p}.mode")), ("phi", ex.heap[items[0].id].get("phi")))), p))
            elif k == "LOSSP":
                items.append(ex.alloc(Obj("Loss", (("mode", z3.Int(f"{p}.mode")), ("loss", par("loss")))), p))
            elif k == "BSP":
                items.append(ex.alloc(Obj("BeamSplitter", (("mode_1", z3.Int(f"{p}.mode_1")), ("mode_2", z3.Int(f"{p}.mode_2")), ("reflectivity", par("reflectivity")),
                                                            ("convention", "H"))), p))
            elif k == "PS":
                items.append(ex.alloc(Obj("PhaseShifter", (("mode", z3.Int(f"{p}.mode")), ("phi", z3.Real(f"{p}.phi")))), p))
            else:
                inner = _frozen_spec(k[1])(ex, f"{p}.circuit_spec")
                her = ex.alloc(CDict((("input", ex.make(f"{p}.heralds.input", "dict[int,int]", f"{p}.heralds.input")),
                                      ("output", ex.make(f"{p}.heralds.output", "dict[int,int]", f"{p}.heralds.output")))), f"{p}.heralds")
                items.append(ex.alloc(Obj("Group", (("circuit_spec", inner), ("name", "g"), ("mode_1", z3.Int(f"{p}.mode_1")), ("mode_2", z3.Int(f"{p}.mode_2")), ("heralds", her))), p))
        return ex.alloc(CList(tuple(items)), name)
    build.label = "spec " + repr(kinds)
    return build


_CIRCUIT = ("obj:Circuit{__n_modes:int;__internal_modes:list[int];__in_heralds:dict[int,int];"
            "__out_heralds:dict[int,int];__external_in_heralds:dict[int,int];__external_out_heralds:dict[int,int];__circuit_spec:glist}")

_SHAPE = ("len(result) == 5 and isinstance(result[0], PhaseShifter) and isinstance(result[1], Loss) and isinstance(result[2], BeamSplitter) and "
          "isinstance(result[3], PhaseShifter) and isinstance(result[4], Group)")
FREEZE = Contract(
    target=f"{CIRC}:Circuit._freeze_params",
    types={"self": _CIRCUIT, "circuit_spec": _frozen_spec(("PSP", "LOSSP", "BSP", "PS", G("PSP", "LOSSP")))},
    requires=[], modifies=[],
    ensures={
        # every component is carried over (also a loss element whose value is 0), one for one and in order, as a new object
        "one_for_one": _SHAPE + " and " + " and ".join(f"fresh_ref(result[{i}])" for i in range(5)),
        # parameters are replaced by the value they hold at this moment; plain values and modes are kept
        "values_of_the_moment": "implies(" + _SHAPE + ", result[0].phi == old(circuit_spec[0].phi._Parameter__value) and result[1].loss == old(circuit_spec[1].loss._Parameter__value) and "
                                "result[2].reflectivity == old(circuit_spec[2].reflectivity._Parameter__value) and result[3].phi == circuit_spec[3].phi)",
        "modes_kept": "implies(" + _SHAPE + ", result[0].mode == circuit_spec[0].mode and result[1].mode == circuit_spec[1].mode and result[2].mode_1 == circuit_spec[2].mode_1 and "
                      "result[2].mode_2 == circuit_spec[2].mode_2 and result[2].convention == circuit_spec[2].convention and result[4].mode_1 == circuit_spec[4].mode_1)",
        "inside_groups_too": "implies(" + _SHAPE + ", len(result[4].circuit_spec) == 2 and fresh_ref(result[4].circuit_spec) and result[4].circuit_spec[0].phi == old(circuit_spec[4].circuit_spec[0].phi._Parameter__value) and "
                             "result[4].circuit_spec[1].loss == old(circuit_spec[4].circuit_spec[1].loss._Parameter__value))",
        # the spec that was passed in still holds its Parameter objects
        "argument_keeps_its_parameters": "isinstance(circuit_spec[0].phi, Parameter) and isinstance(circuit_spec[1].loss, Parameter) and isinstance(circuit_spec[2].reflectivity, Parameter) and "
                                         "isinstance(circuit_spec[4].circuit_spec[0].phi, Parameter) and len(circuit_spec[4].circuit_spec) == 2",
    },
    raises={}, props=["C09", "C10"],
    inline=["_freeze_params"],
)
FREEZE.no_callee = True
FREEZE.label = "phase / loss / reflectivity parameters, a plain value, a group"
CONTRACTS += [FREEZE]


# ---------------------------------------------------------------------------------------------- ModeSwaps.__post_init__ (C01 / C09)
COMP = "lightworks/sdk/circuit/components.py"


def _ms_obj(k):
    def build(ex, name):
        import z3
        from vf.pyvc.values import CDict, Obj
        d = ex.alloc(CDict(tuple((z3.Int(f"swaps_k{i}"), z3.Int(f"swaps_v{i}")) for i in range(k))), f"{name}.swaps")
        return ex.alloc(Obj("ModeSwaps", (("swaps", d),)), name)
    build.label = f"ModeSwaps of {k} entries"
    return build


def _complete(k):
    """a swap dictionary is complete: its values are its keys in some order (keys of a dict are pairwise distinct)"""
    ks = [f"swaps_k{i}" for i in range(k)]
    vs = [f"swaps_v{i}" for i in range(k)]
    out = [f"{a} != {b}" for i, a in enumerate(vs) for b in vs[i + 1:]]
    out += ["(" + " or ".join(f"{v} == {a}" for a in ks) + ")" for v in vs]
    return " and ".join(out) if out else "True"


def _post_init(k):
    ks = [f"swaps_k{i}" for i in range(k)]
    c = Contract(
        target=f"{COMP}:ModeSwaps.__post_init__",
        types={"self": _ms_obj(k), **{f"swaps_{a}{i}": "int" for i in range(k) for a in "kv"}},
        requires=[f"{a} != {b}" for i, a in enumerate(ks) for b in ks[i + 1:]],
        modifies=[],
        ensures={"accepted_unchanged": f"len(self.swaps) == {k}"},
        # exactly the incomplete dictionaries are refused (the test in the code compares the sorted keys with the sorted values)
        raises={"ValueError": f"not ({_complete(k)})"},
        exc_frame=True,
        props=["C01", "C09"],
    )
    c.no_callee = True
    c.label = f"{k} entries"
    return c


POSTINIT = [_post_init(k) for k in range(0, 5)]
CONTRACTS += POSTINIT


# ---------------------------------------------------------------------------------------------- Circuit.copy / Circuit.__add__ (C08 / C09)
def _circuit_with_spec(kinds):
    """a Circuit whose spec has a concrete spine (component fields symbolic), every other attribute symbolic"""
    def build(ex, name):
        import z3
        from vf.pyvc.values import Obj
        spec = _frozen_spec(kinds)(ex, f"{name}.__circuit_spec")
        f = lambda a, t: ex.make(f"{name}.{a}", t, f"{name}.{a}")       # noqa: E731
        return ex.alloc(Obj("Circuit", (("_Circuit__n_modes", z3.Int(f"{name}.__n_modes")), ("_Circuit__internal_modes", f("__internal_modes", "list[int]")),
                                         ("_Circuit__in_heralds", f("__in_heralds", "dict[int,int]")), ("_Circuit__out_heralds", f("__out_heralds", "dict[int,int]")),
                                         ("_Circuit__external_in_heralds", f("__external_in_heralds", "dict[int,int]")),
                                         ("_Circuit__external_out_heralds", f("__external_out_heralds", "dict[int,int]")), ("_Circuit__circuit_spec", spec))), name)
    build.label = "Circuit with spec " + repr(kinds)
    return build


def _same_dict(a, b):
    return f"len({a}) == len({b}) and forall(x, (x in {a}) == (x in {b})) and forall(x, implies(x in {a}, {a}[x] == {b}[x]))"


COPY = Contract(
    target=f"{CIRC}:Circuit.copy",
    types={"self": _circuit_with_spec(("PSP", "BSP", G("LOSSP"))), "freeze_parameters": ["const:False", "const:True"]},
    requires=[], modifies=[],
    ensures={
        "a_new_circuit": "fresh_ref(result) and fresh_ref(result.__circuit_spec) and fresh_ref(result.__in_heralds) and fresh_ref(result.__out_heralds) and "
                         "fresh_ref(result.__external_in_heralds) and fresh_ref(result.__external_out_heralds) and fresh_ref(result.__internal_modes)",
        "same_size_and_heralds": "result.__n_modes == self.__n_modes and " + _same_dict("result.__in_heralds", "self.__in_heralds") + " and " +
                                 _same_dict("result.__out_heralds", "self.__out_heralds") + " and " + _same_dict("result.__external_in_heralds", "self.__external_in_heralds") +
                                 " and " + _same_dict("result.__external_out_heralds", "self.__external_out_heralds"),
        "same_ancillas": "len(result.__internal_modes) == len(self.__internal_modes) and forall(t, implies(0 <= t and t < len(self.__internal_modes), "
                         "at(result.__internal_modes, t) == at(self.__internal_modes, t)))",
        "same_components_in_order": "len(result.__circuit_spec) == 3 and isinstance(result.__circuit_spec[0], PhaseShifter) and isinstance(result.__circuit_spec[1], BeamSplitter) "
                                    "and isinstance(result.__circuit_spec[2], Group) and result.__circuit_spec[0].mode == self.__circuit_spec[0].mode and "
                                    "result.__circuit_spec[1].mode_1 == self.__circuit_spec[1].mode_1 and result.__circuit_spec[1].mode_2 == self.__circuit_spec[1].mode_2",
        # a plain copy stays bound to the same Parameter objects (they are live); a frozen copy holds the values of this moment and no Parameter
        "frozen_values_of_the_moment": "implies(freeze_parameters, result.__circuit_spec[0].phi == old(self.__circuit_spec[0].phi._Parameter__value) and "
                                       "result.__circuit_spec[1].reflectivity == old(self.__circuit_spec[1].reflectivity._Parameter__value) and "
                                       "result.__circuit_spec[2].circuit_spec[0].loss == old(self.__circuit_spec[2].circuit_spec[0].loss._Parameter__value))",
        "plain_copy_keeps_the_parameter_objects": "implies(not freeze_parameters, result.__circuit_spec[0].phi is self.__circuit_spec[0].phi and "
                                                  "result.__circuit_spec[1].reflectivity is self.__circuit_spec[1].reflectivity)",
        "original_unchanged": "len(self.__circuit_spec) == 3 and isinstance(self.__circuit_spec[0].phi, Parameter) and isinstance(self.__circuit_spec[2].circuit_spec[0].loss, Parameter)",
    },
    raises={}, props=["C09", "C08", "C10"],
    inline=["_freeze_params"],
)
COPY.no_callee = True
COPY.label = "phase shifter, beam splitter, group; plain and frozen"
CONTRACTS += [COPY]


PLUS = Contract(
    target=f"{CIRC}:Circuit.__add__",
    types={"self": _circuit_with_spec(("PSP", "BSP")), "value": [_circuit_with_spec(("PS", G("LOSSP"))), "int"]},
    requires=[], modifies=[],
    ensures={
        "a_new_circuit": "fresh_ref(result) and fresh_ref(result.__circuit_spec) and result.__n_modes == self.__n_modes",
        # the components of the first circuit, then those of the second, the same component objects in the same order
        "specs_concatenated": "len(result.__circuit_spec) == 4 and result.__circuit_spec[0] is self.__circuit_spec[0] and result.__circuit_spec[1] is self.__circuit_spec[1] and "
                              "result.__circuit_spec[2] is value.__circuit_spec[0] and result.__circuit_spec[3] is value.__circuit_spec[1]",
        "no_heralds": "len(result.__in_heralds) == 0 and len(result.__out_heralds) == 0 and len(result.__internal_modes) == 0",
        "operands_unchanged": "len(self.__circuit_spec) == 2 and len(value.__circuit_spec) == 2",
    },
    raises={"TypeError": "not isinstance(value, Circuit)",
            "ModeRangeError": "isinstance(value, Circuit) and self.__n_modes != value.__n_modes",
            "NotImplementedError": "isinstance(value, Circuit) and self.__n_modes == value.__n_modes and (len(self.__in_heralds) > 0 or len(value.__in_heralds) > 0)"},
    exc_frame=True,
    props=["C08", "C09"],
)
PLUS.no_callee = True
PLUS.label = "two circuits / a circuit and a number"
CONTRACTS += [PLUS]


# ---------------------------------------------------------------------------------------------- Circuit getters (C02 / C08): sizes, and copies of the herald maps
INPUT_MODES = Contract(
    target=f"{CIRC}:Circuit.input_modes", kind="getter",
    types={"self": _CIRCUIT}, requires=[], modifies=[],
    # the number of modes a user supplies a state for: all modes except the heralded inputs
    ensures={"all_modes_but_the_heralded_inputs": "result == self.__n_modes - len(self.__in_heralds)"},
    raises={}, props=["C02", "C03"],
)
INPUT_MODES.no_callee = True
HERALDS = Contract(
    target=f"{CIRC}:Circuit.heralds", kind="getter",
    types={"self": _CIRCUIT}, requires=[], modifies=[],
    ensures={
        # what is handed out are copies: nothing a caller does to them can change the circuit's heralds
        "copies": "fresh_ref(result) and fresh_ref(result['input']) and fresh_ref(result['output'])",
        "same_content": _same_dict("result['input']", "self.__in_heralds") + " and " + _same_dict("result['output']", "self.__out_heralds"),
    },
    raises={}, props=["C02", "C08"],
)
HERALDS.no_callee = True
EXT_HERALDS = Contract(
    target=f"{CIRC}:Circuit._external_heralds", kind="getter",
    types={"self": _CIRCUIT}, requires=[], modifies=[],
    ensures={
        "copies": "fresh_ref(result) and fresh_ref(result['input']) and fresh_ref(result['output'])",
        "same_content": _same_dict("result['input']", "self.__external_in_heralds") + " and " + _same_dict("result['output']", "self.__external_out_heralds"),
    },
    raises={}, props=["C02", "C08"],
)
EXT_HERALDS.no_callee = True
CONTRACTS += [INPUT_MODES, HERALDS, EXT_HERALDS]


UNPACK_GROUPS = Contract(
    target=f"{CIRC}:Circuit.unpack_groups",
    types={"self": _circuit_with_spec((G("PSP", G("BSP")), "PS"))},
    requires=[],
    modifies=["self.__internal_modes", "self.__external_in_heralds", "self.__external_out_heralds", "self.__circuit_spec"],
    ensures={
        "no_group_remains": "len(self.__circuit_spec) == 3 and isinstance(self.__circuit_spec[0], PhaseShifter) and isinstance(self.__circuit_spec[1], BeamSplitter) and "
                            "isinstance(self.__circuit_spec[2], PhaseShifter)",
        # the heralds of the circuit are the same as before (as maps); with the groups gone every herald is an external one and no mode is internal
        "heralds_unchanged": "self.__n_modes == old(self.__n_modes) and " + _same_dict("self.__in_heralds", "old(self.__in_heralds)") + " and " +
                             _same_dict("self.__out_heralds", "old(self.__out_heralds)"),
        "all_heralds_external": "len(self.__internal_modes) == 0 and " + _same_dict("self.__external_in_heralds", "self.__in_heralds") + " and " +
                                _same_dict("self.__external_out_heralds", "self.__out_heralds"),
    },
    raises={}, props=["C09"],
)
UNPACK_GROUPS.no_callee = True
UNPACK_GROUPS.label = "nested groups"
CONTRACTS += [UNPACK_GROUPS]



ALL_PARAMS = Contract(
    target=f"{CIRC}:Circuit.get_all_params",
    types={"self": _circuit_with_spec(("PSP", "BSP", "PS", "PSP@0", G("LOSSP", G("PSP"))))},
    requires=[], modifies=[],
    ensures={
        # every Parameter object the circuit is bound to - at top level and at any depth of grouping - exactly once (by identity, whatever values they
        # hold at the moment), in order of first use; plain values contribute nothing
        "each_parameter_once": "len(result) == 4 and result[0] is self.__circuit_spec[0].phi and result[1] is self.__circuit_spec[1].reflectivity and "
                               "result[2] is self.__circuit_spec[4].circuit_spec[0].loss and result[3] is self.__circuit_spec[4].circuit_spec[1].circuit_spec[0].phi",
        "a_new_list": "fresh_ref(result)",
    },
    raises={}, props=["C10"],
    inline=["unpack_circuit_spec"],
)
ALL_PARAMS.no_callee = True
ALL_PARAMS.label = "parameters at top level, shared, and inside nested groups"
CONTRACTS += [ALL_PARAMS]



# the rewriting METHODS of Circuit: the spec is replaced by the rewritten deep copy, in which every Parameter is still the user's object (C10: parameters stay
# live through rewrites), and nothing else of the circuit changes
def _far_param_spec(ex, name):
    import z3
    from vf.pyvc.values import CList, Obj
    par = lambda tag: ex.make(f"{name}.{tag}", _PARAM, f"{name}.{tag}")       # noqa: E731
    ps = ex.alloc(Obj("PhaseShifter", (("mode", z3.Int(f"{name}[0].mode")), ("phi", par("phi")))), f"{name}[0]")
    bs = ex.alloc(Obj("BeamSplitter", (("mode_1", z3.Int(f"{name}[1].mode_1")), ("mode_2", z3.Int(f"{name}[1].mode_2")), ("reflectivity", par("reflectivity")), ("convention", "H"))), f"{name}[1]")
    return ex.alloc(CList((ps, bs)), name)


def _circuit_far(ex, name):
    import z3
    from vf.pyvc.values import Obj
    spec = _far_param_spec(ex, f"{name}.__circuit_spec")
    f = lambda a, t: ex.make(f"{name}.{a}", t, f"{name}.{a}")       # noqa: E731
    return ex.alloc(Obj("Circuit", (("_Circuit__n_modes", z3.Int(f"{name}.__n_modes")), ("_Circuit__internal_modes", f("__internal_modes", "list[int]")),
                                     ("_Circuit__in_heralds", f("__in_heralds", "dict[int,int]")), ("_Circuit__out_heralds", f("__out_heralds", "dict[int,int]")),
                                     ("_Circuit__external_in_heralds", f("__external_in_heralds", "dict[int,int]")),
                                     ("_Circuit__external_out_heralds", f("__external_out_heralds", "dict[int,int]")), ("_Circuit__circuit_spec", spec))), name)


_circuit_far.label = "Circuit [PS(Parameter), BS(Parameter) two modes apart]"
_S = "self.__circuit_spec"
REMOVE_NONADJ = Contract(
    target=f"{CIRC}:Circuit.remove_non_adjacent_bs",
    types={"self": _circuit_far},
    requires=[f"{_S}[1].mode_1 >= 0", f"{_S}[1].mode_2 == {_S}[1].mode_1 + 2", f"0 <= {_S}[1].reflectivity._Parameter__value and {_S}[1].reflectivity._Parameter__value <= 1"],
    modifies=["self.__circuit_spec"],
    ensures={
        "rewritten": f"len({_S}) == 4 and isinstance({_S}[0], PhaseShifter) and isinstance({_S}[1], ModeSwaps) and isinstance({_S}[2], BeamSplitter) and isinstance({_S}[3], ModeSwaps) "
                     f"and abs({_S}[2].mode_2 - {_S}[2].mode_1) == 1",
        # the rewritten components are new objects but hold the user's Parameter objects themselves
        "parameters_still_the_users": f"{_S}[0].phi is old({_S}[0].phi) and {_S}[2].reflectivity is old({_S}[1].reflectivity) and fresh_ref({_S}[0]) and fresh_ref({_S}[2])",
        "old_components_untouched": f"old({_S}[1]).mode_2 == old({_S}[1].mode_2) and old({_S}[1]).mode_1 == old({_S}[1].mode_1) and old({_S}[1]).reflectivity is old({_S}[1].reflectivity)",
    },
    raises={}, props=["C09", "C10"],
    inline=["get_all_params", "unpack_circuit_spec", "convert_non_adj_beamsplitters"],
)
REMOVE_NONADJ.no_callee = True
REMOVE_NONADJ.label = "parameters shared with the rewritten spec"
CONTRACTS += [REMOVE_NONADJ]


def _circuit_swaps(ex, name):
    """Circuit with spec [swap a<->b, PhaseShifter(Parameter), swap c<->d]"""
    import z3
    from vf.pyvc.values import CDict, CList, Obj
    sp = f"{name}.__circuit_spec"
    def sw(i):
        a, b = z3.Int(f"sw{i}_a"), z3.Int(f"sw{i}_b")
        return ex.alloc(Obj("ModeSwaps", (("swaps", ex.alloc(CDict(((a, b), (b, a))), f"{sp}[{i}].swaps")),)), f"{sp}[{i}]")
    ps = ex.alloc(Obj("PhaseShifter", (("mode", z3.Int(f"{sp}[1].mode")), ("phi", ex.make(f"{sp}[1].phi", _PARAM, f"{sp}[1].phi")))), f"{sp}[1]")
    spec = ex.alloc(CList((sw(0), ps, sw(2))), sp)
    f = lambda a, t: ex.make(f"{name}.{a}", t, f"{name}.{a}")       # noqa: E731
    return ex.alloc(Obj("Circuit", (("_Circuit__n_modes", z3.Int(f"{name}.__n_modes")), ("_Circuit__internal_modes", f("__internal_modes", "list[int]")),
                                     ("_Circuit__in_heralds", f("__in_heralds", "dict[int,int]")), ("_Circuit__out_heralds", f("__out_heralds", "dict[int,int]")),
                                     ("_Circuit__external_in_heralds", f("__external_in_heralds", "dict[int,int]")),
                                     ("_Circuit__external_out_heralds", f("__external_out_heralds", "dict[int,int]")), ("_Circuit__circuit_spec", spec))), name)


_circuit_swaps.label = "Circuit [swap, PS(Parameter), swap]"
_BLOCKED = f"({_S}[1].mode == sw2_a or {_S}[1].mode == sw2_b)"
COMPRESS_METHOD = Contract(
    target=f"{CIRC}:Circuit.compress_mode_swaps",
    types={"self": _circuit_swaps, "sw0_a": "int", "sw0_b": "int", "sw2_a": "int", "sw2_b": "int"},
    requires=["sw0_a != sw0_b", "sw2_a != sw2_b", "sw0_a >= 0 and sw0_b >= 0 and sw2_a >= 0 and sw2_b >= 0"],
    modifies=["self.__circuit_spec"],
    ensures={
        "not_longer": f"len({_S}) <= 3",
        "merged_iff_free": f"len({_S}) == (3 if old{_BLOCKED} else 2)",
        # the phase shifter of the rewritten spec is a new object holding the user's Parameter object itself
        "parameter_still_the_users": f"implies(old{_BLOCKED}, {_S}[1].phi is old({_S}[1].phi) and fresh_ref({_S}[1])) and "
                                     f"implies(not old{_BLOCKED}, {_S}[1].phi is old({_S}[1].phi) and fresh_ref({_S}[1]))",
        "old_components_untouched": f"len(old({_S}[0]).swaps) == 2 and old({_S}[0]).swaps[sw0_a] == sw0_b and len(old({_S}[2]).swaps) == 2",
    },
    raises={}, props=["C09", "C10"],
    inline=["get_all_params", "unpack_circuit_spec", "compress_mode_swaps", "combine_mode_swap_dicts"],
)
COMPRESS_METHOD.no_callee = True
COMPRESS_METHOD.label = "parameters shared with the rewritten spec"
CONTRACTS += [COMPRESS_METHOD]


CIRCUIT_INIT = Contract(
    target=f"{CIRC}:Circuit.__init__",
    types={"self": "obj:Circuit{__n_modes:none;__internal_modes:none;__in_heralds:none;__out_heralds:none;__external_in_heralds:none;__external_out_heralds:none;__circuit_spec:none}",
           "n_modes": ["int", "real"]},
    requires=[],
    modifies=["self.__n_modes", "self.__internal_modes", "self.__in_heralds", "self.__out_heralds", "self.__external_in_heralds", "self.__external_out_heralds", "self.__circuit_spec"],
    ensures={
        # an empty circuit on the given number of modes: no component, no herald, no ancilla; a whole-valued real mode count is stored as an int
        "empty_circuit": "self.__n_modes == n_modes and isinstance(self.__n_modes, int) and len(self.__circuit_spec) == 0 and len(self.__in_heralds) == 0 and len(self.__out_heralds) == 0 and "
                         "len(self.__external_in_heralds) == 0 and len(self.__external_out_heralds) == 0 and len(self.__internal_modes) == 0",
        "own_containers": "fresh_ref(self.__circuit_spec) and fresh_ref(self.__in_heralds) and fresh_ref(self.__out_heralds) and fresh_ref(self.__external_in_heralds) and "
                          "fresh_ref(self.__external_out_heralds) and fresh_ref(self.__internal_modes)",
    },
    raises={"TypeError": "not isinstance(n_modes, int) and int(n_modes) != n_modes"},
    props=["C01", "C08"],
)
CIRCUIT_INIT.no_callee = True
CONTRACTS += [CIRCUIT_INIT]
