"""Contracts: matrix helpers (C02: an empty mode inserted into a unitary block)."""
from vf.pyvc.engine import Contract

F = "lightworks/sdk/utils/matrix_utils.py"


def replay_amu(inp):
    import numpy as np
    from lightworks.sdk.utils.matrix_utils import add_mode_to_unitary
    m = inp["add_mode"]
    U = inp["unitary"]
    if isinstance(U, dict) and isinstance(U.get("mat"), list):
        U = np.array([[complex(a, b) for a, b in row] for row in U["mat"]])
    else:
        return None
    n = U.shape[0]
    if U.shape != (n, n) or not 0 <= m <= n:
        return None
    got = add_mode_to_unitary(U, m)
    if got.shape != (n + 1, n + 1):
        return f"add_mode_to_unitary: shape {got.shape} for a {n}x{n} input"
    for i in range(n + 1):
        for j in range(n + 1):
            want = (1 if i == j else 0) if (i == m or j == m) else U[i - (i > m), j - (j > m)]
            if got[i, j] != want:
                return f"add_mode_to_unitary(U {n}x{n}, {m})[{i},{j}] = {got[i, j]}, expected {want}"
    return None


def enum_amu():
    for n in (1, 2, 3):
        for m in range(n + 1):
            yield {"unitary": {"mat": [[[i * n + j + 1, -(i + 2 * j) - 1] for j in range(n)] for i in range(n)]}, "add_mode": m}


AMU = Contract(
    target=f"{F}:add_mode_to_unitary",
    types={"unitary": "matsq", "add_mode": "int"},
    requires=["0 <= add_mode and add_mode <= unitary.shape[0]"],
    modifies=[],
    ensures={
        "one_more_mode": "result.shape[0] == unitary.shape[0] + 1 and result.shape[1] == unitary.shape[0] + 1",
        # the new mode is decoupled: row and column `add_mode` are those of the identity ...
        "new_mode_is_identity": "forall(t, implies(0 <= t and t <= unitary.shape[0], "
                                "mat_at(result, add_mode, t) == cplx(1 if t == add_mode else 0, 0) and mat_at(result, t, add_mode) == cplx(1 if t == add_mode else 0, 0)))",
        # ... and every other entry is the original one, with the indices above the new mode shifted by one
        "block_embedding": "forall((i,j), implies(0 <= i and i <= unitary.shape[0] and 0 <= j and j <= unitary.shape[0] and i != add_mode and j != add_mode, "
                           "mat_at(result, i, j) == mat_at(unitary, (i - 1 if i > add_mode else i), (j - 1 if j > add_mode else j))))",
        "argument_unchanged": "forall((i,j), implies(0 <= i and i < unitary.shape[0] and 0 <= j and j < unitary.shape[0], mat_at(unitary,i,j) == old(mat_at(unitary,i,j))))",
    },
    raises={},
    result_type="matsq",
    replay=replay_amu,
    props=["C02"],
)
AMU.enum = enum_amu
CONTRACTS = [AMU]
