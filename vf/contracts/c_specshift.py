"""Contracts: circuit_utils.add_empty_mode_to_circuit_spec / add_modes_to_circuit_spec, element by element (C02).

Both functions are map-loops: `for spec in circuit_spec: spec = copy(spec); <update spec>; new.append(spec)`.  The contracts below
take a one-element list holding ONE component of each class, all of its data symbolic (modes, list / dict sizes, matrix dimension),
and prove the per-element update.  That the result for a list of any length is the element-wise image is the obligation
`loop.independent-iterations` of vf/pyvc/maploop.py (no state is carried from one iteration to the next, one append per iteration).
"""
from vf.pyvc.engine import Contract, Loop

F = "lightworks/sdk/circuit/circuit_utils.py"


def one(objtype, label):
    def build(ex, name):
        from vf.pyvc.values import CList
        return ex.alloc(CList((ex.make(f"{name}[0]", objtype, f"{name}[0]"),)), name)
    build.label = label

    def native(rnd):
        from vf.pyvc import rtc
        return [(lambda mk=mk: [rtc.materialise(mk)]) for mk in rtc.values(objtype, rnd)]
    build.native = native
    return build


BS = one("obj:BeamSplitter{mode_1:int;mode_2:int;reflectivity:real;convention:'Rx'}", "BeamSplitter")
PS = one("obj:PhaseShifter{mode:int;phi:real}", "PhaseShifter")
LOSS = one("obj:Loss{mode:int;loss:real}", "Loss")
BARRIER = one("obj:Barrier{modes:list[int]}", "Barrier")
SWAPS = one("obj:ModeSwaps{swaps:dict[int,int]}", "ModeSwaps")
UNITARY = one("obj:UnitaryMatrix{mode:int;unitary:matsq;label:'U'}", "UnitaryMatrix")

def GROUP(ex, name):
    """[Group(circuit_spec=<any list>, name, mode_1, mode_2, heralds={"input": {..}, "output": {..}})] with everything symbolic"""
    import z3
    from vf.pyvc.values import CDict, CList, Obj
    p = f"{name}[0]"
    inner = ex.make(f"{p}.circuit_spec", "glist", f"{p}.circuit_spec")
    hin = ex.make(f"{p}.heralds.input", "dict[int,int]", f"{p}.heralds.input")
    hout = ex.make(f"{p}.heralds.output", "dict[int,int]", f"{p}.heralds.output")
    her = ex.alloc(CDict((("input", hin), ("output", hout))), f"{p}.heralds")
    g = ex.alloc(Obj("Group", (("circuit_spec", inner), ("name", "g"), ("mode_1", z3.Int(f"{p}.mode_1")), ("mode_2", z3.Int(f"{p}.mode_2")), ("heralds", her))), p)
    return ex.alloc(CList((g,)), name)


GROUP.label = "Group"
PARAM = "obj:Parameter{__value:real;__min_bound:none;__max_bound:none;label:none}"
BSP = one("obj:BeamSplitter{mode_1:int;mode_2:int;reflectivity:" + PARAM + ";convention:'H'}", "BeamSplitter[Parameter]")
PSP = one("obj:PhaseShifter{mode:int;phi:" + PARAM + "}", "PhaseShifter[Parameter]")
LOSSP = one("obj:Loss{mode:int;loss:" + PARAM + "}", "Loss[Parameter]")
SH = "({x} + 1 if {x} >= mode else {x})"
E, R = "circuit_spec[0]", "result[0]"
COMMON = {
    "one_element": "len(result) == 1",
    "fresh_copy": f"fresh_ref({R})",
}


def sh(x):
    return SH.format(x=x)


def _enum_modes():
    for mode in range(0, 5):
        for a in range(0, 4):
            yield mode, a


def _mk(inp):
    """build the real component from a counter-model / enumerated input"""
    import numpy as np
    from lightworks.sdk.circuit import components as C
    e = inp["circuit_spec"][0]
    kind = inp.get("@kind") or e.get("@class")
    if kind == "BeamSplitter":
        return C.BeamSplitter(e["mode_1"], e["mode_2"], 0.5, "Rx")
    if kind == "PhaseShifter":
        return C.PhaseShifter(e["mode"], 0.3)
    if kind == "Loss":
        return C.Loss(e["mode"], 0.2)
    if kind == "Barrier":
        return C.Barrier(list(e["modes"]))
    if kind == "ModeSwaps":
        d = {k: v for k, v in e["swaps"]["dict"]}
        if sorted(d) != sorted(d.values()):
            return None
        return C.ModeSwaps(d)
    if kind == "UnitaryMatrix":
        U = e["unitary"]
        if not (isinstance(U, dict) and isinstance(U.get("mat"), list)):
            return None
        M = np.array([[complex(a, b) for a, b in row] for row in U["mat"]]).reshape(len(U["mat"]), len(U["mat"]))
        comp = C.UnitaryMatrix(e["mode"], np.identity(len(M), dtype=complex), "U")
        comp.unitary = M          # generic entries (the constructor only accepts unitary matrices; the functions under contract do not look at the values)
        return comp
    return None


def _shift_expected(comp, f, expand):
    """the documented image of one component under the mode map f (expand(comp) -> new unitary or None)"""
    import numpy as np
    from lightworks.sdk.circuit import components as C
    if isinstance(comp, C.BeamSplitter):
        return ("BS", f(comp.mode_1), f(comp.mode_2), comp.reflectivity, comp.convention)
    if isinstance(comp, C.PhaseShifter):
        return ("PS", f(comp.mode), comp.phi)
    if isinstance(comp, C.Loss):
        return ("L", f(comp.mode), comp.loss)
    if isinstance(comp, C.Barrier):
        return ("B", [f(m) for m in comp.modes])
    if isinstance(comp, C.ModeSwaps):
        return ("S", [(f(k), f(v)) for k, v in comp.swaps.items()])
    if isinstance(comp, C.UnitaryMatrix):
        U = expand(comp)
        return ("U", f(comp.mode), np.round(U, 9).tolist(), comp.label)
    return None


def _describe(comp):
    return _shift_expected(comp, lambda x: x, lambda c: c.unitary)


def replay_aem(inp):
    import copy
    import numpy as np
    from lightworks.sdk.circuit.circuit_utils import add_empty_mode_to_circuit_spec
    comp = _mk(inp)
    mode = inp["mode"]
    if comp is None or not isinstance(mode, int):
        return None
    before = copy.deepcopy(comp)
    try:
        out = add_empty_mode_to_circuit_spec([comp], mode)
    except Exception as e:  # noqa: BLE001
        return None if mode < 0 else f"add_empty_mode_to_circuit_spec([{_describe(before)}], {mode}) raised {type(e).__name__}: {e}"
    f = lambda x: x + 1 if x >= mode else x  # noqa: E731

    def expand(c):
        n = c.unitary.shape[0]
        if c.mode < mode < c.mode + n:
            k = mode - c.mode
            V = np.identity(n + 1, dtype=complex)
            idx = [i for i in range(n + 1) if i != k]
            V[np.ix_(idx, idx)] = c.unitary
            return V
        return c.unitary
    want = _shift_expected(before, f, expand)
    if len(out) != 1 or _describe(out[0]) != want:
        return f"add_empty_mode_to_circuit_spec([{_describe(before)}], {mode}) = {[_describe(o) for o in out]}, expected [{want}]"
    if _describe(comp) != _describe(before) or out[0] is comp:
        return f"add_empty_mode_to_circuit_spec changed (or returned) its argument element: {_describe(before)} -> {_describe(comp)}"
    return None


def replay_am(inp):
    import copy
    from lightworks.sdk.circuit.circuit_utils import add_modes_to_circuit_spec
    comp = _mk(inp)
    mode = inp["mode"]
    if comp is None or not isinstance(mode, int):
        return None
    before = copy.deepcopy(comp)
    out = add_modes_to_circuit_spec([comp], mode)
    want = _shift_expected(before, lambda x: x + mode, lambda c: c.unitary)
    if len(out) != 1 or _describe(out[0]) != want:
        return f"add_modes_to_circuit_spec([{_describe(before)}], {mode}) = {[_describe(o) for o in out]}, expected [{want}]"
    if _describe(comp) != _describe(before) or out[0] is comp:
        return f"add_modes_to_circuit_spec changed (or returned) its argument element: {_describe(before)} -> {_describe(comp)}"
    return None


def enum_elems():
    for mode, a in _enum_modes():
        yield {"@kind": "BeamSplitter", "circuit_spec": [{"mode_1": a, "mode_2": a + 2}], "mode": mode}
        yield {"@kind": "PhaseShifter", "circuit_spec": [{"mode": a}], "mode": mode}
        yield {"@kind": "Loss", "circuit_spec": [{"mode": a}], "mode": mode}
        yield {"@kind": "Barrier", "circuit_spec": [{"modes": [a, a + 1, a + 3]}], "mode": mode}
        yield {"@kind": "ModeSwaps", "circuit_spec": [{"swaps": {"dict": [[a, a + 2], [a + 2, a + 1], [a + 1, a]]}}], "mode": mode}
        yield {"@kind": "UnitaryMatrix", "circuit_spec": [{"mode": a, "unitary": {"mat": [[[1, 2], [3, 4]], [[5, 6], [7, 8]]]}}], "mode": mode}


DICT_SHIFT_INV = [
    "len(swaps) == _k",
    "forall(t, implies(0 <= t and t < _k, key_at(swaps, t) == " + sh("key_at(spec.swaps, t)") +
    " and at(swaps, key_at(swaps, t)) == " + sh("at(spec.swaps, key_at(spec.swaps, t))") + "))",
    "forall(x, implies(x in swaps, 0 <= pos_of(swaps, x) and pos_of(swaps, x) < _k and key_at(swaps, pos_of(swaps, x)) == x))",
]


def _variant(build, label, ensures, loops=None, target="add_empty_mode_to_circuit_spec", replay=None, requires=()):
    props = ["C02", "C10"] if "Parameter" in label else ["C02"]
    if label == "Group":
        props = props + ["C09"]        # compress_mode_swaps blocks exactly the declared range mode_1..mode_2 of a group: the range must follow the group's components
    if target == "add_modes_to_circuit_spec":
        props = props + ["C01"]        # Circuit.add shifts the added circuit's components with this function: the ordered product of C01 depends on it
    c = Contract(
        target=f"{F}:{target}",
        types={"circuit_spec": build, "mode": "int"},
        requires=list(requires), modifies=[], loops=loops or {},
        ensures={**COMMON, **ensures},
        raises={}, replay=replay, props=props,
    )
    c.enum = enum_elems
    c.label = label
    c.no_callee = True
    return c


UNCHANGED_BS = f"{E}.mode_1 == old({E}.mode_1) and {E}.mode_2 == old({E}.mode_2)"
AEM_ELEMS = [
    _variant(BS, "BeamSplitter", {
        "modes_shifted": f"{R}.mode_1 == {sh(f'old({E}.mode_1)')} and {R}.mode_2 == {sh(f'old({E}.mode_2)')}",
        "data_kept": f"{R}.reflectivity == old({E}.reflectivity) and {R}.convention == 'Rx'",
        "argument_unchanged": UNCHANGED_BS}, replay=replay_aem),
    _variant(PS, "PhaseShifter", {
        "mode_shifted": f"{R}.mode == {sh(f'old({E}.mode)')}", "data_kept": f"{R}.phi == old({E}.phi)",
        "argument_unchanged": f"{E}.mode == old({E}.mode)"}, replay=replay_aem),
    _variant(LOSS, "Loss", {
        "mode_shifted": f"{R}.mode == {sh(f'old({E}.mode)')}", "data_kept": f"{R}.loss == old({E}.loss)",
        "argument_unchanged": f"{E}.mode == old({E}.mode)"}, replay=replay_aem),
    _variant(BARRIER, "Barrier", {
        "modes_shifted": f"len({R}.modes) == len(old({E}.modes)) and forall(t, implies(0 <= t and t < len({R}.modes), at({R}.modes, t) == {sh(f'at(old({E}.modes), t)')}))",
        "argument_unchanged": f"len({E}.modes) == len(old({E}.modes)) and forall(t, implies(0 <= t and t < len({E}.modes), at({E}.modes, t) == at(old({E}.modes), t)))"},
        replay=replay_aem),
    _variant(SWAPS, "ModeSwaps", {
        "swaps_shifted": f"len({R}.swaps) == len(old({E}.swaps)) and forall(t, implies(0 <= t and t < len(old({E}.swaps)), "
                         f"key_at({R}.swaps, t) == {sh(f'key_at(old({E}.swaps), t)')} and "
                         f"at({R}.swaps, key_at({R}.swaps, t)) == {sh(f'at(old({E}.swaps), key_at(old({E}.swaps), t))')}))",
        "argument_unchanged": f"len({E}.swaps) == len(old({E}.swaps)) and forall(t, implies(0 <= t and t < len({E}.swaps), key_at({E}.swaps, t) == key_at(old({E}.swaps), t) and "
                              f"at({E}.swaps, key_at({E}.swaps, t)) == at(old({E}.swaps), key_at(old({E}.swaps), t))))"},
        loops={"spec.swaps.items()": Loop(invariant=DICT_SHIFT_INV)}, replay=replay_aem),
    _variant(UNITARY, "UnitaryMatrix", {
        "mode_shifted": f"{R}.mode == {sh(f'old({E}.mode)')}",
        # the block is expanded exactly when the new mode falls strictly inside it; then the new mode is decoupled and the other entries keep their value
        "expanded_iff_inside": f"{R}.unitary.shape[0] == (old({E}.unitary.shape[0]) + 1 if (old({E}.mode) < mode and mode < old({E}.mode) + old({E}.unitary.shape[0])) else old({E}.unitary.shape[0]))",
        "entries": f"forall((i,j), implies(0 <= i and i < {R}.unitary.shape[0] and 0 <= j and j < {R}.unitary.shape[0], mat_at({R}.unitary, i, j) == "
                   f"(((cplx(1 if i == j else 0, 0)) if (i == mode - old({E}.mode) or j == mode - old({E}.mode)) else "
                   f"mat_at(old({E}.unitary), (i - 1 if i > mode - old({E}.mode) else i), (j - 1 if j > mode - old({E}.mode) else j))) "
                   f"if (old({E}.mode) < mode and mode < old({E}.mode) + old({E}.unitary.shape[0])) else mat_at(old({E}.unitary), i, j))))",
        "argument_unchanged": f"{E}.mode == old({E}.mode) and {E}.unitary.shape[0] == old({E}.unitary.shape[0])"},
        replay=replay_aem),
]



def gsh(x):
    """shift of a herald key (relative to the group's first mode) when the new mode falls at/after the group's first mode"""
    return f"({x} + 1 if (old({E}.mode_1) < mode and {x} >= mode - old({E}.mode_1)) else {x})"


def _gdict_inv(new, src):
    return [
        f"len({new}) == _k",
        f"forall(t, implies(0 <= t and t < _k, key_at({new}, t) == " + gsh(f"key_at({src}, t)") + f" and at({new}, key_at({new}, t)) == at({src}, key_at({src}, t))))",
        f"forall(x, implies(x in {new}, 0 <= pos_of({new}, x) and pos_of({new}, x) < _k and key_at({new}, pos_of({new}, x)) == x))",
    ]


def _gdict_post(which):
    new, src = f"{R}.heralds['{which}']", f"old({E}.heralds['{which}'])"
    return (f"len({new}) == len({src}) and forall(t, implies(0 <= t and t < len({src}), key_at({new}, t) == " + gsh(f"key_at({src}, t)") +
            f" and at({new}, key_at({new}, t)) == at({src}, key_at({src}, t))))")


AEM_GROUP = _variant(GROUP, "Group", {
    "span_shifted": f"{R}.mode_1 == {sh(f'old({E}.mode_1)')} and {R}.mode_2 == {sh(f'old({E}.mode_2)')}",
    # the content of the group is the image of its own spec under the same function (recursion: the general contract of the callee)
    "content_recursive": f"same_ref({R}.circuit_spec, add_empty_mode_to_circuit_spec(old({E}.circuit_spec), mode))",
    # herald keys are relative to the group's first mode: those at/after the new mode move up by one when the new mode lies at/after the first mode
    "input_heralds": _gdict_post("input"),
    "output_heralds": _gdict_post("output"),
    "argument_unchanged": f"{E}.mode_1 == old({E}.mode_1) and {E}.mode_2 == old({E}.mode_2) and same_ref({E}.heralds['input'], old({E}.heralds['input'])) and "
                          f"same_ref({E}.circuit_spec, old({E}.circuit_spec))",
}, loops={"in_heralds.items()": Loop(invariant=_gdict_inv("new_in_heralds", "in_heralds")),
          "out_heralds.items()": Loop(invariant=_gdict_inv("new_out_heralds", "out_heralds"))}, replay=None)
AEM_ELEMS.append(AEM_GROUP)
# Parameter-valued components: the image holds the SAME Parameter object (C10: parameters stay live through herald insertion)
AEM_ELEMS += [
    _variant(BSP, "BeamSplitter[Parameter]", {
        "modes_shifted": f"{R}.mode_1 == {sh(f'old({E}.mode_1)')} and {R}.mode_2 == {sh(f'old({E}.mode_2)')}",
        "same_parameter_object": f"same_ref({R}.reflectivity, {E}.reflectivity)", "argument_unchanged": UNCHANGED_BS}),
    _variant(PSP, "PhaseShifter[Parameter]", {
        "mode_shifted": f"{R}.mode == {sh(f'old({E}.mode)')}", "same_parameter_object": f"same_ref({R}.phi, {E}.phi)", "argument_unchanged": f"{E}.mode == old({E}.mode)"}),
    _variant(LOSSP, "Loss[Parameter]", {
        "mode_shifted": f"{R}.mode == {sh(f'old({E}.mode)')}", "same_parameter_object": f"same_ref({R}.loss, {E}.loss)", "argument_unchanged": f"{E}.mode == old({E}.mode)"}),
]

ADDM = "({x} + mode)"
AM_ELEMS = [
    _variant(BS, "BeamSplitter", {
        "modes_shifted": f"{R}.mode_1 == old({E}.mode_1) + mode and {R}.mode_2 == old({E}.mode_2) + mode",
        "data_kept": f"{R}.reflectivity == old({E}.reflectivity) and {R}.convention == 'Rx'",
        "argument_unchanged": UNCHANGED_BS}, target="add_modes_to_circuit_spec", replay=replay_am),
    _variant(PS, "PhaseShifter", {
        "mode_shifted": f"{R}.mode == old({E}.mode) + mode", "data_kept": f"{R}.phi == old({E}.phi)",
        "argument_unchanged": f"{E}.mode == old({E}.mode)"}, target="add_modes_to_circuit_spec", replay=replay_am),
    _variant(LOSS, "Loss", {
        "mode_shifted": f"{R}.mode == old({E}.mode) + mode", "data_kept": f"{R}.loss == old({E}.loss)",
        "argument_unchanged": f"{E}.mode == old({E}.mode)"}, target="add_modes_to_circuit_spec", replay=replay_am),
    _variant(BARRIER, "Barrier", {
        "modes_shifted": f"len({R}.modes) == len(old({E}.modes)) and forall(t, implies(0 <= t and t < len({R}.modes), at({R}.modes, t) == at(old({E}.modes), t) + mode))",
        "argument_unchanged": f"len({E}.modes) == len(old({E}.modes)) and forall(t, implies(0 <= t and t < len({E}.modes), at({E}.modes, t) == at(old({E}.modes), t)))"},
        target="add_modes_to_circuit_spec", replay=replay_am),
    _variant(SWAPS, "ModeSwaps", {
        "swaps_shifted": f"len({R}.swaps) == len(old({E}.swaps)) and forall(t, implies(0 <= t and t < len(old({E}.swaps)), "
                         f"key_at({R}.swaps, t) == key_at(old({E}.swaps), t) + mode and "
                         f"at({R}.swaps, key_at({R}.swaps, t)) == at(old({E}.swaps), key_at(old({E}.swaps), t)) + mode))"},
        target="add_modes_to_circuit_spec", replay=replay_am),
    _variant(UNITARY, "UnitaryMatrix", {
        "mode_shifted": f"{R}.mode == old({E}.mode) + mode",
        "unitary_kept": f"{R}.unitary.shape[0] == old({E}.unitary.shape[0]) and forall((i,j), implies(0 <= i and i < {R}.unitary.shape[0] and 0 <= j and j < {R}.unitary.shape[0], "
                        f"mat_at({R}.unitary, i, j) == mat_at(old({E}.unitary), i, j)))"}, target="add_modes_to_circuit_spec", replay=replay_am),
]
AM_ELEMS += [
    _variant(BSP, "BeamSplitter[Parameter]", {
        "modes_shifted": f"{R}.mode_1 == old({E}.mode_1) + mode and {R}.mode_2 == old({E}.mode_2) + mode",
        "same_parameter_object": f"same_ref({R}.reflectivity, {E}.reflectivity)", "argument_unchanged": UNCHANGED_BS}, target="add_modes_to_circuit_spec"),
    _variant(PSP, "PhaseShifter[Parameter]", {
        "mode_shifted": f"{R}.mode == old({E}.mode) + mode", "same_parameter_object": f"same_ref({R}.phi, {E}.phi)", "argument_unchanged": f"{E}.mode == old({E}.mode)"},
        target="add_modes_to_circuit_spec"),
    _variant(LOSSP, "Loss[Parameter]", {
        "mode_shifted": f"{R}.mode == old({E}.mode) + mode", "same_parameter_object": f"same_ref({R}.loss, {E}.loss)", "argument_unchanged": f"{E}.mode == old({E}.mode)"},
        target="add_modes_to_circuit_spec"),
]
# a group: its span moves with the rest, its content is the image of its own spec under the same function (recursion through the general callee
# contract), its heralds (relative to the group's first mode) are kept
AM_ELEMS.append(_variant(GROUP, "Group", {
    "span_shifted": f"{R}.mode_1 == old({E}.mode_1) + mode and {R}.mode_2 == old({E}.mode_2) + mode",
    "content_recursive": f"same_ref({R}.circuit_spec, add_modes_to_circuit_spec(old({E}.circuit_spec), mode))",
    "heralds_kept": f"same_ref({R}.heralds, old({E}.heralds))",
    "argument_unchanged": f"{E}.mode_1 == old({E}.mode_1) and {E}.mode_2 == old({E}.mode_2) and same_ref({E}.circuit_spec, old({E}.circuit_spec))",
}, target="add_modes_to_circuit_spec"))
CONTRACTS = AEM_ELEMS + AM_ELEMS
REGISTRY_MODULES = ["vf.contracts.c_matrix", "vf.contracts.c_circuit_modes"]
