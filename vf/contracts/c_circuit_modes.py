"""Contracts: user-mode -> full-mode remapping (C02) and mode validation (C01/C08)."""
from vf.pyvc.engine import Contract, Loop

CIRC = "lightworks/sdk/circuit/circuit.py"
# class schema used for symbolic Circuit objects
CIRCUIT = ("obj:Circuit{__n_modes:int;__internal_modes:list[int];__in_heralds:dict[int,int];"
           "__out_heralds:dict[int,int];__external_in_heralds:dict[int,int];__external_out_heralds:dict[int,int]}")

WF_INTERNAL = ("forall((t,u), implies(0 <= t and t < u and u < len(self.__internal_modes), "
               "at(self.__internal_modes,t) != at(self.__internal_modes,u)))")


def replay_map_mode(inp):
    import lightworks as lw
    c = lw.Circuit(max([inp["mode"] + len(inp["self"]["_Circuit__internal_modes"]) + 2] + [x + 1 for x in inp["self"]["_Circuit__internal_modes"]]))
    c._Circuit__internal_modes = list(inp["self"]["_Circuit__internal_modes"])
    internal = list(c._internal_modes)
    res = c._map_mode(inp["mode"])
    if res in internal:
        return f"_map_mode({inp['mode']}) with internal modes {internal} returned the internal mode {res}"
    k = sum(1 for x in internal if x < res)
    if res != inp["mode"] + k:
        return f"_map_mode({inp['mode']}) with internal modes {internal} returned {res}: not the mode-th visible mode"
    return None


CONTRACTS = [
    Contract(
        target=f"{CIRC}:Circuit._map_mode",
        types={"self": CIRCUIT, "mode": "int"},
        requires=[WF_INTERNAL, "mode >= 0"],
        modifies=[],
        loops={"sorted(self.__internal_modes)": Loop(
            ghost={"k": ("0", "k + 1 if mode != pre(mode) else k")},
            invariant=["0 <= k and k <= _k",
                       "mode == old(mode) + k",
                       "forall(t, implies(0 <= t and t < k, at(_it,t) < mode))",
                       "forall(t, implies(k <= t and t < _k, at(_it,t) > mode))"])},
        ensures={
            # result is the mode-th user-visible full mode: not internal, and exactly k internal modes lie below it
            "not_internal": "result not in self.__internal_modes",
            "rank": "result == old(mode) + k and forall(t, implies(0 <= t and t < len(self.__internal_modes), "
                    "(at(_it,t) < result) == (t < k)))",
        },
        raises={},
        replay=replay_map_mode,
        props=["C02", "C01", "C08"],
    ),
]
