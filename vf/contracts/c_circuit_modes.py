"""Contracts: user-mode -> full-mode remapping (C02) and mode validation (C01/C08)."""
from vf.pyvc.engine import Contract, Loop

CIRC = "lightworks/sdk/circuit/circuit.py"
# class schema used for symbolic Circuit objects
CIRCUIT = ("obj:Circuit{__n_modes:int;__internal_modes:list[int];__in_heralds:dict[int,int];"
           "__out_heralds:dict[int,int];__external_in_heralds:dict[int,int];__external_out_heralds:dict[int,int];__circuit_spec:glist}")

WF_INTERNAL = ("forall((t,u), implies(0 <= t and t < u and u < len(self.__internal_modes), "
               "at(self.__internal_modes,t) != at(self.__internal_modes,u)))")


def replay_map_mode(inp):
    import lightworks as lw
    c = lw.Circuit(max([inp["mode"] + len(inp["self"]["_Circuit__internal_modes"]) + 2] + [x + 1 for x in inp["self"]["_Circuit__internal_modes"]]))
    c._Circuit__internal_modes = list(inp["self"]["_Circuit__internal_modes"])
    internal = list(c._internal_modes)
    res = c._map_mode(inp["mode"])
    if res in internal:
        return f"_map_mode({inp['mode']}) with internal modes {internal} returned the internal mode {res}"
    k = sum(1 for x in internal if x < res)
    if res != inp["mode"] + k:
        return f"_map_mode({inp['mode']}) with internal modes {internal} returned {res}: not the mode-th visible mode"
    return None


def enum_map_mode():
    """every list of <=3 distinct internal modes out of {0..5} in EVERY order (they are stored in insertion order), every visible mode"""
    import itertools
    for k in range(0, 4):
        for internal in itertools.permutations(range(6), k):
            for mode in range(0, 6 - k + 1):
                yield {"self": {"_Circuit__internal_modes": list(internal)}, "mode": mode}


CONTRACTS = [
    Contract(
        target=f"{CIRC}:Circuit._map_mode",
        types={"self": CIRCUIT, "mode": "int"},
        requires=[WF_INTERNAL, "mode >= 0"],
        modifies=[],
        loops={"sorted(self.__internal_modes)": Loop(
            ghost={"k": ("0", "k + 1 if mode != pre(mode) else k")},
            invariant=["0 <= k and k <= _k",
                       "mode == old(mode) + k",
                       "forall(t, implies(0 <= t and t < k, at(_it,t) < mode))",
                       "forall(t, implies(k <= t and t < _k, at(_it,t) > mode))"])},
        ensures={
            # result is the mode-th user-visible full mode: not internal, and exactly k internal modes lie below it
            "not_internal": "result not in self.__internal_modes",
            "rank": "result == old(mode) + k and forall(t, implies(0 <= t and t < len(self.__internal_modes), "
                    "(at(_it,t) < result) == (t < k)))",
            # the clauses callers may rely on (no ghost state)
            "ge": "result >= old(mode)",
            "le": "result <= old(mode) + len(self.__internal_modes)",
            "same_if_no_ancilla": "implies(len(self.__internal_modes) == 0, result == old(mode))",
        },
        modular=["not_internal", "ge", "le", "same_if_no_ancilla"],
        pure=True,
        reads=["self.__internal_modes", "mode"],
        result_type="int",
        raises={},
        replay=replay_map_mode,
        props=["C02", "C01", "C08"],
    ),
]


# ---------------------------------------------------------------------------------------------- validators (C01 / C08)
UTIL = "lightworks/sdk/circuit/circuit_utils.py"
PARAM = "obj:Parameter{__value:real;__min_bound:none;__max_bound:none;label:none}"


def replay_mir(inp):
    import lightworks as lw
    c = lw.Circuit(max(inp["self"]["_Circuit__n_modes"], 0))
    m = inp["mode"]
    if isinstance(m, dict):
        m = m.get("float", m["frac"][0] / m["frac"][1] if "frac" in m else None)
    try:
        c._mode_in_range(m)
        raised = None
    except Exception as e:  # noqa: BLE001
        raised = type(e).__name__
    n = c.n_modes
    if isinstance(m, bool):
        want = "TypeError"
    elif isinstance(m, float) and int(m) != m:
        want = "TypeError"
    elif not 0 <= m < n:
        want = "ModeRangeError"
    else:
        want = None
    if raised != want:
        return f"Circuit({n})._mode_in_range({m!r}) -> {raised}, expected {want}"
    return None


CONTRACTS += [
    Contract(
        target=f"{CIRC}:Circuit._mode_in_range",
        types={"self": CIRCUIT, "mode": ["int", "bool", "real", PARAM]},
        requires=[],
        modifies=[],
        ensures={"in_range": "0 <= mode and mode < self.__n_modes", "true": "result"},
        result_type="bool",
        raises={"TypeError": "isinstance(mode, Parameter) or isinstance(mode, bool) or (isinstance(mode, float) and int(mode) != mode)",
                "ModeRangeError": "not isinstance(mode, Parameter) and not isinstance(mode, bool) and not (isinstance(mode, float) and int(mode) != mode) "
                                  "and not (0 <= mode and mode < self.__n_modes)"},
        exc_frame=True,
        replay=replay_mir,
        props=["C01", "C08"],
    ),
    Contract(
        target=f"{UTIL}:check_loss",
        types={"loss": ["real", "int", "bool", "'text'", PARAM]},
        requires=[],
        modifies=[],
        ensures={"valid": "0 <= lossvalue(loss) and lossvalue(loss) <= 1"},
        raises={"TypeError": "isinstance(loss, bool) or isinstance(loss, str)",
                "ValueError": "not isinstance(loss, bool) and not isinstance(loss, str) and not (0 <= lossvalue(loss) and lossvalue(loss) <= 1)"},
        defs={"lossvalue": lambda ex, v: (ex.heap[v.id].get("_Parameter__value") if hasattr(v, "id") else v)},
        exc_frame=True,
        props=["C01", "C08"],
    ),
]


# ---------------------------------------------------------------------------------------------- builder methods (C01 / C08)
MODE_T = "int"      # non-integer / boolean / negative modes: bounded check vf/tasks/t_frames.py (the modular result type of _map_mode is int)
LOSS_T = ["real", "'text'", PARAM]
BADMODE = "(isinstance({m}, bool) or (isinstance({m}, float) and int({m}) != {m}))"
LOSSVAL = {"lossvalue": lambda ex, v: (ex.heap[v.id].get("_Parameter__value") if hasattr(v, "id") else v)}


def _circ(inp):
    import lightworks as lw
    s = inp["self"]
    n = s["_Circuit__n_modes"]
    internal = sorted(set(x for x in s["_Circuit__internal_modes"] if 0 <= x < n))
    if n < 1 or n > 12:
        return None
    c = lw.Circuit(n)
    c._Circuit__internal_modes = list(internal)
    for m in internal:
        c._Circuit__in_heralds[m] = 0
        c._Circuit__out_heralds[m] = 0
    return c


def _val(v):
    if isinstance(v, dict):
        if "class" in v:
            import lightworks as lw
            return lw.Parameter(_val(v["_Parameter__value"]))
        return v.get("float", v["frac"][0] / v["frac"][1] if "frac" in v else None)
    return v


def _state(c):
    return (c.n_modes, repr(c._get_circuit_spec()), dict(c.heralds["input"]), dict(c.heralds["output"]), list(c._internal_modes))


def replay_ps(inp):
    from lightworks.sdk.circuit.components import Loss, PhaseShifter
    c = _circ(inp)
    if c is None:
        return None
    mode, phi, loss = _val(inp["mode"]), _val(inp["phi"]), _val(inp.get("loss", 0))
    before = _state(c)
    n_before = len(c._get_circuit_spec())
    vis = [m for m in range(c.n_modes) if m not in c._internal_modes]
    try:
        c.ps(mode, phi, loss)
        raised = None
    except Exception as e:  # noqa: BLE001
        raised = type(e).__name__
    if raised:
        if _state(c) != before:
            return f"Circuit.ps({mode!r}, {phi!r}, {loss!r}) raised {raised} but changed the circuit"
        return None
    spec = c._get_circuit_spec()[n_before:]
    lv = loss.get() if hasattr(loss, "get") else loss
    if isinstance(mode, int) and not isinstance(mode, bool) and 0 <= mode < len(vis):
        want = vis[mode]
        if not spec or not isinstance(spec[0], PhaseShifter) or spec[0].mode != want:
            return f"Circuit.ps({mode}) with ancillas {c._internal_modes}: recorded {spec}, expected a phase shifter on full mode {want}"
        if (hasattr(loss, "get") or lv > 0) and (len(spec) != 2 or not isinstance(spec[1], Loss) or spec[1].mode != want):
            return f"Circuit.ps({mode}, loss={lv}) with ancillas {c._internal_modes}: recorded {spec}, expected a loss element on full mode {want}"
    return None


def enum_ps():
    for n in (1, 2, 3, 4):
        import itertools
        for k in range(0, n):
            for internal in itertools.combinations(range(n), k):
                for mode in range(-1, n + 1):
                    for loss in (0, 0.3, 1.5):
                        yield {"self": {"_Circuit__n_modes": n, "_Circuit__internal_modes": list(internal)}, "mode": mode, "phi": 0.5, "loss": loss}


PS = Contract(
    target=f"{CIRC}:Circuit.ps",
    types={"self": CIRCUIT, "mode": MODE_T, "phi": ["real", PARAM], "loss": LOSS_T},
    requires=[WF_INTERNAL, "mode >= 0"],
    modifies=["self.__circuit_spec"],
    ensures={
        "phase_shifter_recorded": "isinstance(suffix(self.__circuit_spec)[0], PhaseShifter) and suffix(self.__circuit_spec)[0].mode == self._map_mode(old(mode)) "
                                  "and (suffix(self.__circuit_spec)[0].phi is phi if isinstance(phi, Parameter) else suffix(self.__circuit_spec)[0].phi == phi)",
        "count": "len(suffix(self.__circuit_spec)) == (2 if (isinstance(loss, Parameter) or lossvalue(loss) > 0) else 1)",
        "loss_on_same_mode": "implies(isinstance(loss, Parameter) or lossvalue(loss) > 0, isinstance(suffix(self.__circuit_spec)[1], Loss) and "
                             "suffix(self.__circuit_spec)[1].mode == self._map_mode(old(mode)))",
        "mode_valid": "0 <= suffix(self.__circuit_spec)[0].mode and suffix(self.__circuit_spec)[0].mode < self.__n_modes",
        # C10: a Parameter given as loss stays live - the Loss element is recorded whatever the Parameter's current value (also 0) and holds the
        # Parameter object itself, not its value
        "loss_parameter_kept": "implies(isinstance(loss, Parameter), len(suffix(self.__circuit_spec)) == 2 and suffix(self.__circuit_spec)[1].loss is loss)",
        "loss_value_kept": "implies(not isinstance(loss, Parameter) and lossvalue(loss) > 0, suffix(self.__circuit_spec)[1].loss == loss)",
    },
    raises={"ModeRangeError": "not (self._map_mode(mode) < self.__n_modes)",
            "TypeError": "self._map_mode(mode) < self.__n_modes and isinstance(loss, str)",
            "ValueError": "self._map_mode(mode) < self.__n_modes and not isinstance(loss, str) and not (0 <= lossvalue(loss) and lossvalue(loss) <= 1)"},
    defs=LOSSVAL,
    inline=["loss"],       # should ps() be written in terms of self.loss() again, that call is executed from its real source
    exc_frame=True,
    replay=replay_ps,
    props=["C01", "C08", "C10"],
)
PS.enum = enum_ps

LOSS = Contract(
    target=f"{CIRC}:Circuit.loss",
    types={"self": CIRCUIT, "mode": MODE_T, "loss": LOSS_T},
    requires=[WF_INTERNAL, "mode >= 0"],
    modifies=["self.__circuit_spec"],
    ensures={
        "loss_recorded": "len(suffix(self.__circuit_spec)) == 1 and isinstance(suffix(self.__circuit_spec)[0], Loss) and "
                         "suffix(self.__circuit_spec)[0].mode == self._map_mode(old(mode))",
        "mode_valid": "0 <= suffix(self.__circuit_spec)[0].mode and suffix(self.__circuit_spec)[0].mode < self.__n_modes",
        "loss_parameter_kept": "implies(isinstance(loss, Parameter), suffix(self.__circuit_spec)[0].loss is loss)",
        "loss_value_kept": "implies(not isinstance(loss, Parameter), suffix(self.__circuit_spec)[0].loss == loss)",
    },
    raises=PS.raises,
    defs=LOSSVAL,
    exc_frame=True,
    props=["C01", "C08", "C10"],
)

WF_RANGE = "forall(t, implies(0 <= t and t < len(self.__internal_modes), 0 <= at(self.__internal_modes,t) and at(self.__internal_modes,t) < self.__n_modes))"
PS.requires.append(WF_RANGE)
LOSS.requires.append(WF_RANGE)


def replay_herald(inp):
    c = _circ(inp)
    if c is None:
        return None
    npho, mi, mo = _val(inp["n_photons"]), _val(inp["input_mode"]), _val(inp.get("output_mode"))
    before = _state(c)
    hin, hout = dict(c.heralds["input"]), dict(c.heralds["output"])
    vis = [m for m in range(c.n_modes) if m not in c._internal_modes]
    try:
        c.herald(npho, mi, mo)
        raised = None
    except Exception as e:  # noqa: BLE001
        raised = type(e).__name__
    if raised:
        if _state(c) != before:
            return f"Circuit.herald({npho!r}, {mi!r}, {mo!r}) raised {raised} but changed the circuit: {before} -> {_state(c)}"
        return None
    if isinstance(mi, int) and 0 <= mi < len(vis) and (mo is None or (isinstance(mo, int) and 0 <= mo < len(vis))):
        fi, fo = vis[mi], vis[mi if mo is None else mo]
        hin[fi] = npho
        hout[fo] = npho
        if dict(c.heralds["input"]) != hin or dict(c.heralds["output"]) != hout:
            return f"Circuit.herald({npho}, {mi}, {mo}) with ancillas {c._internal_modes}: heralds {c.heralds}, expected input {hin} output {hout}"
    return None


def enum_herald():
    import itertools
    for n in (1, 2, 3, 4):
        for k in range(0, n):
            for internal in itertools.combinations(range(n), k):
                for mi in range(0, n + 1):
                    for mo in [None] + list(range(0, n + 1)):
                        yield {"self": {"_Circuit__n_modes": n, "_Circuit__internal_modes": list(internal)}, "n_photons": 1, "input_mode": mi, "output_mode": mo}


HERALD = Contract(
    target=f"{CIRC}:Circuit.herald",
    types={"self": CIRCUIT, "n_photons": ["int", "bool", "real"], "input_mode": "int", "output_mode": ["none", "int"]},
    requires=[WF_INTERNAL, WF_RANGE, "input_mode >= 0", "implies(not is_none(output_mode), output_mode >= 0)"],
    modifies=["self.__in_heralds", "self.__out_heralds", "self.__external_in_heralds", "self.__external_out_heralds"],
    ensures={
        "input_herald": "at(self.__in_heralds, self._map_mode(old(input_mode))) == n_photons and (self._map_mode(old(input_mode)) in self.__in_heralds) and "
                        "at(self.__external_in_heralds, self._map_mode(old(input_mode))) == n_photons",
        "output_herald": "at(self.__out_heralds, self._map_mode(out_mode(old(input_mode), old(output_mode)))) == n_photons and "
                         "(self._map_mode(out_mode(old(input_mode), old(output_mode))) in self.__out_heralds) and "
                         "at(self.__external_out_heralds, self._map_mode(out_mode(old(input_mode), old(output_mode)))) == n_photons",
        "one_more_each": "len(self.__in_heralds) == old(len(self.__in_heralds)) + 1 and len(self.__out_heralds) == old(len(self.__out_heralds)) + 1",
        "others_kept": "forall(x, implies((x in old(self.__in_heralds)), (x in self.__in_heralds) and at(self.__in_heralds, x) == at(old(self.__in_heralds), x))) and "
                       "forall(x, implies((x in old(self.__out_heralds)), (x in self.__out_heralds) and at(self.__out_heralds, x) == at(old(self.__out_heralds), x)))",
    },
    raises={"TypeError": "not isinstance(n_photons, int) or isinstance(n_photons, bool)",
            "ModeRangeError": "isinstance(n_photons, int) and not isinstance(n_photons, bool) and "
                              "not (self._map_mode(input_mode) < self.__n_modes and self._map_mode(out_mode(input_mode, output_mode)) < self.__n_modes)",
            "ValueError": "isinstance(n_photons, int) and not isinstance(n_photons, bool) and "
                          "(self._map_mode(input_mode) < self.__n_modes and self._map_mode(out_mode(input_mode, output_mode)) < self.__n_modes) and "
                          "((self._map_mode(input_mode) in self.__in_heralds) or (self._map_mode(out_mode(input_mode, output_mode)) in self.__out_heralds))"},
    defs={"out_mode": lambda ex, i, o: (i if o is None else o)},
    exc_frame=True,
    replay=replay_herald,
    props=["C08", "C02"],
)
HERALD.enum = enum_herald

REFL_T = ["real", PARAM]
BS = Contract(
    target=f"{CIRC}:Circuit.bs",
    types={"self": CIRCUIT, "mode_1": "int", "mode_2": ["none", "int"], "reflectivity": REFL_T, "loss": LOSS_T, "convention": ["'Rx'", "'H'", "'Q'"]},
    requires=[WF_INTERNAL, WF_RANGE, "mode_1 >= 0", "implies(not is_none(mode_2), mode_2 >= 0)"],
    modifies=["self.__circuit_spec"],
    ensures={
        "beam_splitter_recorded": "isinstance(suffix(self.__circuit_spec)[0], BeamSplitter) and suffix(self.__circuit_spec)[0].mode_1 == self._map_mode(old(mode_1)) "
                                  "and suffix(self.__circuit_spec)[0].mode_2 == self._map_mode(second(old(mode_1), old(mode_2))) "
                                  "and suffix(self.__circuit_spec)[0].convention == convention",
        "distinct_valid_modes": "suffix(self.__circuit_spec)[0].mode_1 != suffix(self.__circuit_spec)[0].mode_2 and "
                                "0 <= suffix(self.__circuit_spec)[0].mode_1 and suffix(self.__circuit_spec)[0].mode_1 < self.__n_modes and "
                                "0 <= suffix(self.__circuit_spec)[0].mode_2 and suffix(self.__circuit_spec)[0].mode_2 < self.__n_modes",
        "count": "len(suffix(self.__circuit_spec)) == (3 if (isinstance(loss, Parameter) or lossvalue(loss) > 0) else 1)",
        "losses_on_same_modes": "implies(isinstance(loss, Parameter) or lossvalue(loss) > 0, "
                                "isinstance(suffix(self.__circuit_spec)[1], Loss) and suffix(self.__circuit_spec)[1].mode == self._map_mode(old(mode_1)) and "
                                "isinstance(suffix(self.__circuit_spec)[2], Loss) and suffix(self.__circuit_spec)[2].mode == self._map_mode(second(old(mode_1), old(mode_2))))",
        "loss_parameter_kept": "implies(isinstance(loss, Parameter), len(suffix(self.__circuit_spec)) == 3 and suffix(self.__circuit_spec)[1].loss is loss "
                               "and suffix(self.__circuit_spec)[2].loss is loss)",
        "reflectivity_parameter_kept": "implies(isinstance(reflectivity, Parameter), suffix(self.__circuit_spec)[0].reflectivity is reflectivity)",
    },
    raises={"ModeRangeError": "not (self._map_mode(mode_1) < self.__n_modes) or self._map_mode(mode_1) == self._map_mode(second(mode_1, mode_2)) or "
                              "not (self._map_mode(second(mode_1, mode_2)) < self.__n_modes)",
            "TypeError": "VALIDMODES and isinstance(loss, str)",
            "ValueError": "VALIDMODES and not isinstance(loss, str) and (not (0 <= lossvalue(loss) and lossvalue(loss) <= 1) or "
                          "not (0 <= lossvalue(reflectivity) and lossvalue(reflectivity) <= 1) or convention == 'Q')"},
    defs={**LOSSVAL, "second": lambda ex, m1, m2: (m1 + 1 if m2 is None else m2)},
    inline=["loss"],
    exc_frame=True,
    types_quick={"reflectivity": ["real", PARAM], "loss": ["real", PARAM], "convention": ["'H'", "'Q'"]},
    props=["C01", "C08", "C10"],
)
_VALID = ("(self._map_mode(mode_1) < self.__n_modes and self._map_mode(mode_1) != self._map_mode(second(mode_1, mode_2)) and "
          "self._map_mode(second(mode_1, mode_2)) < self.__n_modes)")
BS.raises = {k: v.replace("VALIDMODES", _VALID) for k, v in BS.raises.items()}

CONTRACTS += [PS, LOSS, HERALD, BS]


# ---------------------------------------------------------------------------------------------- _add_empty_mode (C02)
SHIFT = "(x + 1 if x >= mode else x)"


def _shifted(d_new, d_old):
    """herald map d_new is d_old with every key x replaced by x + [x >= mode]: same values, same insertion order"""
    return (f"len({d_new}) == len({d_old}) and forall(t, implies(0 <= t and t < len({d_old}), "
            f"key_at({d_new}, t) == (key_at({d_old}, t) + 1 if key_at({d_old}, t) >= mode else key_at({d_old}, t)) and "
            f"at({d_new}, key_at({d_new}, t)) == at({d_old}, key_at({d_old}, t))))")


def replay_aem(inp):
    import lightworks as lw
    s = inp["self"]
    n = s["_Circuit__n_modes"]
    mode = inp["mode"]
    if not (1 <= n <= 10 and 0 <= mode <= n):
        return None
    c = lw.Circuit(n)
    names = ["_Circuit__in_heralds", "_Circuit__out_heralds", "_Circuit__external_in_heralds", "_Circuit__external_out_heralds"]
    for nm in names:
        setattr(c, nm, {k: v for k, v in s[nm]["dict"]})
    c._Circuit__internal_modes = list(s["_Circuit__internal_modes"])
    before = {nm: list(getattr(c, nm).items()) for nm in names}
    internal = list(c._internal_modes)
    c._add_empty_mode([], mode)
    sh = lambda x: x + 1 if x >= mode else x  # noqa: E731
    for nm in names:
        want = [(sh(k), v) for k, v in before[nm]]
        if list(getattr(c, nm).items()) != want:
            return f"_add_empty_mode(mode={mode}): {nm} = {list(getattr(c, nm).items())}, expected {want} (same order, keys shifted)"
    if c.n_modes != n + 1 or list(c._internal_modes) != [sh(x) for x in internal]:
        return f"_add_empty_mode(mode={mode}): n_modes {c.n_modes}, internal {c._internal_modes}"
    return None


def enum_aem():
    import itertools
    for n in (2, 3, 4):
        for keys in itertools.permutations(range(n), 2):
            for mode in range(0, n + 1):
                d = {"dict": [[keys[0], 1], [keys[1], 0]]}
                d2 = {"dict": [[keys[1], 1], [keys[0], 0]]}
                yield {"self": {"_Circuit__n_modes": n, "_Circuit__internal_modes": list(keys), "_Circuit__in_heralds": d, "_Circuit__out_heralds": d2,
                                "_Circuit__external_in_heralds": {"dict": []}, "_Circuit__external_out_heralds": d}, "mode": mode}


AEM_SPEC = Contract(
    target="lightworks/sdk/circuit/circuit_utils.py:add_empty_mode_to_circuit_spec",
    types={"circuit_spec": "glist", "mode": "int"},
    requires=[], ensures={}, raises=None, modifies=[], pure=True, result_type="glist",
    props=[],
)
AM_SPEC = Contract(
    target="lightworks/sdk/circuit/circuit_utils.py:add_modes_to_circuit_spec",
    types={"circuit_spec": "glist", "mode": "int"},
    requires=[], ensures={}, raises=None, modifies=[], pure=True, result_type="glist",
    props=[],
)
AEM = Contract(
    target=f"{CIRC}:Circuit._add_empty_mode",
    types={"self": CIRCUIT, "circuit_spec": "glist", "mode": "int"},
    requires=["mode >= 0"],
    modifies=["self.__n_modes", "self.__in_heralds", "self.__out_heralds", "self.__external_in_heralds", "self.__external_out_heralds", "self.__internal_modes"],
    loops={"getattr(self, '_Circuit' + tm).items()": Loop(invariant=[
        "len(new_heralds) == _k",
        "forall(t, implies(0 <= t and t < _k, key_at(new_heralds, t) == (key_at(getattr(self, '_Circuit' + tm), t) + 1 if key_at(getattr(self, '_Circuit' + tm), t) >= mode "
        "else key_at(getattr(self, '_Circuit' + tm), t)) and at(new_heralds, key_at(new_heralds, t)) == at(getattr(self, '_Circuit' + tm), key_at(getattr(self, '_Circuit' + tm), t))))",
        "forall(x, implies(x in new_heralds, 0 <= pos_of(new_heralds, x) and pos_of(new_heralds, x) < _k and key_at(new_heralds, pos_of(new_heralds, x)) == x))",
    ])},
    ensures={
        "one_more_mode": "self.__n_modes == old(self.__n_modes) + 1",
        # what is returned is the image of the spec THAT WAS PASSED IN under add_empty_mode_to_circuit_spec (whose element contracts say: copies of the
        # components that still hold the same Parameter objects) - not the image of a deep copy of it, in which the parameters would be clones
        "returns_the_shifted_argument": "same_ref(result, add_empty_mode_to_circuit_spec(circuit_spec, mode))",
        "in_heralds_shifted": _shifted("self.__in_heralds", "old(self.__in_heralds)"),
        "out_heralds_shifted": _shifted("self.__out_heralds", "old(self.__out_heralds)"),
        "external_in_shifted": _shifted("self.__external_in_heralds", "old(self.__external_in_heralds)"),
        "external_out_shifted": _shifted("self.__external_out_heralds", "old(self.__external_out_heralds)"),
        "internal_shifted": "len(self.__internal_modes) == len(old(self.__internal_modes)) and forall(t, implies(0 <= t and t < len(self.__internal_modes), "
                            "at(self.__internal_modes, t) == (at(old(self.__internal_modes), t) + 1 if at(old(self.__internal_modes), t) >= mode else at(old(self.__internal_modes), t))))",
    },
    raises={},
    replay=replay_aem,
    props=["C02", "C10"],
)
AEM.enum = enum_aem
CONTRACTS += [AEM_SPEC, AEM, AM_SPEC]

CONTRACTS[0].enum = enum_map_mode

# the same contract for a mode given as a whole REAL number (float, numpy float, Fraction): converted to int first, then mapped like the int
import dataclasses as _dc
MAP_MODE_REAL = _dc.replace(CONTRACTS[0], types={"self": CIRCUIT, "mode": "real"}, requires=[WF_INTERNAL, "mode >= 0", "mode == int(mode)"],
                            ensures={**CONTRACTS[0].ensures, "stored_as_int": "isinstance(result, int)"}, props=["C01", "C02"])
MAP_MODE_REAL.enum = None
MAP_MODE_REAL.replay = None
MAP_MODE_REAL.no_callee = True
MAP_MODE_REAL.label = "whole real mode"
CONTRACTS.append(MAP_MODE_REAL)


# ---------------------------------------------------------------------------------------------- Circuit.barrier (C01 / C08)
def _modes_list(k):
    def build(ex, name):
        import z3
        from vf.pyvc.values import CList
        return ex.alloc(CList(tuple(z3.Int(f"{name}_{i}") for i in range(k))), name)
    build.label = f"list of {k} mode(s)"
    return build


def _barrier(k):
    nvis = "(self.__n_modes - len(self.__internal_modes))"
    mapped_ok = " and ".join([f"suffix(self.__circuit_spec)[0].modes[{i}] == self._map_mode(old(modes[{i}]))" for i in range(k)] or ["True"])
    out_of_range = " or ".join([f"self._map_mode(modes[{i}]) >= self.__n_modes" for i in range(k)] or ["False"])
    c = Contract(
        target=f"{CIRC}:Circuit.barrier",
        types={"self": CIRCUIT, "modes": _modes_list(k)},
        requires=[WF_INTERNAL, WF_RANGE] + [f"modes[{i}] >= 0" for i in range(k)],
        modifies=["self.__circuit_spec"],
        ensures={
            # one Barrier is recorded, on the full modes that the user-visible modes map to, in the given order
            "barrier_recorded": f"len(suffix(self.__circuit_spec)) == 1 and isinstance(suffix(self.__circuit_spec)[0], Barrier) and len(suffix(self.__circuit_spec)[0].modes) == {k}",
            "on_mapped_modes": mapped_ok,
        },
        raises={"ModeRangeError": out_of_range},
        exc_frame=True,
        props=["C01", "C08"],
    )
    c.label = f"{k} mode(s)"
    return c


BARRIERS = [_barrier(0), _barrier(1), _barrier(2)]
CONTRACTS += BARRIERS


# ---------------------------------------------------------------------------------------------- Circuit.mode_swaps (C01 / C08)
def _swap_dict(k):
    def build(ex, name):
        import z3
        from vf.pyvc.values import CDict
        return ex.alloc(CDict(tuple((z3.Int(f"{name}_k{i}"), z3.Int(f"{name}_v{i}")) for i in range(k))), name)
    build.label = f"dict of {k} swap(s)"
    return build


def _mode_swaps(k):
    keys = [f"swaps_k{i}" for i in range(k)]
    vals = [f"swaps_v{i}" for i in range(k)]
    distinct = [f"{a} != {b}" for i, a in enumerate(keys) for b in keys[i + 1:]]
    complete = {0: "True", 1: f"{keys[0]} == {vals[0]}" if k == 1 else "",
                2: f"(({keys[0]} == {vals[0]} and {keys[1]} == {vals[1]}) or ({keys[0]} == {vals[1]} and {keys[1]} == {vals[0]}))" if k == 2 else ""}[k]
    out_of_range = " or ".join([f"self._map_mode({x}) >= self.__n_modes" for x in keys + vals] or ["False"])
    c = Contract(
        target=f"{CIRC}:Circuit.mode_swaps",
        types={"self": CIRCUIT, "swaps": _swap_dict(k), **{x: "int" for x in keys + vals}},
        # with ancillas present the argument needs that _map_mode is injective: supplied as the relational lemma map-mode-monotone (pair_facts below)
        requires=[WF_INTERNAL, WF_RANGE] + [f"{x} >= 0" for x in keys + vals] + distinct,
        modifies=["self.__circuit_spec"],
        ensures={"swaps_recorded": "len(suffix(self.__circuit_spec)) == 1 and isinstance(suffix(self.__circuit_spec)[0], ModeSwaps)"},
        # out-of-range modes are refused first; a dictionary whose keys and values are not the same set of modes is incomplete
        raises={"ModeRangeError": out_of_range, "ValueError": f"not ({out_of_range}) and not {complete}"},
        exc_frame=True,
        props=["C01", "C08"],
    )
    c.label = f"{k} swap(s)"
    return c


SWAPS = [_mode_swaps(0), _mode_swaps(1), _mode_swaps(2)]
CONTRACTS += SWAPS


# _map_mode is strictly increasing in the mode for a fixed ancilla list: a fact about TWO calls, added between every pair of modular calls.
# Proved as lemma.map-mode-monotone (+ increasing-spreads, sorted-distinct-is-strict) in vf/lemmas/z3lemmas.py from the clause `rank` above.
def _map_mode_pairs(ex, vals_a, res_a, vals_b, res_b):
    import z3
    la, ma = vals_a
    lb, mb = vals_b
    if ex._sig([la]) != ex._sig([lb]) or not (hasattr(ma, "sort") and hasattr(mb, "sort")):
        return []
    # equal arguments give equal results (the function is pure - functional congruence), smaller gives smaller (the lemma)
    return [z3.Implies(ma == mb, res_a == res_b), z3.Implies(ma < mb, res_a < res_b), z3.Implies(ma > mb, res_a > res_b)]


CONTRACTS[0].pair_facts = _map_mode_pairs
CONTRACTS[0].pair_lemma = "lemma.map-mode-monotone (z3, vf/lemmas/z3lemmas.py): _map_mode is strictly increasing in the mode for a fixed ancilla list"


# run-time counterparts of the contract-defined spec functions (vf/pyvc/rtc.py evaluates the clauses that use them on the real objects)
def _rt_lossvalue(v):
    return v.get() if hasattr(v, "get") and hasattr(v, "set") else v


_RT = {"lossvalue": _rt_lossvalue, "second": lambda m1, m2: (m1 + 1 if m2 is None else m2), "out_mode": lambda i, o: (i if o is None else o)}
for _c in CONTRACTS:
    if _c.defs:
        _c.rt_defs = {k: _RT[k] for k in _c.defs if k in _RT}
