"""Contracts: the Simulator's validation of input states (C03: wrong length / negative occupations are rejected, not computed)."""
from vf.pyvc.engine import Contract
from vf.contracts.c_circuit_modes import CIRCUIT

F = "lightworks/emulator/simulation/simulator.py"
STATE = "obj:State{__s:list[int]}"
SIM = "obj:Simulator{__circuit:" + CIRCUIT + "}"
NIN = "(self._Simulator__circuit._Circuit__n_modes - len(self._Simulator__circuit._Circuit__in_heralds))"


def states(k):
    def build(ex, name):
        from vf.pyvc.values import CList
        return ex.alloc(CList(tuple(ex.make(f"{name}[{i}]", STATE, f"{name}[{i}]") for i in range(k))), name)
    build.label = f"list of {k} State(s)"

    def native(rnd):
        import lightworks as lw
        pool = [[], [1], [0, 2], [1, 0, 1], [-1, 1], [2, -3, 0]]
        import itertools
        return [(lambda c=c: [lw.State(list(x)) for x in c]) for c in itertools.islice(itertools.product(pool, repeat=k), 0, None, max(1, k))]
    build.native = native
    return build


def _bad(inp_expr, k, what):
    parts = []
    for i in range(k):
        if what == "len":
            parts.append(f"len({inp_expr}[{i}]._State__s) != {NIN}")
        else:
            parts.append(f"exists(t, 0 <= t and t < len({inp_expr}[{i}]._State__s) and at({inp_expr}[{i}]._State__s, t) < 0)")
    return "(" + " or ".join(parts) + ")" if parts else "False"


def _contract(k):
    c = Contract(
        target=f"{F}:Simulator._process_inputs",
        types={"self": SIM, "inputs": states(k)},
        requires=[], modifies=[],
        ensures={
            "same_states_returned": f"len(result) == {k}" + "".join(f" and same_ref(result[{i}], inputs[{i}])" for i in range(k)),
        },
        # a state of the wrong length or with a negative occupation is refused (never handed on to the amplitude calculation)
        raises={"ModeMismatchError": _bad("inputs", k, "len"), "ValueError": _bad("inputs", k, "neg")},
        props=["C03"],
    )
    c.label = f"{k} state(s)"
    return c


CONTRACTS = [_contract(1), _contract(2)]
# a single State (not in a list) is accepted like a one-element list
SINGLE = Contract(
    target=f"{F}:Simulator._process_inputs",
    types={"self": SIM, "inputs": STATE},
    requires=[], modifies=[],
    ensures={"wrapped": "len(result) == 1 and same_ref(result[0], old(inputs))"},
    raises={"ModeMismatchError": f"len(inputs._State__s) != {NIN}", "ValueError": "exists(t, 0 <= t and t < len(inputs._State__s) and at(inputs._State__s, t) < 0)"},
    props=["C03"],
)
SINGLE.label = "single State"
# anything that is not a State inside the list is a TypeError
NOTSTATE = Contract(
    target=f"{F}:Simulator._process_inputs",
    types={"self": SIM, "inputs": "clist[1:int]"},
    requires=[], modifies=[], ensures={}, raises={"TypeError": "True"}, props=["C03"],
)
NOTSTATE.label = "not a State"
CONTRACTS += [SINGLE, NOTSTATE]
REGISTRY_MODULES = ["vf.contracts.c_state"]
