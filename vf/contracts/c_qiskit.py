"""Contracts: qiskit converter helpers (C12)."""
from vf.pyvc.engine import Contract, Loop

F = "lightworks/qubit/converter/qiskit_convert.py"


def replay_adj(inp):
    from lightworks.qubit.converter.qiskit_convert import convert_two_qubits_to_adjacent
    q0, q1 = inp["q0"], inp["q1"]
    if q0 == q1 or q0 < 0 or q1 < 0 or abs(q0 - q1) > 2000:
        return None
    n0, n1, swaps = convert_two_qubits_to_adjacent(q0, q1)
    mn, mx = min(q0, q1), max(q0, q1)
    lo, hi = min(n0, n1), max(n0, n1)
    exp = ([(mn, lo)] if mn != lo else []) + ([(mx, hi)] if mx != hi else [])
    if abs(n0 - n1) != 1 or (n0 < n1) != (q0 < q1) or not (mn <= lo and hi <= mx) or list(swaps) != exp:
        return f"convert_two_qubits_to_adjacent({q0},{q1}) = {(n0, n1, swaps)}"
    return None


def enum_adj():
    for q0 in range(6):
        for q1 in range(6):
            if q0 != q1:
                yield {"q0": q0, "q1": q1}


ADJ = Contract(
    target=f"{F}:convert_two_qubits_to_adjacent",
    types={"q0": "nat", "q1": "nat"},
    requires=["q0 != q1"],
    modifies=[],
    loops={"new_upper - new_lower != 1": Loop(
        invariant=["min(q0, q1) <= new_lower", "new_upper <= max(q0, q1)", "new_lower < new_upper", "new_upper - new_lower != 1 or True",
                   "len(swaps) == 0"],
        decreases="new_upper - new_lower")},
    ensures={
        "adjacent": "abs(result[0] - result[1]) == 1",
        "order_kept": "(result[0] < result[1]) == (old(q0) < old(q1))",
        "inside": "min(old(q0), old(q1)) <= min(result[0], result[1]) and max(result[0], result[1]) <= max(old(q0), old(q1))",
        # the swaps move exactly the two original qubits to their new places
        "swaps": "result[2] == ([(min(old(q0), old(q1)), min(result[0], result[1]))] if min(old(q0), old(q1)) != min(result[0], result[1]) else []) + "
                 "([(max(old(q0), old(q1)), max(result[0], result[1]))] if max(old(q0), old(q1)) != max(result[0], result[1]) else [])",
    },
    raises={},
    replay=replay_adj,
    props=["C12"],
)
ADJ.enum = enum_adj

CONTRACTS = [ADJ]


# ---------------------------------------------------------------------------------------------- post_selection_analyzer
# Bounded in the number of gates (spine concrete, <= 4 instructions of arity 1..3), unbounded in the qubit indices (symbolic,
# distinct within a gate): a gate marked post-selectable has at most one qubit that a later multi-qubit gate touches (M8).
import itertools as _it

import z3 as _z3

from vf.pyvc.values import CList as _CList, Obj as _Obj


def _qc_builder(arities):
    def build(ex, name):
        insts = []
        for g, ar in enumerate(arities):
            qs = []
            for k in range(ar):
                q = _z3.Int(f"q{g}_{k}")
                ex.pc.append(q >= 0)
                qs.append(ex.alloc(_Obj("Qubit", (("_index", q),)), f"{name}.data[{g}].qubits[{k}]"))
            for a, b in _it.combinations(range(ar), 2):
                ex.pc.append(_z3.Int(f"q{g}_{a}") != _z3.Int(f"q{g}_{b}"))
            op = ex.alloc(_Obj("Operation", (("num_qubits", _z3.IntVal(ar)),)), f"{name}.data[{g}].operation")
            insts.append(ex.alloc(_Obj("Instruction", (("operation", op), ("qubits", ex.alloc(_CList(tuple(qs)), f"{name}.q{g}")))), f"{name}.data[{g}]"))
        return ex.alloc(_Obj("QuantumCircuit", (("data", ex.alloc(_CList(tuple(insts)), f"{name}.data")),)), name)
    build.label = "arities" + "".join(map(str, arities))
    build.arities = arities
    return build


def _find_bit(ex, base, args):
    """qiskit QuantumCircuit.find_bit(bit).index is the position of the bit in the circuit (the symbolic q of the modelled Qubit)"""
    q = ex.deref(args[0])
    return ex.alloc(_Obj("BitLocations", (("index", q.get("_index")),)))


def _m8(ex, env, ret):
    arities = ex.vt["qc"].arities
    marks = ex.deref(ret[0]).items
    goals = [_z3.BoolVal(len(marks) == len(arities))]
    for g, ar in enumerate(arities):
        if ar < 2:
            goals.append(_z3.Not(ex.truth(marks[g])))          # single-qubit instructions are reported as False
            continue
        later = [_z3.Int(f"q{h}_{k}") for h in range(g + 1, len(arities)) if arities[h] >= 2 for k in range(arities[h])]
        touched = [_z3.If(_z3.Or(*[_z3.Int(f"q{g}_{k}") == q for q in later]) if later else _z3.BoolVal(False), 1, 0) for k in range(ar)]
        goals.append(_z3.Implies(ex.truth(marks[g]), sum(touched) <= 1))
    return _z3.And(*goals)


def _qubits_listed(ex, env, ret):
    arities = ex.vt["qc"].arities
    lst = ex.deref(ret[1])
    multi = [_z3.Int(f"q{g}_{k}") for g, ar in enumerate(arities) if ar >= 2 for k in range(ar)]
    x, t, u = _z3.Int("x!ql"), _z3.Int("t!ql"), _z3.Int("u!ql")
    member = _z3.Exists([t], _z3.And(0 <= t, t < lst.len, _z3.Select(lst.arr, t) == x))
    return _z3.And(_z3.ForAll([x], member == (_z3.Or(*[x == q for q in multi]) if multi else _z3.BoolVal(False))),
                   _z3.ForAll([t, u], _z3.Implies(_z3.And(0 <= t, t < u, u < lst.len), _z3.Select(lst.arr, t) != _z3.Select(lst.arr, u))))


def replay_psa(inp):
    return None


def enum_psa():
    """native: all programs of <=3 multi-qubit gates on 4 qubits"""
    gates = [("cx", p) for p in _it.permutations(range(4), 2)] + [("ccz", (0, 1, 2)), ("ccz", (1, 2, 3)), ("h", (0,))]
    for L in (1, 2, 3):
        for prog in _it.product(gates[::3], repeat=L):
            yield {"prog": [[g, list(q)] for g, q in prog]}


def replay_psa_native(inp):
    from qiskit import QuantumCircuit
    from lightworks.qubit.converter.qiskit_convert import post_selection_analyzer
    if "qc" in inp:      # counter-model of the contract: instructions with their qubit indices
        prog = []
        for inst in inp["qc"]["data"]:
            qs = [q["_index"] for q in inst["qubits"]]
            prog.append([{1: "h", 2: "cz", 3: "ccz"}[len(qs)], qs])
        if any(q > 40 for _, qs in prog for q in qs):
            return None
        inp = {"prog": prog}
    nq = max([q for _, qs in inp["prog"] for q in qs] + [3]) + 1
    qc = QuantumCircuit(nq)
    for g, q in inp["prog"]:
        getattr(qc, g)(*q)
    marks, qubits = post_selection_analyzer(qc)
    gq = [q if len(q) >= 2 else None for _, q in inp["prog"]]
    for i, q in enumerate(gq):
        if q is None:
            if marks[i]:
                return f"{inp['prog']}: single-qubit instruction {i} marked post-selectable"
            continue
        later = set(x for h in gq[i + 1:] if h for x in h)
        if marks[i] and sum(x in later for x in q) > 1:
            return f"{inp['prog']}: gate {i} on {q} marked post-selectable although {sorted(set(q) & later)} are used by later multi-qubit gates"
    if sorted(qubits) != sorted(set(x for h in gq if h for x in h)):
        return f"{inp['prog']}: qubits needing post-selection {qubits}"
    return None


PSA = Contract(
    target=f"{F}:post_selection_analyzer",
    types={"qc": [_qc_builder(a) for L in (1, 2, 3, 4) for a in _it.product((1, 2, 3), repeat=L)]},
    types_quick={"qc": [_qc_builder(a) for L in (1, 2, 3) for a in _it.product((1, 2, 3), repeat=L)] + [_qc_builder(a) for a in ((3, 1, 2, 2), (3, 2, 1, 2), (2, 3, 2, 3))]},
    requires=[],
    modifies=[],
    ensures={"deferral_condition": _m8, "qubits_listed": _qubits_listed},
    raises={},
    replay=replay_psa_native,
    props=["C12"],
    assumes=["M8 (deferral of post-selection: at most one qubit of a post-selected gate is touched by a later multi-qubit gate) - sufficient condition, argued in DESIGN.md"],
)
PSA.enum = enum_psa
PSA.extern_methods = {("QuantumCircuit", "find_bit"): _find_bit}
CONTRACTS.append(PSA)
