"""Contracts: qiskit converter helpers (C12)."""
from vf.pyvc.engine import Contract, Loop

F = "lightworks/qubit/converter/qiskit_convert.py"


def replay_adj(inp):
    from lightworks.qubit.converter.qiskit_convert import convert_two_qubits_to_adjacent
    q0, q1 = inp["q0"], inp["q1"]
    if q0 == q1 or q0 < 0 or q1 < 0 or abs(q0 - q1) > 2000:
        return None
    n0, n1, swaps = convert_two_qubits_to_adjacent(q0, q1)
    mn, mx = min(q0, q1), max(q0, q1)
    lo, hi = min(n0, n1), max(n0, n1)
    exp = ([(mn, lo)] if mn != lo else []) + ([(mx, hi)] if mx != hi else [])
    if abs(n0 - n1) != 1 or (n0 < n1) != (q0 < q1) or not (mn <= lo and hi <= mx) or list(swaps) != exp:
        return f"convert_two_qubits_to_adjacent({q0},{q1}) = {(n0, n1, swaps)}"
    return None


def enum_adj():
    for q0 in range(6):
        for q1 in range(6):
            if q0 != q1:
                yield {"q0": q0, "q1": q1}


ADJ = Contract(
    target=f"{F}:convert_two_qubits_to_adjacent",
    types={"q0": "nat", "q1": "nat"},
    requires=["q0 != q1"],
    modifies=[],
    loops={"new_upper - new_lower != 1": Loop(
        invariant=["min(q0, q1) <= new_lower", "new_upper <= max(q0, q1)", "new_lower < new_upper", "new_upper - new_lower != 1 or True",
                   "len(swaps) == 0"],
        decreases="new_upper - new_lower")},
    ensures={
        "adjacent": "abs(result[0] - result[1]) == 1",
        "order_kept": "(result[0] < result[1]) == (old(q0) < old(q1))",
        "inside": "min(old(q0), old(q1)) <= min(result[0], result[1]) and max(result[0], result[1]) <= max(old(q0), old(q1))",
        # the swaps move exactly the two original qubits to their new places
        "swaps": "result[2] == ([(min(old(q0), old(q1)), min(result[0], result[1]))] if min(old(q0), old(q1)) != min(result[0], result[1]) else []) + "
                 "([(max(old(q0), old(q1)), max(result[0], result[1]))] if max(old(q0), old(q1)) != max(result[0], result[1]) else [])",
    },
    raises={},
    replay=replay_adj,
    props=["C12"],
)
ADJ.enum = enum_adj

CONTRACTS = [ADJ]
