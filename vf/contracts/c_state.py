"""Contracts: State value semantics (C18), dB conversions."""
from vf.pyvc.engine import Contract, Loop

F = "lightworks/sdk/state/state.py"
CONV = "lightworks/sdk/utils/conversion.py"
STATE = "obj:State{__s:list[int]}"


def _st(x):
    import lightworks as lw
    return lw.State(list(x["_State__s"]))


def replay_add(inp):
    a, b = _st(inp["self"]), _st(inp["value"])
    la, lb = a.s, b.s
    r = a + b
    if r.s != la + lb or len(r) != len(la) + len(lb) or r.n_photons != sum(la) + sum(lb):
        return f"State({la}) + State({lb}) = {r}"
    if a.s != la or b.s != lb:
        return "State.__add__ modified an operand"
    return None


def replay_merge(inp):
    a, b = _st(inp["self"]), _st(inp["merge_state"])
    la, lb = a.s, b.s
    try:
        r = a.merge(b)
    except ValueError:
        return None if len(la) != len(lb) else f"State({la}).merge(State({lb})) raised ValueError"
    if len(la) != len(lb):
        return f"State({la}).merge(State({lb})) accepted different lengths"
    if r.s != [x + y for x, y in zip(la, lb)]:
        return f"State({la}).merge(State({lb})) = {r}"
    return None


def replay_eq(inp):
    a = _st(inp["self"])
    if not isinstance(inp["value"], dict) or "_State__s" not in inp["value"]:
        return None
    b = _st(inp["value"])
    if (a == b) != (a.s == b.s):
        return f"State({a.s}) == State({b.s}) gives {a == b}"
    if a == b and hash(a) != hash(b):
        return f"equal states {a.s} hash differently"
    return None


def enum_pairs(key2):
    import itertools
    def gen():
        for n in range(0, 4):
            for m in range(0, 4):
                for va in itertools.product([0, 1, 2], repeat=n):
                    for vb in itertools.product([0, 1], repeat=m):
                        yield {"self": {"_State__s": list(va)}, key2: {"_State__s": list(vb)}}
    return gen


def replay_db(inp):
    import math
    from lightworks.sdk.utils.conversion import db_loss_to_decimal, decimal_to_db_loss
    x = inp["loss"]
    x = x["float"] if isinstance(x, dict) else float(x)
    d = db_loss_to_decimal(x)
    if not (0 <= d < 1 or (abs(x) > 150 and d == 1.0)):
        return f"db_loss_to_decimal({x}) = {d} not in [0,1)"
    if abs(x) < 100 and not math.isclose(decimal_to_db_loss(d), abs(x), rel_tol=1e-9, abs_tol=1e-9):
        return f"decimal_to_db_loss(db_loss_to_decimal({x})) = {decimal_to_db_loss(d)}"
    return None


CONTRACTS = [
    Contract(
        target=f"{F}:State.__add__",
        types={"self": STATE, "value": [STATE, "opaque:int"]},
        requires=[],
        modifies=[],
        ensures={
            "concat": "len(result) == len(self.__s) + len(value.__s) and "
                      "forall(t, implies(0 <= t and t < len(result), at(result,t) == (at(self.__s,t) if t < len(self.__s) else at(value.__s, t - len(self.__s)))))",
            "operands_unchanged": "self.__s == old(self.__s) and value.__s == old(value.__s)",
        },
        raises={"TypeError": "not isinstance(value, State)"},
        replay=replay_add,
        props=["C18"],
    ),
    Contract(
        target=f"{F}:State.merge",
        types={"self": STATE, "merge_state": STATE},
        requires=[],
        modifies=[],
        ensures={
            "pointwise": "len(result) == len(self.__s) and forall(t, implies(0 <= t and t < len(result), at(result,t) == at(self.__s,t) + at(merge_state.__s,t)))",
        },
        raises={"ValueError": "len(self.__s) != len(merge_state.__s)"},
        replay=replay_merge,
        props=["C18"],
    ),
    Contract(
        target=f"{F}:State.__eq__",
        types={"self": STATE, "value": [STATE, "opaque:int"]},
        requires=[],
        modifies=[],
        ensures={
            "list_equality": "result == (isinstance(value, State) and len(self.__s) == len(value.__s) and "
                             "forall(t, implies(0 <= t and t < len(self.__s), at(self.__s,t) == at(value.__s,t))))",
        },
        raises={},
        replay=replay_eq,
        props=["C18"],
    ),
    Contract(
        target=f"{F}:State.s", kind="getter",
        types={"self": STATE},
        requires=[],
        modifies=[],
        ensures={"copy": "fresh_ref(result) and result == self.__s"},
        result_type="list[int]",
        raises={},
        props=["C18", "C08"],
    ),
    Contract(
        target=f"{F}:State.n_photons", kind="getter",
        types={"self": STATE},
        requires=[],
        modifies=[],
        ensures={"sum": "result == lsum(self.__s)"},
        result_type="int",
        raises={},
        props=["C18"],
    ),
    Contract(
        target=f"{F}:State.__len__",
        types={"self": STATE},
        requires=[],
        modifies=[],
        ensures={"len": "result == len(self.__s)"},
        result_type="int",
        raises={},
        props=["C18"],
    ),
    Contract(
        target=f"{F}:State.__getitem__",
        types={"self": STATE, "indices": "int"},
        requires=["0 <= indices and indices < len(self.__s)"],
        modifies=[],
        ensures={"item": "result == at(self.__s, indices)"},
        result_type="int",
        raises={},
        props=["C18"],
    ),
    Contract(
        target=f"{F}:State.__setitem__",
        types={"self": STATE, "key": "int", "value": "int"},
        requires=[],
        modifies=[],
        ensures={},
        raises={"StateError": "True"},
        exc_frame=True,
        props=["C18"],
    ),
    Contract(
        target=f"{F}:State.s", kind="setter",
        types={"self": STATE, "value": "int"},
        requires=[],
        modifies=[],
        ensures={},
        raises={"StateError": "True"},
        exc_frame=True,
        props=["C18"],
    ),
    Contract(
        target=f"{F}:State._validate",
        types={"self": STATE},
        requires=[],
        modifies=[],
        loops={"self.__s": Loop(invariant=["forall(t, implies(0 <= t and t < _k, at(self.__s,t) >= 0))"])},
        ensures={"nonneg": "forall(t, implies(0 <= t and t < len(self.__s), at(self.__s,t) >= 0))"},
        raises={"ValueError": "exists(t, 0 <= t and t < len(self.__s) and at(self.__s,t) < 0)"},
        props=["C18", "C03"],
    ),
    Contract(
        target=f"{CONV}:db_loss_to_decimal",
        types={"loss": "real"},
        requires=[],
        modifies=[],
        ensures={"range": "0 <= result and result < 1",
                 "value": "result == 1 - 10 ** ((0 - abs(loss)) / 10)"},
        raises={},
        replay=replay_db,
        props=["C18"],
    ),
    Contract(
        target=f"{CONV}:decimal_to_db_loss",
        types={"loss": "real"},
        requires=[],
        modifies=[],
        ensures={"nonneg": "result >= 0", "value": "result == 0 - 10 * np.log10(1 - loss)"},
        raises={"ValueError": "loss < 0 or loss >= 1"},
        props=["C18"],
    ),
]
CONTRACTS[0].enum = enum_pairs("value")
CONTRACTS[1].enum = enum_pairs("merge_state")
CONTRACTS[2].enum = enum_pairs("value")


# ---------------------------------------------------------------------------------------------- State.__init__, process_random_seed (C18)
def replay_state_init(inp):
    import lightworks as lw
    lst = list(inp["state"])
    s = lw.State(lst)
    if s.s != list(inp["state"]):
        return f"State({inp['state']}).s = {s.s}"
    lst.append(99)
    if s.s != list(inp["state"]):
        return f"State(lst) shares the caller's list: after lst.append(99) the state is {s}"
    return None


def enum_state_init():
    for l in ([], [0], [1, 2], [0, 0, 3]):
        yield {"state": l}


STATE_INIT = Contract(
    target=f"{F}:State.__init__",
    types={"self": "obj:State{__s:none}", "state": "list[int]"},
    requires=[], modifies=["self.__s"],
    ensures={
        # the state owns its occupation list: the stored list is a NEW list with the given entries, and the argument is untouched
        "owns_its_list": "fresh_ref(self.__s)",
        "entries": "len(self.__s) == len(state) and forall(t, implies(0 <= t and t < len(state), at(self.__s, t) == at(state, t)))",
        "argument_unchanged": "len(state) == old(len(state)) and forall(t, implies(0 <= t and t < len(state), at(state, t) == old(at(state, t))))",
    },
    raises={}, replay=replay_state_init, props=["C18", "C11"],
)
STATE_INIT.enum = enum_state_init
STATE_INIT.no_callee = True       # constructor calls inside other functions inline the real __init__


def replay_seed(inp):
    import numpy as np
    from lightworks.sdk.utils.random_utils import process_random_seed
    s = inp["seed"]
    if isinstance(s, dict):
        return None
    try:
        got = process_random_seed(s)
        raised = None
    except TypeError:
        got, raised = None, "TypeError"
    ok_val = s is None or (isinstance(s, (int, float)) and not isinstance(s, bool) and float(s).is_integer())
    if ok_val and raised:
        return f"process_random_seed({s!r}) raised TypeError for an integral seed"
    if not ok_val and not raised:
        return f"process_random_seed({s!r}) accepted a value that is no integer and returned {got!r}"
    if ok_val and (got != (None if s is None else int(s)) or (got is not None and type(got) is not int)):
        return f"process_random_seed({s!r}) returned {got!r} of type {type(got).__name__}: not the int value of the seed"
    return None


def enum_seed():
    for s in (None, 0, 1, 7, -3, 2.0, 31.0, 2.5, True, False, "3", "x"):
        yield {"seed": s}


SEED = Contract(
    target="lightworks/sdk/utils/random_utils.py:process_random_seed",
    types={"seed": ["int", "none", "bool", "real", "opaque:str"]},
    requires=[], modifies=[],
    ensures={
        # what comes back is None, or the seed as an int (never the unconverted float / bool)
        "none_stays_none": "implies(is_none(seed), is_none(result))",
        "int_value": "implies(not is_none(seed), not is_none(result) and isinstance(result, int) and not isinstance(result, bool) and same_value(result, seed))",
    },
    raises={"TypeError": "not (is_none(seed) or (numeric(seed) and seed == int(seed)))"},
    replay=replay_seed, props=["C18", "C07"],
)
SEED.enum = enum_seed
CONTRACTS += [STATE_INIT, SEED]
