"""Contracts: AnnotatedState hands out copies of its per-mode label lists (C18)."""
from vf.pyvc.engine import Contract

F = "lightworks/emulator/state/annotated_state.py"
ASTATE = "obj:AnnotatedState{__s:clist[2:list[int]]}"


def replay_item(inp):
    from lightworks.emulator.state import AnnotatedState
    s = inp["self"]["_AnnotatedState__s"]
    i = inp["indices"]
    if not isinstance(i, int) or not 0 <= i < len(s):
        return None
    a = AnnotatedState([list(m) for m in s])
    before = a.s
    got = a[i]
    if got != sorted(s[i]):
        return f"AnnotatedState({s})[{i}] = {got}"
    got.append(99)
    if a.s != before:
        return f"AnnotatedState({s})[{i}] is the internal list: appending to it changed the state to {a}"
    return None


def enum_item():
    for s in ([[0], [1]], [[], [2, 0]], [[1, 1], []]):
        for i in (0, 1):
            yield {"self": {"_AnnotatedState__s": s}, "indices": i}


ITEM = Contract(
    target=f"{F}:AnnotatedState.__getitem__",
    types={"self": ASTATE, "indices": ["const:0", "const:1"]},
    requires=[], modifies=[],
    ensures={
        # the labels of the mode, in a list of its own: nothing the caller does to it can reach the state
        "a_copy": "fresh_ref(result)",
        "labels_of_the_mode": "len(result) == len(self.__s[indices]) and forall(t, implies(0 <= t and t < len(result), at(result, t) == at(self.__s[indices], t)))",
    },
    raises={}, replay=replay_item, props=["C18"],
)
ITEM.enum = enum_item
CONTRACTS = [ITEM]
