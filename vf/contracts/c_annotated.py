"""Contracts: AnnotatedState hands out copies of its per-mode label lists (C18)."""
from vf.pyvc.engine import Contract

F = "lightworks/emulator/state/annotated_state.py"
ASTATE = "obj:AnnotatedState{__s:clist[2:list[int]]}"


def replay_item(inp):
    from lightworks.emulator.state import AnnotatedState
    s = inp["self"]["_AnnotatedState__s"]
    i = inp["indices"]
    if not isinstance(i, int) or not 0 <= i < len(s):
        return None
    a = AnnotatedState([list(m) for m in s])
    before = a.s
    got = a[i]
    if got != sorted(s[i]):
        return f"AnnotatedState({s})[{i}] = {got}"
    got.append(99)
    if a.s != before:
        return f"AnnotatedState({s})[{i}] is the internal list: appending to it changed the state to {a}"
    return None


def enum_item():
    for s in ([[0], [1]], [[], [2, 0]], [[1, 1], []]):
        for i in (0, 1):
            yield {"self": {"_AnnotatedState__s": s}, "indices": i}


ITEM = Contract(
    target=f"{F}:AnnotatedState.__getitem__",
    types={"self": ASTATE, "indices": ["const:0", "const:1"]},
    requires=[], modifies=[],
    ensures={
        # the labels of the mode, in a list of its own: nothing the caller does to it can reach the state
        "a_copy": "fresh_ref(result)",
        "labels_of_the_mode": "len(result) == len(self.__s[indices]) and forall(t, implies(0 <= t and t < len(result), at(result, t) == at(self.__s[indices], t)))",
    },
    raises={}, replay=replay_item, props=["C18"],
)
ITEM.enum = enum_item
CONTRACTS = [ITEM]


# ---------------------------------------------------------------------------------------------- AnnotatedState.__init__ / .s (C18)
def replay_init(inp):
    from lightworks.emulator.state import AnnotatedState
    st = inp["state"]
    if not isinstance(st, list) or not all(isinstance(m, list) and all(isinstance(x, int) for x in m) for m in st):
        return None
    src = [list(m) for m in st]
    a = AnnotatedState(src)
    if src != [list(m) for m in st]:
        return f"AnnotatedState({st}) changed its argument to {src}"
    if a.s != [sorted(m) for m in st]:
        return f"AnnotatedState({st}).s = {a.s}: not the sorted label lists"
    for m in src:
        m.append(7)
    if a.s != [sorted(m) for m in st]:
        return f"AnnotatedState({st}) shares a per-mode list with its argument: appending to the argument's lists changed the state to {a}"
    return None


def enum_init():
    import itertools
    modes = [[], [0], [2], [1, 0], [0, 0], [2, 0, 1]]
    for k in (1, 2):
        for st in itertools.product(modes, repeat=k):
            yield {"state": [list(m) for m in st]}


def _init(k):
    stored = [f"self.__s[{i}]" for i in range(k)]
    given = [f"state[{i}]" for i in range(k)]
    c = Contract(
        target=f"{F}:AnnotatedState.__init__",
        types={"self": "obj:AnnotatedState{__s:none}", "state": f"clist[{k}:list[int]]"},
        requires=[], modifies=["self.__s"],
        ensures={
            "one_list_per_mode": f"len(self.__s) == {k}",
            # the state owns every per-mode list (whatever the number of labels on the mode): nothing the caller does to the argument reaches it
            "owns_its_lists": " and ".join([f"fresh_ref({s})" for s in stored] + ["fresh_ref(self.__s)"]),
            "same_number_of_labels": " and ".join(f"len({s}) == len({g})" for s, g in zip(stored, given)),
            "labels_in_order": " and ".join(f"forall((t,u), implies(0 <= t and t < u and u < len({s}), at({s},t) <= at({s},u)))" for s in stored),
            "argument_unchanged": " and ".join(f"len({g}) == old(len({g})) and forall(t, implies(0 <= t and t < len({g}), at({g},t) == old(at({g},t))))" for g in given),
        },
        raises={}, replay=replay_init, props=["C18"],
    )
    c.enum = enum_init
    c.no_callee = True
    c.label = f"{k} mode(s)"
    return c


def replay_s(inp):
    from lightworks.emulator.state import AnnotatedState
    s = inp["self"]["_AnnotatedState__s"]
    a = AnnotatedState([list(m) for m in s])
    got = a.s
    if got != [sorted(m) for m in s]:
        return f"AnnotatedState({s}).s = {got}"
    for m in got:
        m.append(5)
    got.append([1])
    if a.s != [sorted(m) for m in s]:
        return f"AnnotatedState({s}).s hands out internal lists: editing the result changed the state to {a}"
    return None


def enum_s():
    for s in ([[0], [1]], [[], [2, 0]], [[1, 1], []], [[], []]):
        yield {"self": {"_AnnotatedState__s": s}}


S_GET = Contract(
    target=f"{F}:AnnotatedState.s", kind="getter",
    types={"self": ASTATE},
    requires=[], modifies=[],
    ensures={
        "copies": "fresh_ref(result) and fresh_ref(result[0]) and fresh_ref(result[1]) and len(result) == 2",
        "same_labels": " and ".join(f"len(result[{i}]) == len(self.__s[{i}]) and forall(t, implies(0 <= t and t < len(result[{i}]), at(result[{i}], t) == at(self.__s[{i}], t)))" for i in (0, 1)),
    },
    raises={}, replay=replay_s, props=["C18"],
)
S_GET.enum = enum_s
S_GET.no_callee = True
CONTRACTS += [_init(1), _init(2), S_GET]


# ---------------------------------------------------------------------------------------------- n_photons / merge / __add__ (C18)
NPH = Contract(
    target=f"{F}:AnnotatedState.n_photons", kind="getter",
    types={"self": ASTATE},
    requires=[], modifies=[],
    ensures={"total_number_of_labels": "result == len(self.__s[0]) + len(self.__s[1])"},
    raises={}, props=["C18"],
)
NPH.no_callee = True

MERGE = Contract(
    target=f"{F}:AnnotatedState.merge",
    types={"self": ASTATE, "merge_state": [ASTATE, "obj:AnnotatedState{__s:clist[1:list[int]]}"]},
    requires=[], modifies=[],
    ensures={
        "a_new_state": "fresh_ref(result) and fresh_ref(result.__s) and fresh_ref(result.__s[0]) and fresh_ref(result.__s[1]) and len(result.__s) == 2",
        # mode-wise union of the label multisets: as many labels per mode as both states hold there together, kept in order
        "labels_per_mode_add_up": "len(result.__s[0]) == len(self.__s[0]) + len(merge_state.__s[0]) and len(result.__s[1]) == len(self.__s[1]) + len(merge_state.__s[1])",
        "labels_in_order": " and ".join(f"forall((t,u), implies(0 <= t and t < u and u < len(result.__s[{i}]), at(result.__s[{i}],t) <= at(result.__s[{i}],u)))" for i in (0, 1)),
        "operands_unchanged": " and ".join(f"len({o}.__s[{i}]) == old(len({o}.__s[{i}]))" for o in ("self", "merge_state") for i in (0, 1)),
    },
    raises={"ValueError": "len(merge_state.__s) != 2"},
    props=["C18"],
)
MERGE.no_callee = True

ADD = Contract(
    target=f"{F}:AnnotatedState.__add__",
    types={"self": ASTATE, "value": [ASTATE, "int"]},
    requires=[], modifies=[],
    ensures={
        "a_new_state": "fresh_ref(result) and fresh_ref(result.__s) and len(result.__s) == 4 and " + " and ".join(f"fresh_ref(result.__s[{i}])" for i in range(4)),
        "modes_concatenated": " and ".join([f"len(result.__s[{i}]) == len(self.__s[{i}])" for i in (0, 1)] + [f"len(result.__s[{i + 2}]) == len(value.__s[{i}])" for i in (0, 1)]),
    },
    raises={"TypeError": "not isinstance(value, AnnotatedState)"},
    props=["C18"],
)
ADD.no_callee = True
CONTRACTS += [NPH, MERGE, ADD]
