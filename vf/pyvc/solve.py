"""Discharging obligations: z3 (resource-limited, deterministic), cvc5 on unknown, finite
instantiation for counter-models; vacuity guards."""
from __future__ import annotations

import itertools
import subprocess
import tempfile
import time
import traceback
from fractions import Fraction

import z3

from .engine import Contract, Executor, Obligation
from .values import AList, ADict, ASet, CDict, CList, CVal, Mat, Obj, Opaque, Ref, Unsupported

RLIMIT_QUICK = 30_000_000      # z3 resource units (deterministic; ~ 10-20 s worst case)
RLIMIT_THOROUGH = 200_000_000


def variants(types):
    """expand alternatives: {'a': ['int','real'], 'b': 'int'} -> [({'a':'int','b':'int'}, 'a=int'), ...]"""
    keys = [k for k, v in types.items() if isinstance(v, (list, tuple))]
    def _nm(c):
        return getattr(c, "label", None) or (c if isinstance(c, str) else getattr(c, "__name__", "builder"))
    if not keys:
        return [(dict(types), "")]
    out = []
    for combo in itertools.product(*[types[k] for k in keys]):
        t = dict(types)
        t.update(dict(zip(keys, combo)))
        out.append((t, ",".join(f"{k}={_nm(c)}" for k, c in zip(keys, combo))))
    return out


def check(hyps, goal, rlimit, extra=()):
    s = z3.Solver()
    s.set("rlimit", rlimit)
    s.add(*hyps)
    s.add(*extra)
    s.add(z3.Not(goal))
    t0 = time.time()
    r = s.check()
    return r, s, (time.time() - t0) * 1000


def cvc5_check(solver, timeout_s=20):
    """second back end on the same SMT-LIB text"""
    try:
        text = "(set-logic ALL)\n" + solver.to_smt2()
        with tempfile.NamedTemporaryFile("w", suffix=".smt2", delete=False, dir=_scratch()) as f:
            f.write(text)
            path = f.name
        try:
            p = subprocess.run(["/usr/bin/cvc5", "--tlimit", str(timeout_s * 1000), path], capture_output=True,
                               text=True, timeout=timeout_s + 5)
            out = p.stdout.strip().splitlines()
            return out[0] if out else "unknown"
        finally:
            import os
            os.unlink(path)
    except Exception:  # noqa: BLE001
        return "unknown"


def _scratch():
    import os
    d = os.environ.get("VERIF_SCRATCH") or os.path.join(os.path.dirname(os.path.dirname(os.path.dirname(__file__))), ".cache")
    os.makedirs(d, exist_ok=True)
    return d


def size_terms(ob):
    """symbolic sizes of the inputs (list lengths, dict sizes, matrix dims) for finite instantiation"""
    out = []
    seen = set()

    def walk(v):
        if isinstance(v, Ref):
            if v.id in seen:
                return
            seen.add(v.id)
            h = ob.heap0.get(v.id)
            if isinstance(h, AList):
                out.append(h.len)
            elif isinstance(h, ADict):
                out.append(h.n)
            elif isinstance(h, ASet):
                out.append(h.n)
            elif isinstance(h, Mat):
                out.extend([h.nr, h.nc])
            elif isinstance(h, Obj):
                for _, x in h.fields:
                    walk(x)
            elif isinstance(h, CList):
                for x in h.items:
                    walk(x)
            elif isinstance(h, CDict):
                for _, x in h.items:
                    walk(x)
        elif isinstance(v, tuple):
            for x in v:
                walk(x)
    for v in ob.inputs.values():
        walk(v)
    return [t for t in out if not z3.is_int_value(z3.simplify(t))]


def _int_consts(ob):
    """the integer-valued scalar inputs (for the small-model preference)"""
    out = []

    def walk(v, seen):
        if isinstance(v, z3.ExprRef) and z3.is_const(v) and v.sort() == z3.IntSort() and v.decl().kind() == z3.Z3_OP_UNINTERPRETED:
            out.append(v)
        elif isinstance(v, Ref) and v.id not in seen:
            seen.add(v.id)
            h = ob.heap0.get(v.id)
            if isinstance(h, Obj):
                for _, x in h.fields:
                    walk(x, seen)
            elif isinstance(h, CList):
                for x in h.items:
                    walk(x, seen)
        elif isinstance(v, tuple):
            for x in v:
                walk(x, seen)
    for v in ob.inputs.values():
        walk(v, set())
    return out


def model_value(m, v, heap, depth=0):
    """concretise a symbolic input under a model (JSON-able)"""
    def num(x):
        x = m.eval(x, model_completion=True)
        if z3.is_int_value(x):
            return x.as_long()
        if z3.is_rational_value(x):
            fr = x.as_fraction()
            return fr.numerator if fr.denominator == 1 else {"frac": [fr.numerator, fr.denominator], "float": float(fr)}
        if z3.is_true(x):
            return True
        if z3.is_false(x):
            return False
        if z3.is_algebraic_value(x):
            return {"float": float(x.approx(20).as_fraction())}
        return str(x)
    if v is None or isinstance(v, (str, int, bool)):
        return v
    if isinstance(v, Opaque):
        return {"opaque": v.tag}
    if isinstance(v, CVal):
        return {"re": num(v.re), "im": num(v.im)}
    if isinstance(v, z3.ExprRef):
        return num(v)
    if isinstance(v, tuple):
        return [model_value(m, x, heap, depth + 1) for x in v]
    if isinstance(v, Ref):
        h = heap[v.id]
        if isinstance(h, AList):
            n = num(h.len)
            n = n if isinstance(n, int) else 0
            return [num(z3.Select(h.arr, k)) for k in range(min(max(n, 0), 12))]
        if isinstance(h, CList):
            return [model_value(m, x, heap, depth + 1) for x in h.items]
        if isinstance(h, ADict):
            n = num(h.n)
            n = n if isinstance(n, int) else 0
            out = []
            for k in range(min(max(n, 0), 12)):
                key = num(z3.Select(h.karr, k))
                out.append([key, num(z3.Select(h.val, z3.IntVal(key) if isinstance(key, int) else z3.Select(h.karr, k)))])
            return {"dict": out}
        if isinstance(h, CDict):
            return {"dict": [[k, model_value(m, x, heap, depth + 1)] for k, x in h.items]}
        if isinstance(h, ASet):
            return {"set": "?"}
        if isinstance(h, Mat):
            nr, nc = num(h.nr), num(h.nc)
            if isinstance(nr, int) and isinstance(nc, int) and nr <= 6 and nc <= 6:
                return {"mat": [[[num(z3.Select(h.re, i, j)), num(z3.Select(h.im, i, j))] for j in range(nc)] for i in range(nr)]}
            return {"mat": f"{nr}x{nc}"}
        if isinstance(h, Obj):
            return {"class": h.cls, **{k: model_value(m, x, heap, depth + 1) for k, x in h.fields}}
    return repr(v)


def discharge(ob: Obligation, rlimit):
    """-> dict(result in proved/refuted/unknown, backend, ms, model)

    1. general query with a small budget; 2. if open: finite instantiation (a sat answer on a special case is a
    genuine counter-model of the obligation); 3. general query with the full budget; 4. cvc5 on the same text."""
    backend = "z3-" + z3.get_version_string()
    r, s, ms = check(ob.hyps, ob.goal, min(rlimit, 3_000_000))
    model = None
    if r == z3.unsat:
        return dict(result="proved", backend=backend, ms=round(ms, 1))
    if r == z3.sat:
        model = s.model()
        # prefer a small counter-model (replayable natively): re-solve with all input sizes bounded; the first sat stays valid if none is found
        sizes = size_terms(ob)
        ints = _int_consts(ob)
        for b, ib in ((2, 4), (3, 8), (3, None), (5, None)):
            extra = [z3.And(t >= 0, t <= b) for t in sizes] + ([z3.And(v >= -ib, v <= ib) for v in ints] if ib is not None else [])
            if not extra:
                continue
            r2, s2, ms2 = check(ob.hyps, ob.goal, 3_000_000, extra=extra)
            ms += ms2
            if r2 == z3.sat:
                model = s2.model()
                backend += f"+small-model(size<={b}" + (f",|int|<={ib})" if ib is not None else ")")
                break
    else:
        sizes = size_terms(ob)
        if sizes:
            for b in range(0, 4):
                r2, s2, ms2 = check(ob.hyps, ob.goal, 3_000_000, extra=[t == b for t in sizes])
                ms += ms2
                if r2 == z3.sat:
                    r, model = z3.sat, s2.model()
                    backend += f"+finite-instantiation(size={b})"
                    break
            if model is None:
                for b in range(1, 4):
                    r2, s2, ms2 = check(ob.hyps, ob.goal, 3_000_000, extra=[z3.And(t >= 0, t <= b) for t in sizes])
                    ms += ms2
                    if r2 == z3.sat:
                        r, model = z3.sat, s2.model()
                        backend += f"+finite-instantiation(size<={b})"
                        break
        if model is None:
            r, s, ms3 = check(ob.hyps, ob.goal, rlimit)
            ms += ms3
            if r == z3.unsat:
                return dict(result="proved", backend=backend, ms=round(ms, 1))
            if r == z3.sat:
                model = s.model()
        if model is None:
            c = cvc5_check(s)
            if c == "unsat":
                return dict(result="proved", backend="cvc5-1.0.3 (after z3 unknown)", ms=round(ms, 1))
    if model is not None:
        mv = {k: model_value(model, v, ob.heap0) for k, v in ob.inputs.items()}
        return dict(result="refuted", backend=backend, ms=round(ms, 1), model=mv)
    return dict(result="unknown", backend=backend, ms=round(ms, 1), reason=str(s.reason_unknown()))


def discharge_isolated(ob, rlimit, wall_s):
    """discharge() in a forked child with a wall-clock limit enforced by the parent: z3's own timeout / rlimit are not
    always honoured inside nlsat.  A killed query is `unknown` (never a violation)."""
    if ob.goal is None:
        # a clause that could not be evaluated on this exit (e.g. it reads a field of something that is no longer an object): undecided for this clause
        # only - the other clauses of the contract are still decided, and the contract as a whole is demoted to its native fall-back
        return dict(result="unknown", backend="pyvc", ms=0, reason=ob.note or "clause not evaluable on this exit")
    import json
    import os
    import select
    import signal
    r, w = os.pipe()
    pid = os.fork()
    if pid == 0:
        try:
            os.close(r)
            try:
                res = discharge(ob, rlimit)
            except Exception as e:  # noqa: BLE001
                res = dict(result="unknown", backend="z3", ms=0, reason=f"{type(e).__name__}: {e}")
            data = json.dumps(res, default=str).encode()
            while data:
                n = os.write(w, data)
                data = data[n:]
        finally:
            os._exit(0)
    os.close(w)
    buf = b""
    deadline = time.time() + wall_s
    killed = False
    while True:
        left = deadline - time.time()
        if left <= 0:
            killed = True
            break
        rd, _, _ = select.select([r], [], [], left)
        if not rd:
            killed = True
            break
        chunk = os.read(r, 65536)
        if not chunk:
            break
        buf += chunk
    os.close(r)
    if killed:
        try:
            os.kill(pid, signal.SIGKILL)
        except ProcessLookupError:
            pass
    os.waitpid(pid, 0)
    if killed or not buf:
        return dict(result="unknown", backend="z3-" + z3.get_version_string(), ms=round(wall_s * 1000), reason=f"wall-clock limit {wall_s}s (query killed)")
    return json.loads(buf.decode())


def verify_contract(index, registry, c: Contract, tier="quick"):
    """run pyvc on one contract; returns a result record (never raises)"""
    rlimit = RLIMIT_QUICK if tier == "quick" else RLIMIT_THOROUGH
    rec = dict(target=c.target, kind=c.kind, obligations=[], status="ok", inlined=[], used_contracts=[], assumptions=[],
               paths=0, covers=0, variants=0)
    try:
        rel, cls, cands = index.find(c.target)
        fn = Executor._filter_kind(cands, c.kind)[c.ordinal]
        rec["source_hash"] = index.func_hash(fn)
        rec["lines"] = [fn.lineno, fn.end_lineno]
    except Exception as e:  # noqa: BLE001
        rec["status"] = "missing"
        rec["error"] = f"{type(e).__name__}: {e}"
        return rec
    t0 = time.time()
    types = dict(c.types)
    if tier == "quick" and c.types_quick:
        types.update(c.types_quick)
        rec["note"] = "quick tier: reduced set of type variants " + str(c.types_quick)
    for vt, vname in variants(types):
        rec["variants"] += 1
        ex = Executor(index, registry, c, vt, vname)
        try:
            obls = ex.explore()
        except Unsupported as e:
            rec["status"] = "outside-subset"
            rec["error"] = str(e)
            return rec
        except Exception as e:  # noqa: BLE001
            rec["status"] = "crash"
            rec["error"] = f"{type(e).__name__}: {e}\n" + traceback.format_exc()[-1500:]
            return rec
        rec["paths"] += ex.paths
        rec["inlined"] = sorted(set(rec["inlined"]) | ex.inlined)
        rec["used_contracts"] = sorted(set(rec["used_contracts"]) | ex.used_contracts)
        rec["assumptions"] = sorted(set(rec["assumptions"]) | ex.assumptions)
        # vacuity: the precondition is satisfiable and at least one exit is reachable
        s = z3.Solver()
        s.set("rlimit", rlimit // 4)
        s.add(*ex.pc0)
        pre = s.check()
        if pre == z3.unsat:
            rec["status"] = "vacuous"
            rec["error"] = f"precondition unsatisfiable in variant [{vname}]"
            return rec
        ncov = 0
        for kind, pc in ex.cover:
            s = z3.Solver()
            s.set("rlimit", rlimit // 8)
            s.add(*pc)
            if s.check() != z3.unsat:
                ncov += 1
        if ncov == 0:
            rec["status"] = "vacuous"
            rec["error"] = f"no reachable exit in variant [{vname}]"
            return rec
        rec["covers"] += ncov
        rec["dead_paths"] = rec.get("dead_paths", 0) + len(ex.dead_ends)
        for ob in obls:
            d = discharge_isolated(ob, rlimit, 40 if tier == "quick" else 240)
            d.update(name=ob.name, kind=ob.kind, line=ob.line, note=ob.note)
            rec["obligations"].append(d)
    rec["wall_ms"] = round((time.time() - t0) * 1000)
    if rec.get("dead_paths") and all(o["result"] == "proved" for o in rec["obligations"]):
        rec["status"] = "vacuous"
        rec["error"] = f"{rec['dead_paths']} path(s) ended on contradictory assumptions although no obligation failed (inconsistent contract?)"
    if not rec["obligations"]:
        rec["status"] = "vacuous"
        rec["error"] = "zero obligations generated"
    return rec
