"""pyvc: verification-condition generation by symbolic execution of the real AST.

The function named by a contract is located in /repo's current source, and its
`ast.FunctionDef` is executed over the value model of values.py.  Paths are
enumerated by re-execution with a decision prefix; loops with a symbolic trip
count are cut by the contract's invariant; calls are resolved against callee
contracts (modular) or inlined from the callee's real source (reported).
Every obligation is a pair (hypotheses, goal) for the solver layer.
"""
from __future__ import annotations

import ast
from dataclasses import dataclass, field
from fractions import Fraction

import z3

from .values import *  # noqa: F403
from .values import (AList, ADict, ASet, CDict, CList, CVal, GList, I, R, B, Mat, MatA, Obj, Opaque, RangeV, Ref,
                     Unsupported, fresh, is_bool, is_int, is_real, is_z3, lift, numeric_join, reset_names,
                     sort_of, to_c, to_int, to_real)


class PathEnd(Exception):
    pass


class ReturnEx(Exception):
    def __init__(self, value):
        self.value = value


class RaiseEx(Exception):
    def __init__(self, exc, line):
        self.exc = exc
        self.line = line


class BreakEx(Exception):
    pass


class ContinueEx(Exception):
    pass


@dataclass
class Obligation:
    name: str
    kind: str
    hyps: list
    goal: object
    line: int
    target: str
    variant: str = ""
    path: tuple = ()
    inputs: dict = field(default_factory=dict)   # name -> symbolic input value (for model extraction)
    heap0: dict = field(default_factory=dict)
    note: str = ""


@dataclass
class Loop:
    invariant: list = field(default_factory=list)
    ghost: dict = field(default_factory=dict)       # name -> (init expr, step expr)
    decreases: str | None = None
    keep_len: bool = True


@dataclass
class Contract:
    target: str                                      # 'lightworks/...py:Class.fn'
    types: dict = field(default_factory=dict)        # arg -> type string or list of alternatives
    requires: list = field(default_factory=list)
    ensures: dict = field(default_factory=dict)      # label -> spec expr
    raises: dict | None = None                       # exc class -> spec expr over the pre-state (iff)
    modifies: list | None = None                     # access paths; None = not checked
    exc_frame: bool = False                          # on a raising exit everything reachable from the arguments is unchanged
    loops: dict = field(default_factory=dict)        # ast.unparse(iter or test) -> Loop
    ghost_out: list = field(default_factory=list)
    inline: list = field(default_factory=list)       # callee names that may be inlined
    ordinal: int = 0                                 # which definition when the name is defined several times (multimethod)
    replay: object = None                            # python callable(inputs) -> None | str
    props: list = field(default_factory=list)
    defs: dict = field(default_factory=dict)         # extra spec-level names -> python callables (ex, *vals)
    result_type: str | None = None                   # for modular use: type of the havocked result
    kind: str = "function"                           # 'function' | 'getter' | 'setter'
    assumes: list = field(default_factory=list)      # named assumptions used by this contract
    pure: bool = False
    modular: list | None = None                      # labels of the ensures clauses usable at call sites (None = all)
    reads: list | None = None                        # for pure functions: the access paths the result depends on (memoisation key)
    types_quick: dict | None = None                  # overrides of `types` in the quick tier (fewer type variants); thorough runs all


class Executor:
    def __init__(self, index, registry, contract, variant_types, variant_name="", rlimit=2_000_000):
        self.ix = index
        self.registry = registry
        self.c = contract
        self.vt = variant_types
        self.variant = variant_name
        self.rlimit = rlimit
        rel, cls, cands = index.find(contract.target)
        self.rel, self.cls = rel, cls
        cands = self._filter_kind(cands, contract.kind)
        self.fn = cands[contract.ordinal]
        self.obls = []
        self.exits = []           # (kind, pc, env, heap, value/exc, line)
        self.inlined = set()
        self.used_contracts = set()
        self.assumptions = set(contract.assumes)
        self.cover = []
        self.paths = 0
        self.unsupported = None
        self.dead_ends = []

    @staticmethod
    def _filter_kind(cands, kind):
        def decos(n):
            return [ast.unparse(d) for d in n.decorator_list]
        if kind == "setter":
            return [n for n in cands if any(d.endswith(".setter") for d in decos(n))]
        out = [n for n in cands if not any(d.endswith(".setter") for d in decos(n))]
        return out

    # ------------------------------------------------------------------ paths
    def explore(self, max_paths=4000):
        self.work = [[]]
        while self.work:
            prefix = self.work.pop()
            self.paths += 1
            if self.paths > max_paths:
                raise Unsupported("path explosion")
            self.run_path(prefix)
        return self.obls

    def run_path(self, prefix):
        reset_names()
        self.prefix = list(prefix)
        self.n_replay = len(prefix)
        self.di = 0
        self.pc = []
        self.facts = []          # definitional facts about fresh symbols (hold on every path, never truncated by guards)
        self.heap = {}
        self.prov = {}
        self.next_ref = 0
        self.ghost = {}
        self.cls_stack = [self.cls]
        self.depth = 0
        env = self.make_inputs()
        self.inputs = dict(env)
        self.env0 = dict(env)
        self.param_names = {a.arg for a in self.fn.args.args + self.fn.args.kwonlyargs + self.fn.args.posonlyargs}
        # preconditions
        for r in self.c.requires:
            self.pc.append(self.spec(r, env))
        self.heap0 = dict(self.heap)
        self.pc0 = list(self.pc)
        try:
            try:
                self.exec_block(self.fn.body, env)
                ret = None
            except ReturnEx as r:
                ret = r.value
            self.on_return(env, ret)
        except RaiseEx as r:
            self.on_raise(env, r)
        except PathEnd:
            pass

    def fact(self, *fs):
        for f in fs:
            if not any(f.eq(q) for q in self.facts):
                self.facts.append(f)

    def emitting(self):
        return self.di >= self.n_replay

    def feasible(self, cond):
        s = z3.Solver()
        s.set("rlimit", 200_000)
        s.add(*self.pc)
        s.add(*self.facts)
        s.add(cond)
        return s.check() != z3.unsat

    def determined_int(self, e, limit=12):
        """the integer value of e when the path condition fixes it (solver-decided: one model value c, then `e != c` unsatisfiable); else None.
        Lets loops over containers whose length is fixed by the preconditions (e.g. a dict filled with keys known to be distinct) be unrolled."""
        v = z3.simplify(e) if is_z3(e) else e
        if isinstance(v, int):
            return v
        if z3.is_int_value(v):
            return v.as_long()
        # first from the path condition alone (quantifier-free in most cases; a value fixed by a subset of the assumptions is fixed by all of them),
        # then with the collected facts (callee postconditions, container axioms)
        for stage in (0, 1, 2):
            s = z3.Solver()
            s.set("rlimit", 5_000_000)
            if stage == 0:
                s.add(*[p_ for p_ in self.pc if not _has_quantifier(p_)])      # the quantifier-free part of the path condition (arithmetic on the inputs) usually suffices
            else:
                s.add(*self.pc)
            if stage == 2:
                s.add(*self.facts)
            if s.check() != z3.sat:
                continue
            c = s.model().eval(v, model_completion=True)
            if not z3.is_int_value(c) or not (-limit <= c.as_long() <= limit):
                continue
            s.add(v != c)
            if s.check() == z3.unsat:
                return c.as_long()
        return None

    def decide(self, cond):
        if isinstance(cond, bool):
            return cond
        c = z3.simplify(cond)
        if z3.is_true(c):
            return True
        if z3.is_false(c):
            return False
        if self.di < len(self.prefix):
            choice = self.prefix[self.di]
        else:
            ft = self.feasible(c)
            ff = self.feasible(z3.Not(c))
            if ft and ff:
                self.work.append(self.prefix[: self.di] + [False])
                choice = True
            elif ft:
                choice = True
            elif ff:
                choice = False
            else:
                # neither outcome is feasible: the assumptions collected on this path are contradictory (a failed safety
                # obligation that was then assumed, or an inconsistent callee contract).  Recorded: a run in which this
                # happens while every obligation is proved is reported as vacuous.
                self.dead_ends.append(len(self.obls))
                raise PathEnd()
            self.prefix.append(choice)
        self.di += 1
        self.pc.append(c if choice else z3.Not(c))
        return choice

    def oblige(self, kind, goal, node=None, label="", note=""):
        if not self.emitting():
            return
        line = getattr(node, "lineno", 0) if node is not None else 0
        if isinstance(goal, bool):
            goal = z3.BoolVal(goal)
        name = f"{self.c.target}#{kind}{('.' + label) if label else ''}@L{line}"
        if self.variant:
            name += f"[{self.variant}]"
        self.obls.append(Obligation(name, kind, list(self.pc) + list(self.facts), goal, line, self.c.target, self.variant,
                                    tuple(self.prefix[: self.di]), self.inputs, self.heap0, note))

    # ------------------------------------------------------------------ heap
    def alloc(self, hobj, prov="FRESH"):
        r = Ref(self.next_ref)
        self.next_ref += 1
        self.heap[r.id] = hobj
        self.prov[r.id] = prov
        return r

    def deref(self, v):
        if isinstance(v, Ref):
            return self.heap[v.id]
        return v

    def store(self, ref, hobj, node=None, what="", fieldname=None):
        """heap mutation with frame obligation"""
        p = self.prov.get(ref.id, "FRESH")
        if p != "FRESH" and self.c.modifies is not None and self.depth == 0 or (
                p != "FRESH" and self.c.modifies is not None and self.depth > 0):
            if not self.allowed(p, fieldname):
                self.oblige("frame", False, node, label=p + (("." + fieldname) if fieldname else ""),
                            note=f"write through non-fresh reference {p} ({what}) not covered by modifies={self.c.modifies}")
        self.heap[ref.id] = hobj

    def allowed(self, prov, fieldname):
        mods = self.c.modifies or []
        full = prov + (("." + fieldname) if fieldname else "")
        for m in mods:
            m = self.mangle_path(m)
            if m == full or m == prov:
                return True
            if m.endswith(".*") and (full.startswith(m[:-1]) or prov == m[:-2] or prov.startswith(m[:-1])):
                return True
        return False

    def mangle_path(self, p):
        parts = p.split(".")
        return ".".join(self.mangle(x) for x in parts)

    def mangle(self, attr, cls=None):
        cls = cls or self.cls_stack[-1]
        if attr.startswith("__") and not attr.endswith("__") and cls:
            return f"_{cls.lstrip('_')}{attr}"
        return attr

    # ------------------------------------------------------------------ inputs
    def make_inputs(self):
        env = {}
        args = self.fn.args
        names = [a.arg for a in args.posonlyargs + args.args + args.kwonlyargs]
        defaults = dict(zip(reversed([a.arg for a in args.args]), reversed(args.defaults)))
        for n in names:
            t = self.vt.get(n)
            if t is None:
                if n in defaults:
                    env[n] = self.ev(defaults[n], {})
                    continue
                raise Unsupported(f"no type for argument {n}")
            env[n] = self.make(n, t, prov=n)
        # extra symbolic names (ghost inputs)
        for n, t in self.vt.items():
            if n not in env and not n.startswith("@"):
                env[n] = self.make(n, t, prov=n)
        return env

    def make(self, name, t, prov):
        if callable(t):
            return t(self, name)          # contract-supplied builder of a structured symbolic input
        t = t.strip()
        if t == "int":
            return z3.Int(name)
        if t == "nat":
            v = z3.Int(name)
            self.pc.append(v >= 0)
            return v
        if t == "real":
            return z3.Real(name)
        if t == "bool":
            return z3.Bool(name)
        if t == "none":
            return None
        if t.startswith("'"):
            return t.strip("'")
        if t.startswith("const:"):
            return lift(eval(t[6:], {"Fraction": Fraction}))
        if t.startswith("opaque:"):
            return Opaque(t[7:], 0)
        if t.startswith("list[") and t[5:-1] in ("int", "real", "bool"):
            es = t[5:-1]
            ln = z3.Int(name + ".len")
            self.pc.append(ln >= 0)
            return self.alloc(AList(ln, z3.Array(name + ".arr", I, sort_of(es)), es), prov)
        if t == "glist":
            ln = z3.Int(name + ".len")
            self.pc.append(ln >= 0)
            return self.alloc(GList(ln, ()), prov)
        if t.startswith("clist["):   # clist[3:int] concrete length list
            n, es = t[6:-1].split(":")
            items = tuple(self.make(f"{name}[{k}]", es, f"{prov}[{k}]") for k in range(int(n)))
            return self.alloc(CList(items), prov)
        if t.startswith("dict[int,"):
            vs = t[9:-1]
            d = ADict(z3.Int(name + ".n"), z3.Array(name + ".karr", I, I), z3.Array(name + ".dom", I, B),
                      z3.Array(name + ".val", I, sort_of(vs)), z3.Array(name + ".idx", I, I), vs)
            self.pc += self.wf_dict(d)
            return self.alloc(d, prov)
        if t == "set[int]":
            s = ASet(z3.Array(name + ".dom", I, B), z3.Int(name + ".n"))
            self.pc.append(s.n >= 0)
            return self.alloc(s, prov)
        if t == "mata":
            d = z3.Int(name + ".dim")
            self.pc.append(d >= 0)
            return self.alloc(MatA(("var", name), d), prov)
        if t.startswith("mat"):
            m = Mat(z3.Int(name + ".nr"), z3.Int(name + ".nc"), z3.Array(name + ".re", I, I, R),
                    z3.Array(name + ".im", I, I, R))
            self.pc += [m.nr >= 0, m.nc >= 0]
            if t == "matsq":
                self.pc.append(m.nr == m.nc)
            return self.alloc(m, prov)
        if t.startswith("obj:"):
            # obj:Class{field:type;field:type}
            head, _, rest = t[4:].partition("{")
            fields = []
            if rest:
                for item in _split_top(rest[:-1], ";"):
                    if not item.strip():
                        continue
                    fn_, _, ft = item.partition(":")
                    fn_ = self.mangle(fn_.strip(), head)
                    fields.append((fn_, self.make(f"{name}.{fn_}", ft.strip(), f"{prov}.{fn_}")))
            return self.alloc(Obj(head, tuple(fields)), prov)
        raise Unsupported(f"type {t}")

    def wf_dict(self, d):
        t = z3.Int("t!wf")
        x = z3.Int("x!wf")
        return [d.n >= 0,
                z3.ForAll([t], z3.Implies(z3.And(0 <= t, t < d.n),
                                          z3.And(z3.Select(d.dom, z3.Select(d.karr, t)),
                                                 z3.Select(d.idx, z3.Select(d.karr, t)) == t))),
                z3.ForAll([x], z3.Implies(z3.Select(d.dom, x),
                                          z3.And(0 <= z3.Select(d.idx, x), z3.Select(d.idx, x) < d.n,
                                                 z3.Select(d.karr, z3.Select(d.idx, x)) == x)))]

    # ------------------------------------------------------------------ truthiness / coercions
    def truth(self, v):
        if isinstance(v, bool):
            return z3.BoolVal(v)
        if v is None:
            return z3.BoolVal(False)
        if is_bool(v):
            return v
        if is_int(v) or is_real(v):
            return v != 0
        if isinstance(v, str):
            return z3.BoolVal(len(v) > 0)
        if isinstance(v, tuple):
            return z3.BoolVal(len(v) > 0)
        if isinstance(v, Ref):
            h = self.heap[v.id]
            if isinstance(h, AList):
                return h.len > 0
            if isinstance(h, CList):
                return z3.BoolVal(len(h.items) > 0)
            if isinstance(h, GList):
                return h.prefix + len(h.suffix) > 0
            if isinstance(h, ADict):
                return h.n > 0
            if isinstance(h, CDict):
                return z3.BoolVal(len(h.items) > 0)
            if isinstance(h, ASet):
                return h.n > 0
            if isinstance(h, Obj):
                return z3.BoolVal(True)
        raise Unsupported(f"truth of {v!r}")

    def type_tag(self, v):
        if v is None:
            return {"NoneType"}
        if isinstance(v, bool) or is_bool(v):
            return {"bool", "int", "Number", "Real", "Integral"}
        if is_int(v) or isinstance(v, int):
            return {"int", "Number", "Real", "Integral"}
        if is_real(v):
            return {"float", "Number", "Real"}
        if isinstance(v, CVal):
            return {"complex", "Number", "Complex"}
        if isinstance(v, str):
            return {"str"}
        if isinstance(v, tuple):
            return {"tuple", "Sequence", "Iterable"}
        if isinstance(v, Opaque):
            return {v.tag}
        if isinstance(v, Ref):
            h = self.heap[v.id]
            if isinstance(h, (AList, CList, GList)):
                return {"list", "Sequence", "Iterable"}
            if isinstance(h, (ADict, CDict)):
                return {"dict"}
            if isinstance(h, ASet):
                return {"set"}
            if isinstance(h, (Mat, MatA)):
                return {"ndarray", "np.ndarray"}
            if isinstance(h, Obj):
                out = set()
                c = h.cls
                while c:
                    out.add(c)
                    if c in self.ix.classes:
                        bases = [b.id for b in self.ix.classes[c][1].bases if isinstance(b, ast.Name)]
                        c = bases[0] if bases else None
                    else:
                        c = None
                return out
        raise Unsupported(f"type of {v!r}")

    # ------------------------------------------------------------------ spec evaluation
    def spec(self, text, env, extra=None):
        node = ast.parse(text, mode="eval").body
        e = dict(self.ghost)
        e.update(env)
        if extra:
            e.update(extra)
        saved = self.in_spec if hasattr(self, "in_spec") else False
        self.in_spec = True
        try:
            v = self.ev(node, e)
        finally:
            self.in_spec = saved
        return self.truth(v) if not isinstance(v, z3.BoolRef) else v

    def spec_val(self, text, env, extra=None):
        node = ast.parse(text, mode="eval").body
        e = dict(self.ghost)
        e.update(env)
        if extra:
            e.update(extra)
        saved = getattr(self, "in_spec", False)
        self.in_spec = True
        try:
            return self.ev(node, e)
        finally:
            self.in_spec = saved

    def require(self, cond, kind, node, label=""):
        """safety obligation emitted by the code's own operations (not in spec mode)"""
        if getattr(self, "in_spec", False):
            return
        if isinstance(cond, bool):
            cond = z3.BoolVal(cond)
        c = z3.simplify(cond)
        if z3.is_true(c):
            return
        self.oblige(kind, c, node, label)
        self.pc.append(c)   # continue under the assumption that the operation succeeded

    # ------------------------------------------------------------------ expressions
    def ev(self, e, env):
        m = getattr(self, "ev_" + type(e).__name__, None)
        if m is None:
            raise Unsupported(f"expression {type(e).__name__} at L{getattr(e, 'lineno', '?')}")
        return m(e, env)

    def ev_Constant(self, e, env):
        v = e.value
        if v is None or isinstance(v, str):
            return v
        if isinstance(v, (bool, int, float, complex)):
            return lift(v)
        raise Unsupported(f"constant {v!r}")

    def ev_Name(self, e, env):
        if e.id in env:
            return env[e.id]
        if e.id in ("True", "False"):
            return z3.BoolVal(e.id == "True")
        if getattr(self, "in_spec", False) and e.id in self.c.defs:
            return self.c.defs[e.id]
        if e.id in ("np", "math", "random", "numpy"):
            return Opaque("module:" + ("np" if e.id == "numpy" else e.id))
        if e.id in self.ix.classes:
            return Opaque("class:" + e.id)
        if e.id in ("int", "float", "bool", "str", "list", "dict", "tuple", "complex", "set"):
            return Opaque("class:" + e.id)
        raise Unsupported(f"unbound name {e.id} at L{getattr(e, 'lineno', '?')}")

    def ev_Tuple(self, e, env):
        return tuple(self.ev(x, env) for x in e.elts)

    def ev_Slice(self, e, env):
        # a slice inside a tuple index (M[a:b, c:d]); plain sequence slices are handled by self.slice
        if e.step is not None:
            raise Unsupported("slice step")
        return ("slice", self.ev(e.lower, env) if e.lower is not None else None, self.ev(e.upper, env) if e.upper is not None else None)

    def _is_slice(self, v):
        return isinstance(v, tuple) and len(v) == 3 and isinstance(v[0], str) and v[0] == "slice"

    def _norm_slice(self, sl, n, node):
        """(offset, length) of a[lo:hi] on an axis of length n - the non-negative case with python's clamping (obligation safe.slice-nonneg)"""
        lo = z3.IntVal(0) if sl[1] is None else to_int(lift(sl[1]))
        hi = n if sl[2] is None else to_int(lift(sl[2]))
        self.require(z3.And(lo >= 0, hi >= 0), "safe.slice-nonneg", node)
        hi2 = z3.If(hi > n, n, hi)
        lo2 = z3.If(lo > hi2, hi2, lo)
        return z3.simplify(lo2), z3.simplify(hi2 - lo2)

    def ev_List(self, e, env):
        items = []
        for x in e.elts:
            if isinstance(x, ast.Starred):
                items += list(self.iter_concrete(self.ev(x.value, env), x))
            else:
                items.append(self.ev(x, env))
        return self.alloc(CList(tuple(items)))

    def ev_Dict(self, e, env):
        items = []
        for k, v in zip(e.keys, e.values):
            kk = self.ev(k, env)
            if is_z3(kk):
                kk = z3.simplify(kk)
                if z3.is_int_value(kk):
                    kk = kk.as_long()
                else:
                    raise Unsupported("dict literal with symbolic key")
            items.append((kk, self.ev(v, env)))
        if not items:
            # empty dict: becomes an ADict int->int lazily (most dicts in the targets are int->int)
            return self.alloc(self.empty_adict())
        return self.alloc(CDict(tuple(items)))

    def empty_adict(self, vs="int"):
        return ADict(z3.IntVal(0), z3.K(I, z3.IntVal(0)), z3.K(I, z3.BoolVal(False)),
                     z3.K(I, z3.IntVal(0) if vs == "int" else z3.RealVal(0)), z3.K(I, z3.IntVal(0)), vs)

    def ev_UnaryOp(self, e, env):
        v = self.ev(e.operand, env)
        if isinstance(e.op, ast.Not):
            return z3.Not(self.truth(v))
        if isinstance(e.op, ast.USub):
            if isinstance(v, CVal):
                return CVal(-v.re, -v.im)
            if is_bool(v):
                v = to_int(v)
            return -v
        if isinstance(e.op, ast.UAdd):
            return v
        raise Unsupported("unary op")

    def ev_BoolOp(self, e, env):
        # short-circuit: later operands are evaluated under the earlier ones
        saved = len(self.pc)
        vals = []
        try:
            for x in e.values:
                v = self.ev(x, env)
                t = self.truth(v)
                vals.append(t)
                ts = z3.simplify(t)
                if (isinstance(e.op, ast.And) and z3.is_false(ts)) or (isinstance(e.op, ast.Or) and z3.is_true(ts)):
                    break        # python short-circuit: the remaining operands are never evaluated
                self.pc.append(t if isinstance(e.op, ast.And) else z3.Not(t))
        finally:
            del self.pc[saved:]
        return z3.And(*vals) if isinstance(e.op, ast.And) else z3.Or(*vals)

    def ev_IfExp(self, e, env):
        c = self.truth(self.ev(e.test, env))
        c = z3.simplify(c)
        if z3.is_true(c):
            return self.ev(e.body, env)
        if z3.is_false(c):
            return self.ev(e.orelse, env)
        saved = len(self.pc)
        self.pc.append(c)
        a = self.ev(e.body, env)
        del self.pc[saved:]
        self.pc.append(z3.Not(c))
        b = self.ev(e.orelse, env)
        del self.pc[saved:]
        if is_z3(a) and is_z3(b):
            if a.sort() != b.sort():
                a, b = numeric_join(a, b)
            return z3.If(c, a, b)
        if isinstance(a, CVal) or isinstance(b, CVal):
            a, b = to_c(a), to_c(b)
            return CVal(z3.If(c, a.re, b.re), z3.If(c, a.im, b.im))
        # non scalar: fork
        if self.decide(c):
            return a
        return b

    def ev_Compare(self, e, env):
        left = self.ev(e.left, env)
        out = []
        for op, rhs in zip(e.ops, e.comparators):
            r = self.ev(rhs, env)
            out.append(self.compare(op, left, r, e))
            left = r
        return z3.And(*out) if len(out) > 1 else out[0]

    def compare(self, op, l, r, node):
        if isinstance(op, (ast.Is, ast.IsNot)):
            if l is None or r is None:
                res = (l is None and r is None)
            elif isinstance(l, Ref) and isinstance(r, Ref):
                res = l.id == r.id
            else:
                raise Unsupported("is on non-reference")
            return z3.BoolVal(res if isinstance(op, ast.Is) else not res)
        if isinstance(op, ast.In):
            return self.contains(r, l, node)
        if isinstance(op, ast.NotIn):
            return z3.Not(self.contains(r, l, node))
        if isinstance(op, (ast.Eq, ast.NotEq)):
            eq = self.equal(l, r)
            return eq if isinstance(op, ast.Eq) else z3.Not(eq)
        if is_z3(l) or is_z3(r) or isinstance(l, (int, Fraction)) or isinstance(r, (int, Fraction)):
            l, r = lift(l), lift(r)
            if not (is_z3(l) and is_z3(r)):
                if getattr(self, "in_spec", False):
                    raise Unsupported("ordering on non-numbers in spec")
                raise Unsupported(f"ordering on {l!r} {r!r}")
            l, r = numeric_join(l, r)
            return {ast.Lt: lambda: l < r, ast.LtE: lambda: l <= r, ast.Gt: lambda: l > r,
                    ast.GtE: lambda: l >= r}[type(op)]()
        raise Unsupported(f"compare {type(op).__name__} on {l!r}, {r!r}")

    def equal(self, l, r):
        l, r = lift(l), lift(r)
        if l is None or r is None:
            return z3.BoolVal(l is None and r is None)
        if isinstance(l, str) or isinstance(r, str):
            if isinstance(l, str) and isinstance(r, str):
                return z3.BoolVal(l == r)
            if isinstance(l, Opaque) or isinstance(r, Opaque):
                return z3.BoolVal(False) if (isinstance(l, Opaque) and l.tag.startswith("notstr")) or (
                    isinstance(r, Opaque) and r.tag.startswith("notstr")) else self._opaque_eq(l, r)
            return z3.BoolVal(False)
        if isinstance(l, Opaque) or isinstance(r, Opaque):
            return self._opaque_eq(l, r)
        if isinstance(l, CVal) or isinstance(r, CVal):
            l, r = to_c(l), to_c(r)
            return z3.And(l.re == r.re, l.im == r.im)
        if is_z3(l) and is_z3(r):
            if l.sort() != r.sort():
                if is_bool(l) and is_bool(r):
                    return l == r
                l, r = numeric_join(l, r)
            return l == r
        if isinstance(l, tuple) and isinstance(r, tuple):
            if len(l) != len(r):
                return z3.BoolVal(False)
            return z3.And(*[self.equal(a, b) for a, b in zip(l, r)]) if l else z3.BoolVal(True)
        if isinstance(l, Ref) and isinstance(r, Ref):
            if l.id == r.id:
                return z3.BoolVal(True)
            a, b = self.heap[l.id], self.heap[r.id]
            return self.heq(a, b)
        if isinstance(l, Ref) or isinstance(r, Ref):
            return z3.BoolVal(False)
        raise Unsupported(f"equality {l!r} == {r!r}")

    def _opaque_eq(self, l, r):
        if isinstance(l, Opaque) and isinstance(r, Opaque):
            return z3.BoolVal(l == r)
        return z3.BoolVal(False)

    def heq(self, a, b):
        """structural equality of heap values"""
        if a is b:
            return z3.BoolVal(True)
        if isinstance(a, GList) and isinstance(b, GList):
            if not a.prefix.eq(b.prefix) or len(a.suffix) != len(b.suffix):
                return z3.BoolVal(False)
            return z3.And(*[self.equal(x, y) for x, y in zip(a.suffix, b.suffix)]) if a.suffix else z3.BoolVal(True)
        if isinstance(a, CList) and isinstance(b, CList):
            if len(a.items) != len(b.items):
                return z3.BoolVal(False)
            return z3.And(*[self.equal(x, y) for x, y in zip(a.items, b.items)]) if a.items else z3.BoolVal(True)
        if isinstance(a, (AList, CList)) and isinstance(b, (AList, CList)):
            a, b = self.as_alist(a), self.as_alist(b)
            t = fresh("t")
            return z3.And(a.len == b.len,
                          z3.ForAll([t], z3.Implies(z3.And(0 <= t, t < a.len), z3.Select(a.arr, t) == z3.Select(b.arr, t))))
        if isinstance(a, ADict) and isinstance(b, ADict):
            x = fresh("x")
            return z3.And(a.n == b.n, z3.ForAll([x], z3.And(z3.Select(a.dom, x) == z3.Select(b.dom, x),
                                                           z3.Implies(z3.Select(a.dom, x),
                                                                      z3.Select(a.val, x) == z3.Select(b.val, x)))))
        if isinstance(a, Obj) and isinstance(b, Obj):
            if a.cls != b.cls:
                return z3.BoolVal(False)
            eq = self.ix.method(a.cls, "__eq__")
            if eq is None and not self.ix.class_fields(a.cls):
                return z3.BoolVal(False)   # identity semantics, different refs
            return z3.And(*[self.equal(v, b.get(k)) for k, v in a.fields])
        if isinstance(a, Mat) and isinstance(b, Mat):
            raise Unsupported("matrix == matrix (elementwise array) ")
        return z3.BoolVal(False)

    def as_alist(self, h, es=None):
        if isinstance(h, AList):
            return h
        if isinstance(h, CList):
            items = [lift(x) for x in h.items]
            if es is None:
                es = "real" if any(is_real(x) for x in items) else ("bool" if items and all(is_bool(x) for x in items) else "int")
            arr = z3.K(I, {"int": z3.IntVal(0), "real": z3.RealVal(0), "bool": z3.BoolVal(False)}[es])
            for k, x in enumerate(items):
                if not is_z3(x):
                    raise Unsupported("list of non-scalars as array")
                x = to_real(x) if es == "real" else (x if es == "bool" else to_int(x))
                arr = z3.Store(arr, k, x)
            return AList(z3.IntVal(len(items)), arr, es)
        raise Unsupported(f"as_alist {h!r}")

    def contains(self, cont, x, node):
        x = lift(x)
        if isinstance(cont, tuple):
            return z3.Or(*[self.equal(x, y) for y in cont]) if cont else z3.BoolVal(False)
        h = self.deref(cont)
        if isinstance(h, ADict):
            return z3.Select(h.dom, to_int(x))
        if isinstance(h, CDict):
            return z3.Or(*[self.equal(x, lift(k)) for k, _ in h.items]) if h.items else z3.BoolVal(False)
        if isinstance(h, ASet):
            return z3.Select(h.dom, to_int(x))
        if isinstance(h, CList):
            return z3.Or(*[self.equal(x, y) for y in h.items]) if h.items else z3.BoolVal(False)
        if isinstance(h, AList):
            t = fresh("t")
            xv = to_real(x) if h.es == "real" else x
            return z3.Exists([t], z3.And(0 <= t, t < h.len, z3.Select(h.arr, t) == xv))
        if isinstance(h, RangeV):
            return z3.And(h.lo <= x, x < h.hi)
        raise Unsupported(f"in on {h!r}")

    def ev_BinOp(self, e, env):
        l = self.ev(e.left, env)
        r = self.ev(e.right, env)
        return self.binop(e.op, l, r, e)

    def binop(self, op, l, r, node):
        l, r = lift(l), lift(r)
        # list concatenation / repetition
        if isinstance(l, Ref) or isinstance(r, Ref):
            return self.seq_binop(op, l, r, node)
        if isinstance(l, str) and isinstance(r, str) and isinstance(op, ast.Add):
            return l + r
        if isinstance(l, tuple) and isinstance(r, tuple) and isinstance(op, ast.Add):
            return l + r
        if isinstance(l, CVal) or isinstance(r, CVal):
            a, b = to_c(l), to_c(r)
            if isinstance(op, ast.Add):
                return CVal(a.re + b.re, a.im + b.im)
            if isinstance(op, ast.Sub):
                return CVal(a.re - b.re, a.im - b.im)
            if isinstance(op, ast.Mult):
                return CVal(z3.simplify(a.re * b.re - a.im * b.im), z3.simplify(a.re * b.im + a.im * b.re))
            if isinstance(op, ast.Div):
                den = b.re * b.re + b.im * b.im
                self.require(den != 0, "safe.ZeroDivisionError", node)
                return CVal((a.re * b.re + a.im * b.im) / den, (a.im * b.re - a.re * b.im) / den)
            raise Unsupported("complex op")
        if not (is_z3(l) and is_z3(r)):
            raise Unsupported(f"binop on {l!r}, {r!r}")
        if is_bool(l):
            l = to_int(l)
        if is_bool(r):
            r = to_int(r)
        if isinstance(op, ast.Add):
            l, r = numeric_join(l, r)
            return l + r
        if isinstance(op, ast.Sub):
            l, r = numeric_join(l, r)
            return l - r
        if isinstance(op, ast.Mult):
            l, r = numeric_join(l, r)
            return l * r
        if isinstance(op, ast.Div):
            l, r = to_real(l), to_real(r)
            self.require(r != 0, "safe.ZeroDivisionError", node)
            return l / r
        if isinstance(op, ast.FloorDiv):
            if is_int(l) and is_int(r):
                rs = z3.simplify(r)
                if z3.is_int_value(rs) and rs.as_long() > 0:
                    return l / r     # z3 int division = floor for positive divisor
            raise Unsupported("floor division")
        if isinstance(op, ast.Mod):
            if is_int(l) and is_int(r):
                rs = z3.simplify(r)
                if z3.is_int_value(rs) and rs.as_long() > 0:
                    return l % r
            raise Unsupported("mod")
        if isinstance(op, ast.Pow):
            return self.power(l, r, node)
        raise Unsupported(f"binop {type(op).__name__}")

    def power(self, l, r, node):
        rs = z3.simplify(r)
        if z3.is_int_value(rs):
            n = rs.as_long()
            if 0 <= n <= 4:
                out = z3.IntVal(1) if is_int(l) else z3.RealVal(1)
                for _ in range(n):
                    out = out * l
                return out
        if z3.is_rational_value(rs) and rs.as_fraction() == Fraction(1, 2):
            return self.sqrt(to_real(l), node)
        ls = z3.simplify(l)
        if (z3.is_int_value(ls) and ls.as_long() == 10) or (z3.is_rational_value(ls) and ls.as_fraction() == 10):
            return self.pow10(to_real(r))
        raise Unsupported("power")

    def sqrt(self, x, node):
        """x**0.5 for a real x: obligation x >= 0 (otherwise python returns a complex number), result is the
        unique s >= 0 with s*s = x (memoised per argument term)."""
        self.require(x >= 0, "safe.sqrt-domain", node)
        key = ("sqrt", z3.simplify(x).sexpr())
        memo = self.__dict__.setdefault("fn_memo", {})
        if key not in memo:
            xs = z3.simplify(x)
            if z3.is_rational_value(xs):
                fr = xs.as_fraction()
                import math
                a, b = math.isqrt(fr.numerator), math.isqrt(fr.denominator)
                if a * a == fr.numerator and b * b == fr.denominator:
                    memo[key] = (z3.RealVal(Fraction(a, b)), [])
                    return memo[key][0]
            s = fresh("sqrt", R)
            memo[key] = (s, [z3.Implies(x >= 0, z3.And(s >= 0, s * s == x))])
        s, facts = memo[key]
        self.fact(*facts)
        return s

    def pow10(self, x):
        f = z3.Function("pow10", R, R)
        self.assumptions.add("A1.pow10: 10**x is a positive strictly monotone function with 10**0=1, 10**(x+y)=10**x*10**y; log10 its inverse")
        v = f(x)
        self.fact(v > 0, z3.Implies(x == 0, v == 1), z3.Implies(x > 0, v > 1), z3.Implies(x < 0, v < 1))
        lg = z3.Function("log10", R, R)
        self.fact(lg(v) == x)
        return v

    def seq_binop(self, op, l, r, node):
        if isinstance(op, ast.Add) and isinstance(l, Ref) and isinstance(r, Ref):
            a, b = self.heap[l.id], self.heap[r.id]
            if isinstance(a, CList) and isinstance(b, CList):
                return self.alloc(CList(a.items + b.items))
            if isinstance(a, (AList, CList)) and isinstance(b, (AList, CList)):
                es = a.es if isinstance(a, AList) else b.es
                a, b = self.as_alist(a, es), self.as_alist(b, es)
                return self.alloc(self.concat(a, b))
            if isinstance(a, Obj) or isinstance(b, Obj):
                return self.call_method(l, "__add__", [r], {}, node)
        if isinstance(op, ast.Mult):
            if isinstance(l, Ref) and is_z3(r):
                lst, n = self.heap[l.id], r
            elif isinstance(r, Ref) and is_z3(l):
                lst, n = self.heap[r.id], l
            else:
                raise Unsupported("seq mult")
            n = to_int(n)
            if isinstance(lst, CList) and len(lst.items) == 1 and is_z3(lift(lst.items[0])):
                x = lift(lst.items[0])
                es = "real" if is_real(x) else ("bool" if is_bool(x) else "int")
                ns = z3.simplify(n)
                if z3.is_int_value(ns):
                    return self.alloc(CList(tuple([x] * max(ns.as_long(), 0))))
                ln = z3.If(n >= 0, n, 0)
                return self.alloc(AList(ln, z3.K(I, x), es))
            raise Unsupported("list repetition of a non-singleton")
        if (isinstance(l, Ref) and isinstance(self.heap[l.id], (Mat, MatA))) or (isinstance(r, Ref) and isinstance(self.heap[r.id], (Mat, MatA))):
            return self.mat_binop(op, l, r, node)
        if isinstance(l, Ref) and isinstance(self.heap[l.id], Obj):
            name = {ast.Add: "__add__", ast.Sub: "__sub__", ast.Mult: "__mul__"}.get(type(op))
            if name:
                return self.call_method(l, name, [r], {}, node)
        raise Unsupported(f"sequence op {type(op).__name__}")

    def mat_binop(self, op, l, r, node):
        """A @ B on abstract matrices: the term mul(a, b); a concrete (entrywise) left operand becomes an opaque term
        E(label, dim) - the label is the callee it came from (recorded when the contract of that callee was applied)."""
        if not isinstance(op, ast.MatMult) or not (isinstance(l, Ref) and isinstance(r, Ref)):
            raise Unsupported("matrix arithmetic other than @")
        a, b = self.heap[l.id], self.heap[r.id]

        def abstract(ref, h):
            if isinstance(h, MatA):
                return h
            if isinstance(h, Mat):
                label, arg = getattr(self, "mat_origin", {}).get(ref.id, (f"mat&{ref.id}", h.nr))
                self.require(h.nr == h.nc, "safe.matmul-square", node)
                return MatA(("E", label, arg), h.nr)
            raise Unsupported("@ on non-matrices")
        a, b = abstract(l, a), abstract(r, b)
        self.require(a.dim == b.dim, "safe.ValueError-matmul-dimensions", node)
        return self.alloc(MatA(("mul", a.term, b.term), a.dim))

    def concat(self, a, b):
        t = fresh("t")
        arr = fresh("cat", z3.ArraySort(I, sort_of(a.es)))
        ln = a.len + b.len
        self.fact(z3.ForAll([t], z3.And(
            z3.Implies(z3.And(0 <= t, t < a.len), z3.Select(arr, t) == z3.Select(a.arr, t)),
            z3.Implies(z3.And(a.len <= t, t < ln), z3.Select(arr, t) == z3.Select(b.arr, t - a.len)))))
        return AList(ln, arr, a.es)

    # ---- attribute access
    def ev_Attribute(self, e, env):
        base = self.ev(e.value, env)
        return self.getattr(base, e.attr, e)

    def getattr(self, base, attr, node):
        if isinstance(base, Opaque) and base.tag == "module:np":
            if attr == "pi":
                return self.pi()
            if attr == "inf":
                # +infinity as an (unbounded) real constant: larger than every number the code can meet; only comparisons are meaningful (A1)
                inf = z3.Real("INF")
                self.assumptions.add("A1.inf: np.inf is modelled as a real constant INF > 10^300 (only used in comparisons)")
                self.fact(inf > z3.RealVal(10) ** 300)
                return inf
            return Opaque("np." + attr)
        if isinstance(base, Opaque) and base.tag.startswith("module:"):
            return Opaque(base.tag[7:] + "." + attr)
        if isinstance(base, CVal):
            if attr == "real":
                return base.re
            if attr == "imag":
                return base.im
        if isinstance(base, Ref):
            h = self.heap[base.id]
            if isinstance(h, Obj):
                name = self.mangle(attr)
                if h.has(name):
                    return h.get(name)
                if h.has(attr):
                    return h.get(attr)
                # property?
                m = self.ix.method(h.cls, attr, kind="getter")
                if m is not None:
                    return self.call_function(m, [base], {}, node, bound_cls=m[1], qual=f"{m[1]}.{attr}", kind="getter")
                if getattr(self, "in_spec", False) or True:
                    raise Unsupported(f"attribute {attr} on {h.cls} at L{getattr(node, 'lineno', '?')}")
            if isinstance(h, Mat):
                if attr == "shape":
                    return (h.nr, h.nc)
                if attr == "T":
                    return self.alloc(self.mat_transpose(h))
            return ("boundmethod", base, attr)
        if isinstance(base, tuple) and len(base) == 3 and base[0] == "boundmethod":
            raise Unsupported("attribute of bound method")
        raise Unsupported(f"attribute {attr} of {base!r}")

    def pi(self):
        p = z3.Real("pi")
        self.assumptions.add("A1.pi: pi is a real constant with 3.14159 < pi < 3.1416")
        f = (p > z3.RealVal("3.14159"), p < z3.RealVal("3.1416"))
        self.fact(*f)
        return p

    # ---- subscripts
    def index_value(self, idx):
        return lift(idx)

    def ev_Subscript(self, e, env):
        base = self.ev(e.value, env)
        if isinstance(e.slice, ast.Slice):
            return self.slice(base, e.slice, env, e)
        idx = self.ev(e.slice, env)
        return self.getitem(base, idx, e)

    def norm_index(self, idx, ln, node):
        """python index -> 0-based; a concrete negative index is translated, a symbolic one must be >= 0"""
        idx = to_int(lift(idx))
        s = z3.simplify(idx)
        if z3.is_int_value(s) and s.as_long() < 0:
            idx = ln + s
        self.require(z3.And(0 <= idx, idx < ln), "safe.IndexError", node)
        return idx

    def getitem(self, base, idx, node):
        if isinstance(base, tuple):
            i = z3.simplify(to_int(lift(idx)))
            if z3.is_int_value(i):
                return base[i.as_long()]
            raise Unsupported("symbolic index into tuple")
        h = self.deref(base)
        if isinstance(h, AList):
            i = self.norm_index(idx, h.len, node)
            return z3.Select(h.arr, i)
        if isinstance(h, CList):
            i = z3.simplify(to_int(lift(idx)))
            if z3.is_int_value(i):
                k = i.as_long()
                if not -len(h.items) <= k < len(h.items):
                    if getattr(self, "in_spec", False):
                        raise Unsupported(f"specification indexes position {k} of a list of length {len(h.items)}")
                    raise RaiseEx("IndexError", getattr(node, "lineno", 0))
                return h.items[k]
            if all(is_z3(lift(x)) for x in h.items):
                a = self.as_alist(h)
                i = self.norm_index(idx, a.len, node)
                return z3.Select(a.arr, i)
            raise Unsupported("symbolic index into list of non-scalars")
        if isinstance(h, ADict):
            k = to_int(lift(idx))
            self.require(z3.Select(h.dom, k), "safe.KeyError", node)
            return z3.Select(h.val, k)
        if isinstance(h, CDict):
            k = idx
            if is_z3(k):
                ks = z3.simplify(k)
                if z3.is_int_value(ks):
                    k = ks.as_long()
                else:
                    cand = [(lift(kk), vv) for kk, vv in h.items if is_z3(lift(kk)) and not isinstance(lift(kk), CVal)]
                    if len(cand) != len(h.items):
                        raise Unsupported("symbolic key into a dict with non-integer keys")
                    for kk, vv in cand:
                        if z3.eq(z3.simplify(kk), ks):
                            return vv          # syntactically the same key (e.g. the loop variable of `for k in d`)
                    if getattr(self, "in_spec", False):
                        # specification: the value as a case split over the keys (callers guard with `k in d`)
                        if not cand or not all(is_z3(lift(vv)) and not isinstance(lift(vv), CVal) for _, vv in cand):
                            raise Unsupported("specification reads a symbolic key of a dict with non-scalar values")
                        r = lift(cand[-1][1])
                        for kk, vv in reversed(cand[:-1]):
                            r = z3.If(ks == kk, lift(vv), r)
                        return r
                    for kk, vv in cand:      # each comparison is a path decision, first equal key wins (keys are pairwise distinct)
                        if self.decide(ks == kk):
                            return vv
                    raise RaiseEx("KeyError", getattr(node, "lineno", 0))
            if not h.has(k):
                if getattr(self, "in_spec", False):
                    raise Unsupported(f"specification reads missing key {k!r}")
                raise RaiseEx("KeyError", getattr(node, "lineno", 0))
            return h.get(k)
        if isinstance(h, Obj):
            return self.call_method(base, "__getitem__", [idx], {}, node)
        if isinstance(h, Mat) and isinstance(idx, tuple) and len(idx) == 3 and isinstance(idx[0], str) and idx[0] == "ix_":
            # M[np.ix_(rows, cols)]: the sub-matrix with entry (a,b) = M[rows[a], cols[b]] (rows / cols may repeat)
            rs, cs = self.as_alist(self.deref(idx[1])), self.as_alist(self.deref(idx[2]))
            t = fresh("t")
            self.require(z3.ForAll([t], z3.Implies(z3.And(0 <= t, t < rs.len), z3.And(0 <= z3.Select(rs.arr, t), z3.Select(rs.arr, t) < h.nr))), "safe.IndexError-rows", node)
            self.require(z3.ForAll([t], z3.Implies(z3.And(0 <= t, t < cs.len), z3.And(0 <= z3.Select(cs.arr, t), z3.Select(cs.arr, t) < h.nc))), "safe.IndexError-cols", node)
            a, b = z3.Int("a!ix"), z3.Int("b!ix")
            re = z3.Lambda([a, b], z3.Select(h.re, z3.Select(rs.arr, a), z3.Select(cs.arr, b)))
            im = z3.Lambda([a, b], z3.Select(h.im, z3.Select(rs.arr, a), z3.Select(cs.arr, b)))
            return self.alloc(Mat(rs.len, cs.len, re, im))
        if isinstance(h, Mat):
            if isinstance(idx, tuple) and len(idx) == 2 and self._is_slice(idx[0]) and self._is_slice(idx[1]):
                # M[a:b, c:d]: the block as a new matrix (numpy returns a view; the blocks read here are only copied from)
                ro, rl = self._norm_slice(idx[0], h.nr, node)
                co, cl = self._norm_slice(idx[1], h.nc, node)
                a, b = z3.Int("a!blk"), z3.Int("b!blk")
                return self.alloc(Mat(rl, cl, z3.Lambda([a, b], z3.Select(h.re, a + ro, b + co)), z3.Lambda([a, b], z3.Select(h.im, a + ro, b + co))))
            if isinstance(idx, tuple) and len(idx) == 2:
                i = self.norm_index(idx[0], h.nr, node)
                j = self.norm_index(idx[1], h.nc, node)
                return self.mat_select(h, i, j)
        raise Unsupported(f"subscript of {h!r}")

    def mat_transpose(self, h):
        a, b = z3.Int("a!tr"), z3.Int("b!tr")
        return Mat(h.nc, h.nr, z3.Lambda([a, b], z3.Select(h.re, b, a)), z3.Lambda([a, b], z3.Select(h.im, b, a)))

    def mat_select(self, h, i, j):
        """entry (i,j) as a scalar term.  For matrices built from identity/zeros by entry stores the store chain is walked,
        each index comparison being decided under the current path condition when it is forced (linear integer query), so
        that the resulting term needs no array reasoning."""
        if h.base is None:
            return CVal(z3.Select(h.re, i, j), z3.Select(h.im, i, j))
        if h.base == "identity":
            d = z3.simplify(i == j)
            re = z3.RealVal(1) if z3.is_true(d) else (z3.RealVal(0) if z3.is_false(d) else None)
            if re is None:
                f = self._forced(i == j)
                re = z3.RealVal(1) if f is True else (z3.RealVal(0) if f is False else z3.If(i == j, z3.RealVal(1), z3.RealVal(0)))
            out = CVal(re, z3.RealVal(0))
        else:
            out = CVal(z3.RealVal(0), z3.RealVal(0))
        for (si, sj, v) in h.chain:
            cond = z3.simplify(z3.And(i == si, j == sj))
            f = True if z3.is_true(cond) else (False if z3.is_false(cond) else self._forced(cond))
            if f is True:
                out = v
            elif f is False:
                continue
            else:
                out = CVal(z3.If(cond, v.re, out.re), z3.If(cond, v.im, out.im))
        return out

    def _forced(self, cond):
        """True / False if the (quantifier-free integer) condition is decided by the path condition, else None"""
        if any(z3.is_quantifier(x) for x in [cond]):
            return None
        s = z3.Solver()
        s.set("timeout", 500)
        s.add(*[p for p in self.pc if not _has_quantifier(p)])
        s.push()
        s.add(z3.Not(cond))
        r1 = s.check()
        s.pop()
        if r1 == z3.unsat:
            return True
        s.add(cond)
        if s.check() == z3.unsat:
            return False
        return None

    def slice(self, base, sl, env, node):
        if isinstance(base, str):
            lo = self._concrete_int(self.ev(sl.lower, env)) if sl.lower is not None else None
            hi = self._concrete_int(self.ev(sl.upper, env)) if sl.upper is not None else None
            return base[slice(lo, hi)]
        h = self.deref(base)
        lo = self.ev(sl.lower, env) if sl.lower is not None else None
        hi = self.ev(sl.upper, env) if sl.upper is not None else None
        if sl.step is not None:
            raise Unsupported("slice step")
        if isinstance(h, CList):
            lo_c = self._concrete_int(lo) if lo is not None else None
            hi_c = self._concrete_int(hi) if hi is not None else None
            if (lo is None or lo_c is not None) and (hi is None or hi_c is not None):
                return self.alloc(CList(h.items[slice(lo_c, hi_c)]))
            h = self.as_alist(h)
        if isinstance(h, AList):
            # only the non-negative, clamped case is modelled: 0 <= lo, hi (python clamps to len)
            lo = z3.IntVal(0) if lo is None else to_int(lift(lo))
            hi = h.len if hi is None else to_int(lift(hi))
            self.require(z3.And(lo >= 0, hi >= 0), "safe.slice-nonneg", node)
            hi2 = z3.If(hi > h.len, h.len, hi)
            lo2 = z3.If(lo > hi2, hi2, lo)
            t = fresh("t")
            arr = fresh("slice", z3.ArraySort(I, sort_of(h.es)))
            self.fact(z3.ForAll([t], z3.Implies(z3.And(0 <= t, t < hi2 - lo2),
                                                   z3.Select(arr, t) == z3.Select(h.arr, t + lo2))))
            return self.alloc(AList(hi2 - lo2, arr, h.es))
        raise Unsupported("slice")

    def _concrete_int(self, v):
        if v is None:
            return None
        s = z3.simplify(to_int(lift(v)))
        return s.as_long() if z3.is_int_value(s) else None

    # ---- comprehensions
    def ev_ListComp(self, e, env):
        if len(e.generators) != 1:
            raise Unsupported("nested comprehension")
        g = e.generators[0]
        it = self.ev(g.iter, env)
        conc = self.try_iter_concrete(it)
        if conc is not None:
            out = []
            for x in conc:
                env2 = dict(env)
                self.bind(g.target, x, env2)
                ok = True
                for cond in g.ifs:
                    c = z3.simplify(self.truth(self.ev(cond, env2)))
                    if z3.is_true(c):
                        continue
                    if z3.is_false(c):
                        ok = False
                        break
                    if not self.decide(c):
                        ok = False
                        break
                if ok:
                    out.append(self.ev(e.elt, env2))
            return self.alloc(CList(tuple(out)))
        # symbolic-length map (no filter): [f(x) for x in L]
        seq = self.as_seq(it)
        if g.ifs:
            raise Unsupported("filtered comprehension over symbolic list")
        t = fresh("t")
        env2 = dict(env)
        self.bind(g.target, seq.elem(t), env2)
        saved = len(self.pc)
        self.pc.append(z3.And(0 <= t, t < seq.n))
        nobl = len(self.obls)
        val = lift(self.ev(e.elt, env2))
        del self.pc[saved:]
        # obligations raised inside are generalised: they carried the hypothesis 0<=t<n and a free t
        if not is_z3(val):
            raise Unsupported("comprehension element not scalar")
        es = "real" if is_real(val) else ("bool" if is_bool(val) else "int")
        # the same comprehension over the same sequence denotes the same array (so that a specification that repeats the
        # expression of the code talks about the same values): memoised on the element term and the length
        key = ("comp", z3.substitute(val, (t, z3.Int("t!compkey"))).sexpr(), z3.simplify(seq.n).sexpr(), es)
        memo = self.__dict__.setdefault("fn_memo", {})
        if key not in memo:
            arr = fresh("comp", z3.ArraySort(I, sort_of(es)))
            memo[key] = arr
        arr = memo[key]
        self.fact(z3.ForAll([t], z3.Implies(z3.And(0 <= t, t < seq.n), z3.Select(arr, t) == val)))
        return self.alloc(AList(seq.n, arr, es))

    def ev_DictComp(self, e, env):
        """{kexpr: vexpr for ... in <symbolic sequence>} (no filter): modelled when the key expression is injective along the
        sequence (decided here, under the path condition) - the result then has one entry per element, in iteration order."""
        if len(e.generators) != 1:
            raise Unsupported("dict comprehension with nested generators")
        g = e.generators[0]
        it = self.ev(g.iter, env)
        conc = self.try_iter_concrete(it)
        if conc is not None:
            d = self.alloc(CDict(()))
            for x in conc:
                env2 = dict(env)
                self.bind(g.target, x, env2)
                if all(self.decide(self.truth(self.ev(f, env2))) for f in g.ifs):    # a filter is a path decision per element
                    self.setitem(d, self.ev(e.key, env2), self.ev(e.value, env2), e)
            return d
        if g.ifs:
            raise Unsupported("dict comprehension with a filter over a symbolic sequence")
        seq = self.as_seq(it)
        t, u = fresh("t"), fresh("u")

        def at(k):
            env2 = dict(env)
            self.bind(g.target, seq.elem(k), env2)
            saved = len(self.pc)
            self.pc.append(z3.And(0 <= k, k < seq.n))
            try:
                return to_int(lift(self.ev(e.key, env2))), lift(self.ev(e.value, env2))
            finally:
                del self.pc[saved:]
        kt, vt_ = at(t)
        ku, _ = at(u)
        if not is_z3(vt_) or isinstance(vt_, CVal):
            raise Unsupported("dict comprehension value not scalar")
        sv = z3.Solver()
        sv.set("timeout", 3000)
        sv.add(*self.pc)
        sv.add(*self.facts)
        sv.add(0 <= t, t < seq.n, 0 <= u, u < seq.n, t != u, kt == ku)
        if sv.check() != z3.unsat:
            raise Unsupported("dict comprehension: keys not shown to be pairwise distinct along the iteration")
        vs = "real" if is_real(vt_) else ("bool" if is_bool(vt_) else "int")
        d = ADict(seq.n, fresh("dc.karr", z3.ArraySort(I, I)), fresh("dc.dom", z3.ArraySort(I, B)), fresh("dc.val", z3.ArraySort(I, sort_of(vs))),
                  fresh("dc.idx", z3.ArraySort(I, I)), vs)
        self.fact(*self.wf_dict(d))
        self.fact(z3.ForAll([t], z3.Implies(z3.And(0 <= t, t < seq.n), z3.And(z3.Select(d.karr, t) == kt, z3.Select(d.val, kt) == vt_))))
        return self.alloc(d)

    def ev_GeneratorExp(self, e, env):
        return ("genexp", e, dict(env))

    def ev_Starred(self, e, env):
        raise Unsupported("starred")

    def ev_Lambda(self, e, env):
        raise Unsupported("lambda")

    def ev_JoinedStr(self, e, env):
        return "<fstring>"

    # ---- iteration helpers
    class Seq:
        def __init__(self, n, elem):
            self.n, self.elem = n, elem

    def as_seq(self, it):
        """symbolic sequence view: (n, elem(k))"""
        if isinstance(it, RangeV):
            if it.step == 1:
                n = z3.If(it.hi > it.lo, it.hi - it.lo, 0)
                return self.Seq(n, lambda k: it.lo + k)
            if it.step == -1:
                n = z3.If(it.lo > it.hi, it.lo - it.hi, 0)
                return self.Seq(n, lambda k: it.lo - k)
        if isinstance(it, tuple) and it and isinstance(it[0], str) and it[0] == "enumerate":
            s = self.as_seq(it[1])
            return self.Seq(s.n, lambda k: (to_int(k), s.elem(k)))
        if isinstance(it, tuple) and it and isinstance(it[0], str) and it[0] == "zip":
            ss = [self.as_seq(x) for x in it[1]]
            return self.Seq(ss[0].n, lambda k: tuple(s.elem(k) for s in ss))
        if isinstance(it, tuple) and it and isinstance(it[0], str) and it[0] == "reversed":
            s = self.as_seq(it[1])
            return self.Seq(s.n, lambda k: s.elem(s.n - 1 - k))
        if isinstance(it, tuple) and it and isinstance(it[0], str) and it[0] == "items":
            d = it[1]
            return self.Seq(d.n, lambda k: (z3.Select(d.karr, k), z3.Select(d.val, z3.Select(d.karr, k))))
        if isinstance(it, tuple) and it and isinstance(it[0], str) and it[0] == "keys":
            d = it[1]
            return self.Seq(d.n, lambda k: z3.Select(d.karr, k))
        if isinstance(it, tuple) and it and isinstance(it[0], str) and it[0] == "values":
            d = it[1]
            return self.Seq(d.n, lambda k: z3.Select(d.val, z3.Select(d.karr, k)))
        h = self.deref(it)
        if isinstance(h, AList):
            return self.Seq(h.len, lambda k: z3.Select(h.arr, k))
        if isinstance(h, CList):
            a = self.as_alist(h)
            return self.Seq(a.len, lambda k: z3.Select(a.arr, k))
        if isinstance(h, ADict):
            return self.Seq(h.n, lambda k: z3.Select(h.karr, k))
        if isinstance(h, Obj):
            # iteration protocol through __iter__ / __getitem__ of State-like wrappers: use the underlying list field
            for k, v in h.fields:
                if isinstance(v, Ref) and isinstance(self.heap[v.id], (AList, CList)):
                    return self.as_seq(v)
        raise Unsupported(f"iteration over {h!r}")

    def try_iter_concrete(self, it):
        try:
            return list(self.iter_concrete(it, None))
        except Unsupported:
            return None

    def iter_concrete(self, it, node):
        if isinstance(it, tuple) and it and isinstance(it[0], str) and it[0] in ("enumerate", "zip", "reversed", "items", "keys", "values"):
            tag = it[0]
            if tag == "enumerate":
                return [(z3.IntVal(k), x) for k, x in enumerate(self.iter_concrete(it[1], node))]
            if tag == "zip":
                cols = [list(self.iter_concrete(x, node)) for x in it[1]]
                if it[2] and len({len(c) for c in cols}) > 1:
                    raise Unsupported("zip strict with different concrete lengths")
                return list(zip(*cols))
            if tag == "reversed":
                return list(reversed(list(self.iter_concrete(it[1], node))))
            d = it[1]
            if isinstance(d, CDict):
                if tag == "items":
                    return [(lift(k), v) for k, v in d.items]
                if tag == "keys":
                    return [lift(k) for k, _ in d.items]
                return [v for _, v in d.items]
            n = self.determined_int(d.n)
            if n is not None:
                ks = [z3.simplify(z3.Select(d.karr, k)) for k in range(n)]
                if tag == "keys":
                    return ks
                if tag == "values":
                    return [z3.simplify(z3.Select(d.val, k)) for k in ks]
                return [(k, z3.simplify(z3.Select(d.val, k))) for k in ks]
            raise Unsupported("symbolic dict iteration")
        if isinstance(it, tuple):
            return list(it)
        if isinstance(it, RangeV):
            lo, hi = z3.simplify(it.lo), z3.simplify(it.hi)
            if z3.is_int_value(lo) and z3.is_int_value(hi):
                return [z3.IntVal(k) for k in range(lo.as_long(), hi.as_long(), it.step)]
            if isinstance(it.step, int):
                span = self.determined_int(hi - lo)       # symbolic start, length fixed by the path condition
                if span is not None:
                    return [z3.simplify(lo + k) for k in range(0, span, it.step)]
            raise Unsupported("symbolic range")
        h = self.deref(it)
        if isinstance(h, CList):
            return list(h.items)
        if isinstance(h, CDict):
            return [lift(k) for k, _ in h.items]
        if isinstance(h, AList):
            n = z3.simplify(h.len)
            if z3.is_int_value(n):
                return [z3.simplify(z3.Select(h.arr, k)) for k in range(n.as_long())]
        if isinstance(h, ADict):
            n = self.determined_int(h.n)
            if n is not None:
                return [z3.simplify(z3.Select(h.karr, k)) for k in range(n)]
        if isinstance(h, str):
            return list(h)
        raise Unsupported("not concretely iterable")

    def bind(self, target, val, env):
        if isinstance(target, ast.Name):
            env[target.id] = val
        elif isinstance(target, (ast.Tuple, ast.List)):
            if isinstance(val, Ref):
                val = tuple(self.iter_concrete(val, target))
            if not isinstance(val, tuple) or len(val) != len(target.elts):
                raise Unsupported("destructuring")
            for t, v in zip(target.elts, val):
                self.bind(t, v, env)
        else:
            raise Unsupported("bind target")

    # ------------------------------------------------------------------ calls
    def ev_Call(self, e, env):
        from . import builtins as bi
        f = e.func
        # spec-only forms
        if isinstance(f, ast.Name) and getattr(self, "in_spec", False):
            r = bi.spec_call(self, f.id, e, env)
            if r is not bi.NOT_HANDLED:
                return r
        if isinstance(f, ast.Name):
            r = bi.builtin_call(self, f.id, e, env)
            if r is not bi.NOT_HANDLED:
                return r
            args, kwargs = self.eval_args(e, env)
            if f.id in env and isinstance(env[f.id], tuple) and env[f.id][0] == "boundmethod":
                _, base, attr = env[f.id]
                return self.call_method(base, attr, args, kwargs, e)
            if f.id in self.ix.classes:
                return self.construct(f.id, args, kwargs, e)
            return self.call_named(f.id, args, kwargs, e)
        if isinstance(f, ast.Attribute):
            base = self.ev(f.value, env)
            if isinstance(base, Opaque) and (base.tag.startswith("module:") or base.tag.startswith("np.")):
                r = bi.module_call(self, (base.tag[7:] if base.tag.startswith("module:") else base.tag) + "." + f.attr, e, env)
                if r is not bi.NOT_HANDLED:
                    return r
                raise Unsupported(f"call {base.tag}.{f.attr}")
            args, kwargs = self.eval_args(e, env)
            return self.call_method(base, f.attr, args, kwargs, e)
        raise Unsupported("call form")

    def eval_args(self, e, env):
        args = []
        for a in e.args:
            if isinstance(a, ast.Starred):
                args += list(self.iter_concrete(self.ev(a.value, env), a))
            else:
                args.append(self.ev(a, env))
        kwargs = {k.arg: self.ev(k.value, env) for k in e.keywords}
        return args, kwargs

    def call_named(self, name, args, kwargs, node):
        cands = self.ix.functions.get(name, [])
        same = [c for c in cands if c[0] == self.rel]
        pick = same or cands
        if not pick:
            raise Unsupported(f"call to unknown function {name} at L{node.lineno}")
        rel, fn = pick[0]
        return self.call_function((rel, None, fn), args, kwargs, node, qual=name)

    def call_method(self, base, attr, args, kwargs, node):
        from . import builtins as bi
        if attr == "is_integer" and not args and (is_real(lift(base)) or is_int(lift(base))):
            b = lift(base)
            return z3.BoolVal(True) if is_int(b) else z3.IsInt(b)       # float.is_integer(): the value is a whole number (A1: no inf / nan)
        if isinstance(base, Ref):
            h = self.heap[base.id]
            if isinstance(h, Obj):
                m = self.ix.method(h.cls, attr)
                if m is None:
                    ext = getattr(self.c, "extern_methods", {}).get((h.cls, attr))
                    if ext is not None:
                        # method of a class outside the repository (qiskit, ...): the contract supplies its assumed model, listed as an assumption
                        self.assumptions.add(f"external.{h.cls}.{attr}: {ext.__doc__ or 'assumed model supplied by the contract'}")
                        return ext(self, base, list(args))
                    raise Unsupported(f"no method {h.cls}.{attr}")
                return self.call_function(m, [base] + list(args), kwargs, node, bound_cls=m[1], qual=f"{m[1]}.{attr}")
            return bi.container_method(self, base, h, attr, args, kwargs, node)
        if isinstance(base, str):
            raise Unsupported("string method")
        if isinstance(base, Opaque) and base.tag == "rng":
            # numpy Generator: assumed contracts (A4) - random() in [0,1), normal() any real; every call consumes the oracle
            self.assumptions.add("A4.rng: Generator.random() returns a real in [0,1), Generator.normal() a real (oracle; distributions not modelled)")
            v = fresh("rng_" + attr, R)
            if attr == "random":
                self.fact(v >= 0, v < 1)
                return v
            if attr == "normal":
                return v
        raise Unsupported(f"method {attr} on {base!r}")

    def construct(self, cls, args, kwargs, node):
        from . import builtins as bi
        r = bi.construct(self, cls, args, kwargs, node)
        if r is not bi.NOT_HANDLED:
            return r
        # dataclass: fields in order, then __post_init__
        fields = self.ix.class_fields(cls)
        init = self.ix.method(cls, "__init__")
        obj = self.alloc(Obj(cls, ()))
        if init is not None:
            self.call_function(init, [obj] + list(args), kwargs, node, bound_cls=init[1], qual=f"{cls}.__init__")
            return obj
        vals = list(args)
        fv = []
        for k, fname in enumerate(fields):
            if k < len(vals):
                fv.append((fname, vals[k]))
            elif fname in kwargs:
                fv.append((fname, kwargs[fname]))
            elif isinstance(self.ix.class_field_defaults(cls).get(fname), ast.Constant):
                fv.append((fname, self.ev(self.ix.class_field_defaults(cls)[fname], {})))      # literal default of the dataclass field
            else:
                raise Unsupported(f"constructor {cls}: missing {fname}")
        self.heap[obj.id] = Obj(cls, tuple(fv))
        post = self.ix.method(cls, "__post_init__")
        if post is not None:
            self.call_function(post, [obj], {}, node, bound_cls=post[1], qual=f"{cls}.__post_init__")
        return obj

    def find_contract(self, rel, qual, kind="function"):
        key = f"{rel}:{qual}"
        for c in self.registry.get(key, []):
            if getattr(c, "no_callee", False):
                continue        # a contract over one type variant of the arguments only (e.g. one-element lists): not usable at an arbitrary call site
            if c.kind == kind or (kind == "function" and c.kind == "function"):
                return c
        return None

    def call_function(self, m, args, kwargs, node, bound_cls=None, qual=None, kind="function"):
        rel, cls, fn = m
        callee = self.find_contract(rel, qual, kind) if qual else None
        is_self = (rel == self.rel and fn is self.fn)
        if callee is not None and qual.split(".")[-1] not in self.c.inline:
            return self.apply_contract(callee, fn, args, kwargs, node, qual)
        if is_self and qual.split(".")[-1] not in self.c.inline:
            raise Unsupported("recursion without contract")
        if self.depth > 12:
            raise Unsupported("inline depth")
        # inline from real source
        self.inlined.add(f"{rel}:{qual}")
        env = self.bind_args(fn, args, kwargs, node)
        self.cls_stack.append(cls)
        saved_rel = self.rel
        self.rel = rel
        self.depth += 1
        try:
            self.exec_block(fn.body, env)
            return None
        except ReturnEx as r:
            return r.value
        finally:
            self.depth -= 1
            self.rel = saved_rel
            self.cls_stack.pop()

    def bind_args(self, fn, args, kwargs, node):
        a = fn.args
        names = [x.arg for x in a.posonlyargs + a.args]
        env = {}
        for n, v in zip(names, args):
            env[n] = v
        if len(args) > len(names):
            if a.vararg:
                env[a.vararg.arg] = tuple(args[len(names):])
            else:
                raise Unsupported("too many args")
        defaults = dict(zip(reversed(names), reversed(a.defaults)))
        for n in names[len(args):]:
            if n in kwargs:
                env[n] = kwargs[n]
            elif n in defaults:
                env[n] = self.ev(defaults[n], {})
            else:
                raise Unsupported(f"missing argument {n} in call at L{node.lineno}")
        for x, d in zip(a.kwonlyargs, a.kw_defaults):
            if x.arg in kwargs:
                env[x.arg] = kwargs[x.arg]
            elif d is not None:
                env[x.arg] = self.ev(d, {})
        return env

    def apply_contract(self, callee, fn, args, kwargs, node, qual):
        """modular call: obligation = callee.requires; effect = havoc + callee.ensures"""
        self.used_contracts.add(callee.target)
        env = self.bind_args(fn, args, kwargs, node)
        memo_key = None
        if callee.pure:
            if callee.reads is not None:
                rel, cls_, _ = self.ix.find(callee.target)
                self.cls_stack.append(cls_)
                try:
                    vals = [self.spec_val(r, env) for r in callee.reads]
                finally:
                    self.cls_stack.pop()
            else:
                vals = [env[k] for k in sorted(env)]
            memo_key = (callee.target, self._sig(vals))
            pm = self.__dict__.setdefault("pure_memo", {})
            if memo_key in pm:
                return pm[memo_key]      # a pure function of the same arguments and read set: same value (its precondition was checked at the first call)
        saved_cls = list(self.cls_stack)
        rel, cls, _ = self.ix.find(callee.target)
        self.cls_stack.append(cls)
        saved_c, saved_ghost = self.c, self.ghost
        try:
            # evaluate the callee's spec in the callee's naming context, but obligations belong to the caller
            self.c_spec = callee
            pre_heap = dict(self.heap)
            pre_conds = []
            for k, r in enumerate(callee.requires):
                cond = self._callee_spec(callee, r, env, {})
                if not getattr(self, "in_spec", False):
                    self.oblige("call-pre", cond, node, label=f"{qual}#{k}")
                    self.pc.append(cond)
                pre_conds.append(cond)
            # raises
            if callee.raises and not getattr(self, "in_spec", False):
                for exc, cond in callee.raises.items():
                    c = self._callee_spec(callee, cond, env, {})
                    if self.decide(c):
                        raise RaiseEx(exc, node.lineno)
            # havoc modifies
            for path in (callee.modifies or []):
                self.havoc_path(path, env, node)
            res = None
            if callee.result_type:
                res = self.make(f"ret_{qual}_{next_id()}", callee.result_type, "FRESH")
                if isinstance(res, Ref) and isinstance(self.heap[res.id], Mat):
                    # where an entrywise matrix came from: callee and its (first) integer argument, e.g. get_unitary(N)
                    ints = [v for k_, v in env.items() if k_ != "self" and is_int(v)]
                    self.__dict__.setdefault("mat_origin", {})[res.id] = (qual, ints[0] if ints else self.heap[res.id].nr)
            extra = {"result": res, "__old_heap__": pre_heap}
            for lab, post in callee.ensures.items():
                if callee.modular is not None and lab not in callee.modular:
                    continue
                f = self._callee_spec(callee, post, env, extra, old_heap=pre_heap)
                # a fact about fresh symbols (result / havocked state): kept outside guard truncation
                self.fact(z3.Implies(z3.And(*pre_conds), f) if pre_conds else f)
            if memo_key is not None:
                self.__dict__.setdefault("pure_memo", {})[memo_key] = res
                rel_fn = getattr(callee, "pair_facts", None)
                if rel_fn is not None:
                    # relational facts between this call and every earlier call of the same pure function (a lemma about TWO executions, proved
                    # separately and named by the contract - e.g. monotonicity)
                    calls = self.__dict__.setdefault("pure_calls", {}).setdefault(callee.target, [])
                    for (ovals, ores, opre) in calls:
                        for f in rel_fn(self, ovals, ores, vals, res):
                            self.fact(z3.Implies(z3.And(*(pre_conds + opre)), f) if (pre_conds or opre) else f)
                    calls.append((vals, res, list(pre_conds)))
                    self.assumptions.add(getattr(callee, "pair_lemma", "relational lemma supplied by the contract"))
            return res
        finally:
            self.cls_stack = saved_cls

    def _sig(self, vals):
        """signature of argument values including the contents reachable from references (pure-call memoisation)"""
        out = []
        seen = set()

        def walk(v):
            if isinstance(v, Ref):
                if v.id in seen:
                    out.append(("ref", v.id))
                    return
                seen.add(v.id)
                h = self.heap[v.id]
                out.append(("ref", v.id, id(h)))
                if isinstance(h, Obj):
                    for _, x in h.fields:
                        walk(x)
                elif isinstance(h, CList):
                    for x in h.items:
                        walk(x)
            elif is_z3(v):
                out.append(v.sexpr())
            elif isinstance(v, tuple):
                for x in v:
                    walk(x)
            else:
                out.append(repr(v))
        for v in vals:
            walk(v)
        return tuple(out)

    def _callee_spec(self, callee, text, env, extra, old_heap=None):
        saved = self.c
        saved_old = getattr(self, "old_override", None)
        self.c = _SpecView(saved, callee)
        if old_heap is not None:
            self.old_override = (old_heap, env)
        try:
            return self.spec(text, env, extra)
        finally:
            self.c = saved
            self.old_override = saved_old

    def havoc_path(self, path, env, node):
        parts = self.mangle_path(path).split(".")
        v = env[parts[0]]
        for i, p in enumerate(parts[1:], 1):
            if p == "*":
                h = self.heap[v.id]
                new = Obj(h.cls, tuple((k, self.havoc_like(x, f"{k}")) for k, x in h.fields))
                self.store(v, new, node, "callee modifies", None)
                return
            h = self.heap[v.id]
            if i == len(parts) - 1:
                cur = h.get(p)
                if isinstance(cur, Ref):
                    self.store(cur, self.havoc_hobj(self.heap[cur.id], p), node, "callee modifies")
                else:
                    self.store(v, h.set(p, self.havoc_like(cur, p)), node, "callee modifies", p)
                return
            v = h.get(p)
        if isinstance(v, Ref):
            self.store(v, self.havoc_hobj(self.heap[v.id], parts[0]), node, "callee modifies")

    def havoc_like(self, v, name):
        if is_z3(v):
            return fresh(name, v.sort())
        if isinstance(v, CVal):
            return CVal(fresh(name + ".re", R), fresh(name + ".im", R))
        if isinstance(v, Ref):
            self.heap[v.id] = self.havoc_hobj(self.heap[v.id], name)
            return v
        if v is None or isinstance(v, (str, Opaque)):
            return v
        if isinstance(v, tuple):
            return tuple(self.havoc_like(x, name) for x in v)
        raise Unsupported(f"havoc {v!r}")

    def havoc_hobj(self, h, name, keep_len=False):
        if isinstance(h, AList):
            ln = h.len if keep_len else fresh(name + ".len")
            if not keep_len:
                self.pc.append(ln >= 0)
            return AList(ln, fresh(name + ".arr", z3.ArraySort(I, sort_of(h.es))), h.es)
        if isinstance(h, CList):
            if keep_len:
                return CList(tuple(self.havoc_like(x, name) for x in h.items))
            if all(is_z3(lift(x)) for x in h.items):
                a = self.as_alist(h)
                return self.havoc_hobj(a, name)
            raise Unsupported("havoc of concrete list with non-scalar elements")
        if isinstance(h, GList):
            ln = fresh(name + ".len")
            self.pc.append(ln >= 0)
            return GList(ln, ())
        if isinstance(h, ADict):
            d = ADict(fresh(name + ".n"), fresh(name + ".karr", z3.ArraySort(I, I)), fresh(name + ".dom", z3.ArraySort(I, B)),
                      fresh(name + ".val", z3.ArraySort(I, sort_of(h.vs))), fresh(name + ".idx", z3.ArraySort(I, I)), h.vs)
            self.pc += self.wf_dict(d)
            return d
        if isinstance(h, ASet):
            s = ASet(fresh(name + ".dom", z3.ArraySort(I, B)), fresh(name + ".n"))
            self.pc.append(s.n >= 0)
            return s
        if isinstance(h, MatA):
            return MatA(("var", name + f"!{next_id()}"), fresh(name + ".dim"))
        if isinstance(h, Mat):
            return Mat(h.nr, h.nc, fresh(name + ".re", z3.ArraySort(I, I, R)), fresh(name + ".im", z3.ArraySort(I, I, R)))
        if isinstance(h, Obj):
            return Obj(h.cls, tuple((k, self.havoc_like(x, name + "." + k)) for k, x in h.fields))
        if isinstance(h, CDict):
            return CDict(tuple((k, self.havoc_like(x, f"{name}[{k}]")) for k, x in h.items))
        raise Unsupported(f"havoc {h!r}")

    # ------------------------------------------------------------------ statements
    def exec_block(self, stmts, env):
        for st in stmts:
            m = getattr(self, "st_" + type(st).__name__, None)
            if m is None:
                raise Unsupported(f"statement {type(st).__name__} at L{st.lineno}")
            m(st, env)

    def st_Expr(self, st, env):
        if isinstance(st.value, ast.Constant):
            return
        self.ev(st.value, env)

    def st_Pass(self, st, env):
        pass

    def st_Assign(self, st, env):
        v = self.ev(st.value, env)
        for t in st.targets:
            self.assign(t, v, env)

    def st_AnnAssign(self, st, env):
        if st.value is not None:
            self.assign(st.target, self.ev(st.value, env), env)

    def st_AugAssign(self, st, env):
        cur = self.ev(st.target, env)
        r = self.ev(st.value, env)
        if isinstance(cur, Ref) and isinstance(self.heap[cur.id], (AList, CList)) and isinstance(st.op, ast.Add):
            # in-place list extension
            from . import builtins as bi
            bi.container_method(self, cur, self.heap[cur.id], "extend", [r], {}, st)
            return
        self.assign(st.target, self.binop(st.op, cur, r, st), env)

    def assign(self, target, val, env):
        if isinstance(target, ast.Name):
            env[target.id] = val
        elif isinstance(target, (ast.Tuple, ast.List)):
            self.bind(target, val, env)
        elif isinstance(target, ast.Attribute):
            base = self.ev(target.value, env)
            self.setattr(base, target.attr, val, target)
        elif isinstance(target, ast.Subscript):
            base = self.ev(target.value, env)
            if isinstance(target.slice, ast.Slice):
                raise Unsupported("slice assignment")
            idx = self.ev(target.slice, env)
            self.setitem(base, idx, val, target)
        else:
            raise Unsupported("assignment target")

    def setattr(self, base, attr, val, node):
        if not isinstance(base, Ref) or not isinstance(self.heap[base.id], Obj):
            raise Unsupported("attribute store on non-object")
        h = self.heap[base.id]
        name = self.mangle(attr)
        if not h.has(name):
            m = self.ix.method(h.cls, attr, kind="setter")
            if m is not None:
                self.call_function(m, [base, val], {}, node, bound_cls=m[1], qual=f"{m[1]}.{attr}", kind="setter")
                return
        if not h.has(name) and self.prov.get(base.id, "FRESH") != "FRESH":
            # a field that the contract's description of this (non-fresh) object does not know: the code has grown state the contract
            # says nothing about - needs a contract update (undecided, demoted to the native enumerator), not a frame violation
            raise Unsupported(f"store to attribute {name!r} of {h.cls}, which the contract's type does not declare (contract needs updating)")
        self.store(base, h.set(name, val), node, f"{attr} =", name)

    def setitem(self, base, idx, val, node):
        if not isinstance(base, Ref):
            raise Unsupported("item store on non-reference")
        h = self.heap[base.id]
        val = lift(val)
        if isinstance(h, AList):
            i = self.norm_index(idx, h.len, node)
            v = to_real(val) if h.es == "real" else val
            self.store(base, AList(h.len, z3.Store(h.arr, i, v), h.es), node, "[i] =")
            return
        if isinstance(h, CList):
            i = z3.simplify(to_int(lift(idx)))
            if z3.is_int_value(i):
                k = i.as_long()
                self.require(z3.BoolVal(-len(h.items) <= k < len(h.items)), "safe.IndexError", node)
                items = list(h.items)
                items[k] = val
                self.store(base, CList(tuple(items)), node, "[i] =")
                return
            a = self.as_alist(h, "real" if is_real(val) else None)
            i = self.norm_index(idx, a.len, node)
            v = to_real(val) if a.es == "real" else val
            self.store(base, AList(a.len, z3.Store(a.arr, i, v), a.es), node, "[i] =")
            return
        if isinstance(h, ADict):
            k = to_int(lift(idx))
            self.store(base, self.dict_set(h, k, val), node, "[k] =")
            return
        if isinstance(h, CDict):
            k = idx
            if is_z3(k):
                ks = z3.simplify(k)
                if not z3.is_int_value(ks):
                    # symbolic integer key in a dict with a concrete spine: compared with the existing keys one by one (each comparison is a
                    # path decision), overwriting the first equal key or appending a new entry
                    for kk, _ in h.items:
                        if is_z3(lift(kk)) or isinstance(kk, int):
                            if self.decide(ks == lift(kk)):
                                self.store(base, CDict(tuple((a, val if a is kk else b) for a, b in h.items)), node, "[k] =")
                                return
                    self.store(base, CDict(h.items + ((ks, val),)), node, "[k] =")
                    return
                k = ks.as_long()
            self.store(base, h.set(k, val), node, "[k] =")
            return
        if isinstance(h, Mat) and isinstance(idx, tuple) and len(idx) == 3 and isinstance(idx[0], str) and idx[0] == "ix_":
            # M[np.ix_(rows, cols)]: the sub-matrix with entry (a,b) = M[rows[a], cols[b]] (rows / cols may repeat)
            rs, cs = self.as_alist(self.deref(idx[1])), self.as_alist(self.deref(idx[2]))
            t = fresh("t")
            self.require(z3.ForAll([t], z3.Implies(z3.And(0 <= t, t < rs.len), z3.And(0 <= z3.Select(rs.arr, t), z3.Select(rs.arr, t) < h.nr))), "safe.IndexError-rows", node)
            self.require(z3.ForAll([t], z3.Implies(z3.And(0 <= t, t < cs.len), z3.And(0 <= z3.Select(cs.arr, t), z3.Select(cs.arr, t) < h.nc))), "safe.IndexError-cols", node)
            a, b = z3.Int("a!ix"), z3.Int("b!ix")
            re = z3.Lambda([a, b], z3.Select(h.re, z3.Select(rs.arr, a), z3.Select(cs.arr, b)))
            im = z3.Lambda([a, b], z3.Select(h.im, z3.Select(rs.arr, a), z3.Select(cs.arr, b)))
            return self.alloc(Mat(rs.len, cs.len, re, im))
        if isinstance(h, Mat):
            if isinstance(idx, tuple) and len(idx) == 2 and self._is_slice(idx[0]) and self._is_slice(idx[1]):
                # M[a:b, c:d] = B : B must have the shape of the block (numpy would otherwise broadcast or raise ValueError)
                ro, rl = self._norm_slice(idx[0], h.nr, node)
                co, cl = self._norm_slice(idx[1], h.nc, node)
                v = self.deref(val) if isinstance(val, Ref) else None
                if not isinstance(v, Mat):
                    raise Unsupported("block store of a non-matrix")
                self.require(z3.And(v.nr == rl, v.nc == cl), "safe.ValueError-block-shape", node)
                a, b = z3.Int("a!blk"), z3.Int("b!blk")
                inb = z3.And(ro <= a, a < ro + rl, co <= b, b < co + cl)
                self.store(base, Mat(h.nr, h.nc, z3.Lambda([a, b], z3.If(inb, z3.Select(v.re, a - ro, b - co), z3.Select(h.re, a, b))),
                                     z3.Lambda([a, b], z3.If(inb, z3.Select(v.im, a - ro, b - co), z3.Select(h.im, a, b)))), node, "[a:b,c:d] =")
                return
            if isinstance(idx, tuple) and len(idx) == 2:
                i = self.norm_index(idx[0], h.nr, node)
                j = self.norm_index(idx[1], h.nc, node)
                c = to_c(val)
                self.store(base, Mat(h.nr, h.nc, z3.Store(h.re, i, j, c.re), z3.Store(h.im, i, j, c.im), h.base,
                                     (h.chain + ((i, j, c),)) if h.base is not None else ()), node, "[i,j] =")
                return
        if isinstance(h, MatA):
            # the only store modelled on an abstract matrix: setting the new corner of a freshly padded matrix to one
            if (isinstance(idx, tuple) and len(idx) == 2 and all(self._concrete_int(x) == -1 for x in idx) and h.term[0] == "pad0"):
                c = to_c(val)
                one = z3.simplify(z3.And(c.re == 1, c.im == 0))
                if z3.is_true(one):
                    self.store(base, MatA(("pad1", h.term[1]), h.dim), node, "[-1,-1] = 1")
                    return
            raise Unsupported("entry store on an abstract matrix")
        if isinstance(h, Obj):
            self.call_method(base, "__setitem__", [idx, val], {}, node)
            return
        raise Unsupported("item store")

    def dict_set(self, h, k, v):
        if h.vs == "real":
            v = to_real(v)
        elif is_bool(v):
            v = to_int(v)
        if not (is_z3(v) and v.sort() == sort_of(h.vs)):
            raise Unsupported("dict value sort")
        isnew = z3.Not(z3.Select(h.dom, k))
        return ADict(z3.If(isnew, h.n + 1, h.n),
                     z3.If(isnew, z3.Store(h.karr, h.n, k), h.karr),
                     z3.Store(h.dom, k, True),
                     z3.Store(h.val, k, v),
                     z3.If(isnew, z3.Store(h.idx, k, h.n), h.idx), h.vs)

    def st_If(self, st, env):
        c = self.truth(self.ev(st.test, env))
        if self.decide(c):
            self.exec_block(st.body, env)
        else:
            self.exec_block(st.orelse, env)

    def st_Return(self, st, env):
        raise ReturnEx(self.ev(st.value, env) if st.value is not None else None)

    def st_Raise(self, st, env):
        exc = st.exc
        name = None
        if isinstance(exc, ast.Call):
            exc = exc.func
        if isinstance(exc, ast.Name):
            name = exc.id
        elif isinstance(exc, ast.Attribute):
            name = exc.attr
        raise RaiseEx(name or "Exception", st.lineno)

    def st_Try(self, st, env):
        """try / except: an exception raised by the body (explicit raise, or a modelled builtin raising) is matched against the handlers by class
        NAME - `Exception` / a bare except catch everything; class hierarchies of the repository's own exceptions are not modelled."""
        if st.finalbody:
            raise Unsupported("try ... finally")
        try:
            self.exec_block(st.body, env)
        except RaiseEx as r:
            for h in st.handlers:
                names = [None] if h.type is None else ([h.type] if not isinstance(h.type, ast.Tuple) else list(h.type.elts))
                caught = any(n is None or (isinstance(n, ast.Name) and n.id in ("Exception", "BaseException", r.exc)) or
                             (isinstance(n, ast.Attribute) and n.attr == r.exc) for n in names)
                if caught:
                    if h.name:
                        env[h.name] = Opaque("exception", 0)
                    self.exec_block(h.body, env)
                    return
            raise
        else:
            self.exec_block(st.orelse, env)

    def st_Break(self, st, env):
        raise BreakEx()

    def st_Continue(self, st, env):
        raise ContinueEx()

    def st_Assert(self, st, env):
        c = self.truth(self.ev(st.test, env))
        if not self.decide(c):
            raise RaiseEx("AssertionError", st.lineno)

    def st_Import(self, st, env):
        pass

    def st_ImportFrom(self, st, env):
        pass

    # ---- loops
    def loop_spec(self, key):
        for k, v in self.c.loops.items():
            if _norm(k) == _norm(self.mangle_text(key)) or _norm(k) == _norm(key):
                return v
        return None

    def mangle_text(self, s):
        return s

    def mutated_in(self, body, env):
        """syntactic over-approximation of what a loop body changes: names, and heap cells reachable by name"""
        names, refs, fields = set(), {}, set()
        mut_methods = {"append", "pop", "extend", "insert", "remove", "sort", "add", "update", "clear", "discard", "reverse"}
        for st in body:
            for n in ast.walk(st):
                if isinstance(n, ast.Name) and isinstance(n.ctx, ast.Store):
                    names.add(n.id)
                if isinstance(n, (ast.Assign, ast.AugAssign, ast.AnnAssign)):
                    tgts = n.targets if isinstance(n, ast.Assign) else [n.target]
                    for t in tgts:
                        for tt in ([t] if not isinstance(t, (ast.Tuple, ast.List)) else t.elts):
                            if isinstance(tt, ast.Subscript):
                                refs.setdefault(ast.unparse(tt.value), [tt.value, True])
                            if isinstance(tt, ast.Attribute):
                                fields.add((ast.unparse(tt.value), tt.attr))
                                refs.setdefault(ast.unparse(tt.value), [tt.value, True])
                    if isinstance(n, ast.AugAssign) and isinstance(n.target, ast.Name):
                        refs.setdefault(n.target.id, [n.target, False])[1] = False
                if isinstance(n, ast.Call) and isinstance(n.func, ast.Attribute) and n.func.attr in mut_methods:
                    refs.setdefault(ast.unparse(n.func.value), [n.func.value, False])[1] = False
        return names, refs, fields

    def havoc_loop(self, st, env, spec):
        names, refs, fields = self.mutated_in(st.body, env)
        # heap first (expressions evaluated in the pre-loop env)
        saved = getattr(self, "in_spec", False)
        self.in_spec = True
        try:
            for text, (expr, only_store) in refs.items():
                try:
                    v = self.ev(expr, env)
                except (Unsupported, KeyError):
                    continue
                if isinstance(v, Ref):
                    h = self.heap[v.id]
                    if isinstance(h, Obj):
                        continue
                    self.heap[v.id] = self.havoc_hobj(h, text, keep_len=only_store and spec.keep_len)
            for base, attr in fields:
                try:
                    v = self.ev(ast.parse(base, mode="eval").body, env)
                except (Unsupported, KeyError):
                    continue
                if isinstance(v, Ref) and isinstance(self.heap[v.id], Obj):
                    h = self.heap[v.id]
                    name = self.mangle(attr)
                    if h.has(name):
                        self.heap[v.id] = h.set(name, self.havoc_like(h.get(name), name))
        finally:
            self.in_spec = saved
        for n in sorted(names):
            if n in env:
                v = env[n]
                if isinstance(v, Ref):
                    # rebinding of a name to possibly another object: contents havocked, identity kept
                    self.heap[v.id] = self.havoc_hobj(self.heap[v.id], n)
                else:
                    env[n] = self.havoc_like(v, n)

    def st_For(self, st, env):
        it = self.ev(st.iter, env)
        conc = self.try_iter_concrete(it)
        key = ast.unparse(st.iter)
        spec = self.loop_spec(key)
        if conc is not None and spec is None:
            broke = False
            for x in conc:
                self.bind(st.target, x, env)
                try:
                    self.exec_block(st.body, env)
                except BreakEx:
                    broke = True
                    break
                except ContinueEx:
                    continue
            if not broke:
                self.exec_block(st.orelse, env)
            return
        if spec is None:
            raise Unsupported(f"loop over symbolic iterable needs an invariant: key {key!r} at L{st.lineno}")
        seq = self.as_seq(it)
        n = seq.n
        itref = it if isinstance(it, Ref) else None
        def inv_env(e, k, ghost):
            x = dict(e)
            x.update({"_k": k, "_n": n})
            if itref is not None:
                x["_it"] = itref
            x.update(ghost)
            return x
        # ghost init
        ghost = {g: self.spec_val(init, env) for g, (init, _) in spec.ghost.items()}
        for j, inv in enumerate(spec.invariant):
            self.oblige("inv-init", self.spec(inv, inv_env(env, z3.IntVal(0), ghost)), st, label=f"{_short(key)}#{j}")
        # havoc
        self.havoc_loop(st, env, spec)
        k = fresh("_k")
        ghost = {g: fresh(g, lift(v).sort()) for g, v in ghost.items()}
        self.pc += [0 <= k, k <= n]
        for inv in spec.invariant:
            self.pc.append(self.spec(inv, inv_env(env, k, ghost)))
        if self.decide(k < n):
            # one arbitrary iteration
            pre_env = dict(env)
            self.bind(st.target, seq.elem(k), env)
            try:
                try:
                    self.exec_block(st.body, env)
                except ContinueEx:
                    pass
                g2 = {}
                for g, (_, step) in spec.ghost.items():
                    saved_pre = getattr(self, "pre_env", None)
                    self.pre_env = pre_env
                    try:
                        g2[g] = self.spec_val(step, {**env, **ghost, "_k": k, "_n": n})
                    finally:
                        self.pre_env = saved_pre
                for j, inv in enumerate(spec.invariant):
                    self.oblige("inv-pres", self.spec(inv, inv_env(env, k + 1, g2)), st, label=f"{_short(key)}#{j}")
                raise PathEnd()
            except BreakEx:
                self.ghost.update(ghost)
                self.ghost.update({"_k": k, "_n": n, **({"_it": itref} if itref is not None else {})})
                return
        else:
            self.ghost.update(ghost)
            self.ghost.update({"_k": k, "_n": n, **({"_it": itref} if itref is not None else {})})
            self.exec_block(st.orelse, env)

    def st_While(self, st, env):
        key = ast.unparse(st.test)
        spec = self.loop_spec(key)
        if spec is None:
            # bounded unrolling only if the test is concrete at each step
            for _ in range(64):
                c = z3.simplify(self.truth(self.ev(st.test, env)))
                if z3.is_false(c):
                    self.exec_block(st.orelse, env)
                    return
                if not z3.is_true(c):
                    raise Unsupported(f"while loop needs an invariant: key {key!r} at L{st.lineno}")
                try:
                    self.exec_block(st.body, env)
                except BreakEx:
                    return
                except ContinueEx:
                    continue
            raise Unsupported("while unrolling limit")
        ghost = {g: self.spec_val(init, env) for g, (init, _) in spec.ghost.items()}
        for j, inv in enumerate(spec.invariant):
            self.oblige("inv-init", self.spec(inv, {**env, **ghost}), st, label=f"{_short(key)}#{j}")
        self.havoc_loop(st, env, spec)
        ghost = {g: fresh(g, lift(v).sort()) for g, v in ghost.items()}
        for inv in spec.invariant:
            self.pc.append(self.spec(inv, {**env, **ghost}))
        c = self.truth(self.ev(st.test, env))
        if self.decide(c):
            pre_env = dict(env)
            dec0 = self.spec_val(spec.decreases, {**env, **ghost}) if spec.decreases else None
            try:
                try:
                    self.exec_block(st.body, env)
                except ContinueEx:
                    pass
                g2 = {}
                for g, (_, step) in spec.ghost.items():
                    saved_pre = getattr(self, "pre_env", None)
                    self.pre_env = pre_env
                    try:
                        g2[g] = self.spec_val(step, {**env, **ghost})
                    finally:
                        self.pre_env = saved_pre
                for j, inv in enumerate(spec.invariant):
                    self.oblige("inv-pres", self.spec(inv, {**env, **g2}), st, label=f"{_short(key)}#{j}")
                if dec0 is not None:
                    dec1 = self.spec_val(spec.decreases, {**env, **g2})
                    self.oblige("decreases", z3.And(dec0 >= 0, dec1 < dec0), st, label=_short(key))
                raise PathEnd()
            except BreakEx:
                self.ghost.update(ghost)
                return
        else:
            self.ghost.update(ghost)
            self.exec_block(st.orelse, env)

    # ------------------------------------------------------------------ exits
    def on_return(self, env, ret):
        if not self.emitting() and self.n_replay:
            # exit reached entirely inside the replayed prefix cannot happen (the last prefix decision is new)
            pass
        self.cover.append(("return", list(self.pc)))
        extra = {"result": ret}
        c = self.c
        if c.raises is not None:
            for exc, cond in c.raises.items():
                self.oblige("raises", z3.Not(self.spec_old(cond)), self.fn, label=f"no-{exc}-on-return",
                            note=f"normal return although the contract says {exc} iff {cond}")
        for lab, post in c.ensures.items():
            if callable(post):
                saved = getattr(self, "in_spec", False)
                self.in_spec = True
                try:
                    goal = post(self, env, ret)
                finally:
                    self.in_spec = saved
                self.oblige("post", goal, self.fn, label=lab)
                continue
            try:
                # a parameter name in a postcondition denotes the ARGUMENT (its binding at entry; for objects the post-state of that object), as in JML:
                # a function that rebinds a parameter (`x = int(x)`, `if x is None: x = ...`) cannot make a clause about its argument speak of the
                # rebound local instead
                goal = self.spec(post, {**env, **{k_: v_ for k_, v_ in self.env0.items() if k_ in self.param_names}}, extra)
            except Unsupported as e:
                # this clause cannot be evaluated on this exit (typically: it reads a field of a value that the code under test has replaced by
                # something of another kind) - undecided for this clause, the remaining clauses are still checked
                if self.emitting():
                    line = getattr(self.fn, "lineno", 0)
                    name = f"{self.c.target}#post.{lab}@L{line}" + (f"[{self.variant}]" if self.variant else "")
                    self.obls.append(Obligation(name, "post", [], None, line, self.c.target, self.variant, tuple(self.prefix[: self.di]), self.inputs, self.heap0,
                                                f"clause not evaluable on this exit: {e}"))
                continue
            self.oblige("post", goal, self.fn, label=lab)
        self.exits.append(("return", len(self.pc)))

    def on_raise(self, env, r):
        c = self.c
        self.cover.append(("raise:" + r.exc, list(self.pc)))
        node = ast.Pass()
        node.lineno = r.line
        if c.raises is None or r.exc not in c.raises:
            self.oblige("safe", False, node, label=f"unexpected-{r.exc}", note=f"{r.exc} raised but not allowed by the contract")
        else:
            self.oblige("raises", self.spec_old(c.raises[r.exc]), node, label=f"{r.exc}-only-if",
                        note=f"{r.exc} raised outside its stated condition")
        if c.exc_frame:
            self.oblige("exc-frame", self.heap_unchanged(), node, label=r.exc,
                        note="state reachable from the arguments differs from the pre-state on a raising exit")
        self.exits.append(("raise", r.exc))

    def spec_old(self, text):
        saved_heap = self.heap
        self.heap = dict(self.heap0)
        # fresh objects allocated later are not visible in the old heap, arguments are
        try:
            return self.spec(text, self.env0)
        finally:
            self.heap = saved_heap

    def heap_unchanged(self):
        conj = []
        for rid, h0 in self.heap0.items():
            if self.prov.get(rid, "FRESH") == "FRESH":
                continue
            h1 = self.heap[rid]
            if h1 is h0:
                continue
            if isinstance(h0, Obj) and isinstance(h1, Obj):
                for k, v in h0.fields:
                    v1 = h1.get(k)
                    if isinstance(v, Ref) and isinstance(v1, Ref) and v.id == v1.id:
                        continue
                    conj.append(self.equal(v, v1) if not (isinstance(v, Ref) or isinstance(v1, Ref)) else z3.BoolVal(False))
            else:
                conj.append(self.heq(h0, h1))
        return z3.And(*conj) if conj else z3.BoolVal(True)


class _SpecView:
    """contract view used while evaluating a callee's spec inside a caller"""
    def __init__(self, caller, callee):
        self._caller, self._callee = caller, callee

    def __getattr__(self, k):
        if k in ("defs",):
            return getattr(self._callee, k)
        return getattr(self._caller, k)


def _has_quantifier(e):
    seen = set()
    stack = [e]
    while stack:
        x = stack.pop()
        if x.get_id() in seen:
            continue
        seen.add(x.get_id())
        if z3.is_quantifier(x):
            return True
        stack.extend(x.children())
    return False


_ids = [0]


def next_id():
    _ids[0] += 1
    return _ids[0]


def _norm(s):
    return "".join(s.split())


def _short(s):
    s = _norm(s)
    return s if len(s) <= 40 else s[:37] + "..."


def _split_top(s, sep):
    out, depth, cur = [], 0, ""
    for ch in s:
        if ch in "[{(":
            depth += 1
        if ch in "]})":
            depth -= 1
        if ch == sep and depth == 0:
            out.append(cur)
            cur = ""
        else:
            cur += ch
    out.append(cur)
    return out
