"""Run-time evaluation of a pyvc contract on the REAL function (bounded; never counted as proved).

The same `Contract` text that pyvc discharges deductively is interpreted natively here: small concrete inputs are generated from the
contract's type strings, `requires` filters them, the real function of the repository is called, and `raises` (iff), `ensures`,
`exc_frame` and an empty `modifies` are evaluated on the concrete pre / post state.  Two uses:

  * fall-back for a contract that pyvc cannot decide on the current text of the function (restructured code, construct outside the
    subset): the contract is then checked at run time over the generated inputs instead of silently passing;
  * cross-check of assumption A2 (the encoding of Python): a contract PROVED by pyvc that fails here on a concrete input exposes an
    unsound encoder or oracle.

Spec forms supported natively: forall / exists (bound variables range over a finite window), implies, iff, ite, old, at, key_at,
pos_of, mat_at, re, im, cplx, cnt, lsum, same_ref, fresh_ref, same_value, numeric, is_none, real, len/abs/min/max/sum/sorted.
Ghost forms (lam, app, suffix, pre) and contract-defined functions are not evaluable: the clause is skipped and counted.
Numeric equalities are compared with tolerance 1e-9 (floats), everything else exactly.
"""
from __future__ import annotations

import ast
import copy
import importlib
import itertools
import random

WINDOW = range(-2, 7)
TOL = 1e-9


class Skip(Exception):
    pass


# --------------------------------------------------------------------------------------------- helpers available to spec code
class _Undef:
    def __repr__(self):
        return "<undefined>"


UNDEF = _Undef()


def _eq(a, b):
    import numpy as np
    if a is UNDEF or b is UNDEF:
        return False
    if isinstance(a, bool) or isinstance(b, bool):
        return bool(a) == bool(b) if isinstance(a, (bool, int)) and isinstance(b, (bool, int)) else a == b
    num = (int, float, complex, np.number)
    if isinstance(a, num) and isinstance(b, num):
        if a == b:
            return True          # also +-infinity
        return abs(complex(a) - complex(b)) <= TOL * max(1.0, abs(complex(a)), abs(complex(b)))
    if isinstance(a, np.ndarray) or isinstance(b, np.ndarray):
        try:
            return np.shape(a) == np.shape(b) and bool(np.allclose(a, b, atol=TOL, rtol=0))
        except Exception:  # noqa: BLE001
            return False
    if isinstance(a, (list, tuple)) and isinstance(b, (list, tuple)):
        return len(a) == len(b) and all(_eq(x, y) for x, y in zip(a, b))
    r = a == b
    return bool(r)


def _seq(x):
    for attr in ("s",):
        if not isinstance(x, (list, tuple, dict)) and hasattr(x, attr) and isinstance(getattr(x, attr), list):
            return getattr(x, attr)
    return x


def _at(L, i):
    L = _seq(L)
    if isinstance(L, dict):
        return L.get(i, UNDEF)
    try:
        return L[i] if 0 <= i < len(L) else UNDEF
    except TypeError:
        return UNDEF


def _key_at(d, t):
    ks = list(d.keys()) if isinstance(d, dict) else list(d)
    return ks[t] if 0 <= t < len(ks) else UNDEF


def _pos_of(d, x):
    ks = list(d.keys()) if isinstance(d, dict) else list(d)
    return ks.index(x) if x in ks else UNDEF


def _mat_at(M, i, j):
    import numpy as np
    M = np.asarray(M)
    if M.ndim != 2 or not (0 <= i < M.shape[0] and 0 <= j < M.shape[1]):
        return UNDEF
    return complex(M[i, j])


def _cnt(c, i):
    return sum(1 for k in (c.keys() if isinstance(c, dict) else c) if k < i)


def _lsum(L, n=None):
    L = list(_seq(L))
    return sum(L if n is None else L[:max(n, 0)])


def _numeric(x):
    return isinstance(x, (int, float)) and not isinstance(x, bool)


def _skip(*a, **k):
    raise Skip("ghost form")


import math as _math

import numpy as _np

BASE = dict(np=_np, math=_math, __eq__=_eq, at=_at, key_at=_key_at, pos_of=_pos_of, mat_at=_mat_at, re=lambda z: complex(z).real if z is not UNDEF else UNDEF,
            im=lambda z: complex(z).imag if z is not UNDEF else UNDEF, cplx=lambda a, b: complex(a, b), cnt=_cnt, lsum=_lsum,
            same_ref=lambda a, b: a is b, same_value=lambda a, b: _eq(a, b) if not (a is None or b is None) else (a is None and b is None),
            numeric=_numeric, is_none=lambda x: x is None, real=lambda x: float(x), lam=_skip, app=_skip, suffix=_skip, pre=_skip, __suffix__=lambda now, before: list(now)[len(before):],
            len=lambda x: len(_seq(x)), abs=abs, min=min, max=max, sum=sum, sorted=sorted, all=all, any=any, range=range, isinstance=isinstance,
            int=int, float=float, bool=bool, list=list, dict=dict, tuple=tuple, set=set, True_=True, False_=False)


# --------------------------------------------------------------------------------------------- spec compilation
class _Tx(ast.NodeTransformer):
    def __init__(self, cls, argnames, defs, tolerant=True, rt_defs=None):
        self.cls, self.argnames, self.defs, self.tolerant = cls, argnames, defs, tolerant
        self.rt_defs = rt_defs or {}        # run-time counterparts (plain python callables) of contract-defined spec functions

    def visit_Attribute(self, node):
        self.generic_visit(node)
        a = node.attr
        if a.startswith("__") and not a.endswith("__") and self.cls:
            node.attr = f"_{self.cls.lstrip('_')}{a}"
        return node

    def visit_Compare(self, node):
        self.generic_visit(node)
        if len(node.ops) == 1 and isinstance(node.ops[0], (ast.Is, ast.IsNot)) and not (isinstance(node.comparators[0], ast.Constant) and node.comparators[0].value is None):
            # object identity, judged modulo the pre-state snapshot (old(x) denotes the object x itself, not the snapshot copy)
            call = ast.Call(ast.Name("same_ref", ast.Load()), [node.left, node.comparators[0]], [])
            return call if isinstance(node.ops[0], ast.Is) else ast.UnaryOp(ast.Not(), call)
        if self.tolerant and len(node.ops) == 1 and isinstance(node.ops[0], (ast.Eq, ast.NotEq)):
            call = ast.Call(ast.Name("__eq__", ast.Load()), [node.left, node.comparators[0]], [])
            return call if isinstance(node.ops[0], ast.Eq) else ast.UnaryOp(ast.Not(), call)
        return node

    def visit_Call(self, node):
        f = node.func
        name = f.id if isinstance(f, ast.Name) else None
        if name in ("forall", "exists"):
            b = node.args[0]
            names = [b] if isinstance(b, ast.Name) else list(b.elts)
            body = self.visit(node.args[1])
            gens = [ast.comprehension(ast.Name(n.id, ast.Store()), ast.Name("__window__", ast.Load()), [], 0) for n in names]
            return ast.Call(ast.Name("all" if name == "forall" else "any", ast.Load()), [ast.GeneratorExp(body, gens)], [])
        if name == "implies":
            a, c = self.visit(node.args[0]), self.visit(node.args[1])
            return ast.BoolOp(ast.Or(), [ast.UnaryOp(ast.Not(), a), c])
        if name == "iff":
            a, c = self.visit(node.args[0]), self.visit(node.args[1])
            return ast.Compare(ast.Call(ast.Name("bool", ast.Load()), [a], []), [ast.Eq()], [ast.Call(ast.Name("bool", ast.Load()), [c], [])])
        if name == "ite":
            return ast.IfExp(self.visit(node.args[0]), self.visit(node.args[1]), self.visit(node.args[2]))
        if name == "old":
            inner = self.visit(node.args[0])
            lam = ast.Lambda(ast.arguments(posonlyargs=[], args=[ast.arg(a) for a in self.argnames], kwonlyargs=[], kw_defaults=[], defaults=[]), inner)
            return ast.Call(lam, [ast.Subscript(ast.Name("__pre__", ast.Load()), ast.Constant(a), ast.Load()) for a in self.argnames], [])
        if name == "fresh_ref":
            return ast.Call(ast.Name("__fresh__", ast.Load()), [self.visit(node.args[0])], [])
        if name == "suffix":
            # the elements appended to a list since the pre-state: E[len(old(E)):]
            now = self.visit(copy.deepcopy(node.args[0]))
            before = self.visit(ast.Call(ast.Name("old", ast.Load()), [copy.deepcopy(node.args[0])], []))
            return ast.Call(ast.Name("__suffix__", ast.Load()), [now, before], [])
        if name in self.defs:
            if name in self.rt_defs:
                self.generic_visit(node)
                node.func = ast.Name(f"__rt_{name}", ast.Load())
                return node
            raise Skip(f"contract-defined function {name}")
        self.generic_visit(node)
        return node


def compile_spec(src, cls, argnames, defs, tolerant=True, rt_defs=None):
    """tolerant: numeric equalities in postconditions are compared to 1e-9 (results of float arithmetic); preconditions and `raises`
    conditions are evaluated exactly (they decide what the code under test decides with exact comparisons)"""
    tree = ast.parse(src.strip(), mode="eval")
    tree = _Tx(cls, argnames, defs, tolerant, rt_defs).visit(tree)
    ast.fix_missing_locations(tree)
    return compile(tree, "<spec>", "eval")


# --------------------------------------------------------------------------------------------- inputs
def _split_top(s, sep):
    out, depth, cur = [], 0, ""
    for ch in s:
        if ch in "{[(":
            depth += 1
        elif ch in "}])":
            depth -= 1
        if ch == sep and depth == 0:
            out.append(cur)
            cur = ""
        else:
            cur += ch
    if cur:
        out.append(cur)
    return out


def find_class(name):
    from vf.pyvc.source import SourceIndex
    ix = find_class.__dict__.setdefault("ix", SourceIndex())
    if name not in ix.classes:
        raise Skip(f"class {name}")
    rel = ix.classes[name][0]
    mod = importlib.import_module(rel[:-3].replace("/", "."))
    return getattr(mod, name)


def values(t, rnd):
    """a small list of concrete values for a type string"""
    import numpy as np
    from fractions import Fraction
    if callable(t):
        if hasattr(t, "native"):
            return list(t.native(rnd))          # contract-supplied native counterpart of a structured symbolic input
        raise Skip("custom input builder")
    t = t.strip()
    if t.startswith("opaque:"):
        tag = t[7:]
        samples = {"int": [7], "str": ["abc"], "float": [0.5], "list": [[1, 2]], "tuple": [(1, 2)], "dict": [{1: 2}], "object": [object()], "NoneType": [None]}
        if tag == "rng":
            return [np.random.default_rng(k) for k in (0, 1, 2)]
        if tag in samples:
            return samples[tag]
        raise Skip(f"type {t}")
    if t == "glist":
        return [[]]          # an arbitrary list whose content the contract does not look at: natively the empty list
    if t == "int":
        return [-1, 0, 1, 2, 3]
    if t == "nat":
        return [0, 1, 2, 3]
    if t == "real":
        return [-0.5, -5e-13, 0.0, 0.25, 0.5, 1.0, 1.0 + 4e-10, 1.5]      # incl. values a hair outside 0 and 1 (tolerance bugs at bounds)
    if t == "bool":
        return [False, True]
    if t == "none":
        return [None]
    if t.startswith("'"):
        return [t.strip("'")]
    if t.startswith("const:"):
        v = eval(t[6:], {"Fraction": Fraction})
        return [float(v) if isinstance(v, Fraction) else v]
    if t.startswith("list["):
        es = values(t[5:-1], rnd)[:4]
        out = [[]] + [[a] for a in es] + [[a, b] for a in es[:3] for b in es[:3]]
        out += [[rnd.choice(es) for _ in range(3)] for _ in range(4)]
        return out
    if t.startswith("clist["):
        n, es = t[6:-1].split(":", 1)
        vs = values(es, rnd)[:4]
        return [list(c) for c in itertools.islice(itertools.product(vs, repeat=int(n)), 40)]
    if t.startswith("dict[int,"):
        vs = values(t[9:-1], rnd)[:3]
        out = [{}]
        for keys in ([0], [2], [0, 1], [1, 0], [2, 0], [0, 1, 2], [2, 0, 1], [3, 1]):
            for _ in range(2):
                out.append({k: rnd.choice(vs) for k in keys})
        return out
    if t == "set[int]":
        return [set(), {0}, {1, 2}, {0, 2, 3}]
    if t.startswith("mat"):
        out = []
        for n in (0, 1, 2, 3):
            out.append(np.array([[complex(i * n + j + 1, i - 2 * j - 1) for j in range(n)] for i in range(n)], dtype=complex).reshape(n, n))
        return out
    if t.startswith("obj:"):
        head, _, rest = t[4:].partition("{")
        cls = find_class(head)
        fields = []
        if rest:
            for item in _split_top(rest[:-1], ";"):
                if item.strip():
                    fn_, _, ft = item.partition(":")
                    fn_ = fn_.strip()
                    if fn_.startswith("__") and not fn_.endswith("__"):
                        fn_ = f"_{head.lstrip('_')}{fn_}"
                    fields.append((fn_, values(ft.strip(), rnd)))
        # field values drawn independently per object (the first N of the cartesian product would keep the leading fields at their first pool value)
        combos = list(itertools.islice(itertools.product(*[v for _, v in fields]), 60))
        combos += [tuple(rnd.choice(v) for _, v in fields) for _ in range(340)] if all(v for _, v in fields) else []
        rnd.shuffle(combos)
        out = []
        for combo in combos[:24]:
            def mk(combo=combo):
                o = object.__new__(cls)
                for (fn_, _), v in zip(fields, combo):
                    object.__setattr__(o, fn_, copy.deepcopy(v) if not callable(v) else v()) if True else None
                return o
            out.append(mk)
        return out
    raise Skip(f"type {t}")


def materialise(v):
    return v() if callable(v) and getattr(v, "__name__", "") in ("mk", "<lambda>") else copy.deepcopy(v)


def variants(types):
    keys = [k for k, v in types.items() if isinstance(v, (list, tuple))]
    if not keys:
        return [dict(types)]
    out = []
    for combo in itertools.product(*[types[k] for k in keys]):
        t = dict(types)
        t.update(dict(zip(keys, combo)))
        out.append(t)
    return out


def gen_inputs(c, limit, seed=0):
    rnd = random.Random(seed)
    for vt in variants(c.types):
        names = [n for n in vt if not n.startswith("@")]
        pools = [values(vt[n], rnd) for n in names]
        total = 1
        for p in pools:
            total *= max(len(p), 1)
        if total <= limit:
            combos = itertools.product(*pools)
        else:
            combos = (tuple(rnd.choice(p) for p in pools) for _ in range(limit))
        for combo in combos:
            yield {n: materialise(v) for n, v in zip(names, combo)}


# --------------------------------------------------------------------------------------------- running
def load(target, kind, ordinal=0):
    rel, qual = target.split(":")
    mod = importlib.import_module(rel[:-3].replace("/", "."))
    parts = qual.split(".")
    if len(parts) == 1:
        return None, getattr(mod, parts[0])
    cls = getattr(mod, parts[0])
    name = parts[1]
    raw = None
    for k in cls.__mro__:
        if name in k.__dict__:
            raw = k.__dict__[name]
            break
    if isinstance(raw, property):
        return cls, (raw.fget if kind != "setter" else raw.fset)
    if isinstance(raw, staticmethod):
        return cls, raw.__func__
    return cls, getattr(cls, name)


def describe(v, depth=0):
    import numpy as np
    if isinstance(v, np.ndarray):
        return f"array{v.shape}" if v.size > 9 else np.round(v, 4).tolist()
    if isinstance(v, (int, float, complex, str, bool, type(None))):
        return v
    if isinstance(v, (list, tuple)):
        return [describe(x, depth + 1) for x in v][:8]
    if isinstance(v, dict):
        return {str(k): describe(x, depth + 1) for k, x in list(v.items())[:8]}
    if isinstance(v, set):
        return sorted(v)
    if depth > 2:
        return type(v).__name__
    d = {}
    for k in list(getattr(v, "__dict__", {})) + [s for s in getattr(type(v), "__slots__", ()) if isinstance(s, str)]:
        try:
            d[k] = describe(getattr(v, k), depth + 1)
        except Exception:  # noqa: BLE001
            pass
    return {type(v).__name__: d}


def _same(a, b, depth=0):
    """deep structural equality of two argument values (pre-state copy vs post-state)"""
    import numpy as np
    if type(a) is not type(b):
        return False
    if isinstance(a, np.ndarray):
        return a.shape == b.shape and bool((a == b).all())
    if isinstance(a, (int, float, complex, str, bool, type(None))):
        return a == b or (a != a and b != b)
    if isinstance(a, (list, tuple)):
        return len(a) == len(b) and all(_same(x, y, depth + 1) for x, y in zip(a, b))
    if isinstance(a, dict):
        return list(a.keys()) == list(b.keys()) and all(_same(a[k], b[k], depth + 1) for k in a)
    if isinstance(a, set):
        return a == b
    if depth > 6:
        return True
    names = list(getattr(a, "__dict__", {})) + [s for s in getattr(type(a), "__slots__", ()) if isinstance(s, str)]
    for k in names:
        try:
            x, y = getattr(a, k), getattr(b, k)
        except AttributeError:
            continue
        if not _same(x, y, depth + 1):
            return False
    return True


def _reachable_ids(v, acc, depth=0):
    if id(v) in acc or depth > 6 or isinstance(v, (int, float, complex, str, bool, type(None))):
        return
    acc.add(id(v))
    if isinstance(v, (list, tuple, set)):
        for x in v:
            _reachable_ids(x, acc, depth + 1)
    elif isinstance(v, dict):
        for x in v.values():
            _reachable_ids(x, acc, depth + 1)
    else:
        for k in list(getattr(v, "__dict__", {})) + [s for s in getattr(type(v), "__slots__", ()) if isinstance(s, str)]:
            try:
                _reachable_ids(getattr(v, k), acc, depth + 1)
            except AttributeError:
                pass


def exception_classes(names):
    import builtins
    out = {}
    for n in names:
        if hasattr(builtins, n):
            out[n] = getattr(builtins, n)
            continue
        for modname in ("lightworks.sdk.utils", "lightworks.emulator.utils", "lightworks.sdk.utils.exceptions", "lightworks.emulator.utils.exceptions"):
            try:
                m = importlib.import_module(modname)
            except Exception:  # noqa: BLE001
                continue
            if hasattr(m, n):
                out[n] = getattr(m, n)
                break
        else:
            raise Skip(f"exception class {n}")
    return out


class _Timeout(BaseException):
    pass


class _time_limit:
    def __init__(self, s):
        self.s = s

    def __enter__(self):
        import signal
        import threading
        self.on = threading.current_thread() is threading.main_thread()
        if self.on:
            def h(sig, frm):
                raise _Timeout()
            self.old = signal.signal(signal.SIGALRM, h)
            signal.setitimer(signal.ITIMER_REAL, self.s)

    def __exit__(self, *a):
        import signal
        if self.on:
            signal.setitimer(signal.ITIMER_REAL, 0)
            signal.signal(signal.SIGALRM, self.old)
        return False


def check_contract(c, limit=400, seed=0, max_fail=1):
    """-> dict(cases, skipped_clauses, failing_input, observed, status)"""
    import warnings
    res = dict(cases=0, considered=0, skipped_clauses=[], failing_input=None, observed=None, status="ok")
    try:
        cls, fn = load(c.target, c.kind, c.ordinal)
    except Exception as e:  # noqa: BLE001
        return dict(res, status="unavailable", reason=f"cannot load {c.target}: {type(e).__name__}: {e}")
    if c.ordinal:
        return dict(res, status="unavailable", reason="multimethod registration selected by ordinal")
    clsname = c.target.split(":")[1].split(".")[0] if "." in c.target.split(":")[1] else None
    import inspect
    try:
        params = [p for p in inspect.signature(fn).parameters]
    except (TypeError, ValueError):
        params = [n for n in c.types if not n.startswith("@")]
    argnames = [n for n in c.types if not n.startswith("@")]
    extra = [n for n in argnames if n not in params]
    if extra:
        return dict(res, status="unavailable", reason=f"ghost inputs {extra}")
    spec_args = list(dict.fromkeys(argnames + ["result"]))

    rt_defs = getattr(c, "rt_defs", None) or {}
    extras = {f"__rt_{k}": v for k, v in rt_defs.items()}

    def comp(src, tolerant=True):
        # names of repository classes used in the clause (isinstance(x, Parameter) ...) are bound to the real classes
        for n_ in ast.walk(ast.parse(src.strip(), mode="eval")):
            if isinstance(n_, ast.Name) and n_.id not in BASE and n_.id not in spec_args and n_.id not in extras and n_.id[:1].isupper():
                try:
                    extras[n_.id] = find_class(n_.id)
                except Exception:  # noqa: BLE001
                    pass
        return compile_spec(src, clsname, spec_args, c.defs or {}, tolerant, rt_defs)
    try:
        requires = [comp(r, False) for r in c.requires]
    except (Skip, SyntaxError) as e:
        return dict(res, status="unavailable", reason=f"requires not evaluable natively: {e}")
    ensures, raises = {}, {}
    for label, src in (c.ensures or {}).items():
        if callable(src):
            res["skipped_clauses"].append(f"post.{label} (python callable over the symbolic state)")
            continue
        try:
            ensures[label] = comp(src)
        except (Skip, SyntaxError) as e:
            res["skipped_clauses"].append(f"post.{label} ({e})")
    if c.raises is not None:
        try:
            excs = exception_classes(list(c.raises))
        except Skip as e:
            return dict(res, status="unavailable", reason=str(e))
        for en, src in c.raises.items():
            try:
                raises[en] = comp(src, False)
            except (Skip, SyntaxError) as e:
                res["skipped_clauses"].append(f"raises.{en} ({e})")
    try:
        gen = gen_inputs(c, limit, seed)
        first = next(gen, None)
    except Skip as e:
        return dict(res, status="unavailable", reason=f"inputs cannot be generated from the type strings: {e}")
    if first is None:
        return dict(res, status="unavailable", reason="no inputs")

    def ns(args, pre, result=None, fresh_base=()):
        d = dict(BASE)
        d.update(extras)
        d.update(args)
        d["result"] = result
        d["__pre__"] = dict(pre, result=result)
        d["__window__"] = WINDOW
        d["__fresh__"] = lambda x: id(x) not in fresh_base
        d["same_ref"] = lambda a, b: rev.get(id(a), a) is rev.get(id(b), b)
        return d
    rev = {}
    for args in itertools.chain([first], gen):
        res["considered"] += 1
        memo = {}
        pre = copy.deepcopy(args, memo)
        # snapshot copy -> the object it was copied from: `old(x)` evaluates on the snapshot, object identity is that of the original
        rev.clear()
        rev.update({id(memo[id(o)]): o for o in memo.get(id(memo), []) if id(o) in memo})
        try:
            ok = all(eval(r, ns(args, pre)) for r in requires)
        except Exception:  # noqa: BLE001
            continue
        if not ok:
            continue
        res["cases"] += 1
        base_ids = set()
        for v in args.values():
            _reachable_ids(v, base_ids)
        call_args = [args[p] for p in params if p in args]
        raised, result = None, None
        with warnings.catch_warnings():
            warnings.simplefilter("ignore")
            try:
                with _time_limit(2.0):
                    result = fn(*call_args)
            except _Timeout:
                res["timeouts"] = res.get("timeouts", 0) + 1       # partial correctness: a call that does not return is not judged
                if res["timeouts"] > 5:
                    break
                continue
            except Exception as e:  # noqa: BLE001
                raised = e
        inp = {k: describe(v) for k, v in pre.items()}

        def fail(msg):
            res["failing_input"] = inp
            res["observed"] = msg
            res["status"] = "violated"
            return res
        if c.raises is not None:
            for en, cond in raises.items():
                try:
                    want = bool(eval(cond, ns(pre, pre)))
                except Exception:  # noqa: BLE001
                    continue
                if raised is not None and isinstance(raised, excs[en]) and type(raised).__name__ == en and not want:
                    return fail(f"raised {en} although its condition does not hold: {raised}")
                if raised is None and want:
                    return fail(f"returned normally although the contract says {en} is raised for this input")
            if raised is not None and not any(type(raised).__name__ == en for en in (c.raises or {})):
                return fail(f"raised {type(raised).__name__}: {raised} (not among the exceptions of the contract {list(c.raises)})")
        elif raised is not None:
            continue
        if raised is not None:
            if c.exc_frame and not all(_same(pre[k], args[k]) for k in args):
                return fail(f"the call raised {type(raised).__name__} but changed its arguments: {({k: describe(v) for k, v in args.items()})}")
            continue
        for label, code in ensures.items():
            try:
                ok = bool(eval(code, ns(args, pre, result, base_ids)))
            except Skip:
                continue
            except Exception as e:  # noqa: BLE001
                res.setdefault("eval_errors", []).append(f"post.{label}: {type(e).__name__}: {e}")
                continue
            if not ok:
                return fail(f"post.{label} is false; result = {describe(result)}")
        if c.modifies == [] and not all(_same(pre[k], args[k]) for k in args):
            return fail(f"modifies nothing, but the arguments changed: {({k: describe(v) for k, v in args.items()})}")
    if res["cases"] == 0:
        res["status"] = "unavailable"
        res["reason"] = "no generated input satisfies the precondition"
    if res.get("eval_errors"):
        res["eval_errors"] = sorted(set(res["eval_errors"]))[:5]
    return res


if __name__ == "__main__":
    import sys
    mod = importlib.import_module(sys.argv[1])
    sub = sys.argv[2] if len(sys.argv) > 2 else ""
    for c in mod.CONTRACTS:
        if sub in c.target:
            r = check_contract(c)
            print(c.target.split(":")[1], getattr(c, "label", ""), r["status"], "cases", r["cases"], r.get("reason") or "", r.get("observed") or "",
                  "| skipped:", len(r["skipped_clauses"]), r.get("eval_errors") or "")
            if r["failing_input"]:
                print("    ", r["failing_input"])
