"""Reads obligation for the cached distributions of Sampler / QuickSampler (C11): *reads ⊆ snapshot*.

The cached distribution is recomputed only when the configuration snapshot (`_gen_calculation_values`) differs from the live
configuration.  For that to be sound, everything the recomputation READS from `self` must be determined by the snapshot.  This
pass extracts, from the real AST on every run,
  * R = the attribute chains rooted at `self` that the recomputation reads: the body of the `probability_distribution` getter
        plus every `self._helper(...)` method it calls (transitively, same class), and
  * S = the attribute chains stored by `_gen_calculation_values` (list literal, `append`, and the `for prop in [...]: getattr(
        self.source, prop)` idiom),
maps both to *configuration keys* through the small table below (the reads contract of the callees: e.g. `circuit._build()`
is determined by the circuit's U_full, n_modes and heralds) and checks  keys(R) ⊆ keys(S).

Verdicts: a key read but not in the snapshot -> refuted (the cache can go stale: names the key and the line of the read);
an attribute chain the table does not know -> unknown (undecided, never an alarm); otherwise proved.
"""
from __future__ import annotations

import ast
import os

# configuration keys determined by / determining each attribute chain (after stripping `self.` and name mangling)
READS = {
    "circuit.input_modes": {"circuit.n_modes", "circuit.heralds"},
    "circuit.heralds": {"circuit.heralds"},
    "circuit.n_modes": {"circuit.n_modes"},
    "circuit._build": {"circuit.U_full", "circuit.n_modes", "circuit.heralds"},
    "circuit.U_full": {"circuit.U_full"},
    "circuit.U": {"circuit.U_full", "circuit.n_modes"},
    "circuit": set(),                       # the bare object (passed on / type checked); its attributes are listed separately
    "input_state": {"input_state"},
    "input_state.n_photons": {"input_state"},
    "source._build_statistics": {"source.brightness", "source.purity", "source.indistinguishability", "source.probability_threshold"},
    "source.brightness": {"source.brightness"}, "source.purity": {"source.purity"},
    "source.indistinguishability": {"source.indistinguishability"}, "source.probability_threshold": {"source.probability_threshold"},
    "source": set(),
    "backend": {"backend.backend", "settings.sampler_probability_threshold"}, "backend.backend": {"backend.backend"},   # handing the backend on = computing with it
    "backend.probability": set(),           # QuickSampler's private permanent backend: fixed at construction, not configurable
    "backend.full_probability_distribution": {"backend.backend", "settings.sampler_probability_threshold"},   # the backend truncates with the global setting
    "settings.sampler_probability_threshold": {"settings.sampler_probability_threshold"},
    "post_select": {"post_select"}, "post_select.validate": {"post_select"},
    "photon_counting": {"photon_counting"},
}
# attributes that are outputs / caches of the recomputation itself or helpers, not configuration
IGNORE = {"probability_distribution", "calculation_values", "continuous_distribution", "full_to_heralded", "_check_parameter_updates", "_gen_calculation_values",
          "_convert_to_continuous", "_calculate_probabiltiies"}


def chain(node):
    parts = []
    while isinstance(node, ast.Attribute):
        parts.append(node.attr)
        node = node.value
    if isinstance(node, ast.Name) and node.id == "self":
        return list(reversed(parts))
    if isinstance(node, ast.Name) and node.id == "settings" and parts:
        return ["settings"] + list(reversed(parts))       # the package-wide settings object: configuration like any attribute of self
    return None


def norm(parts, cls):
    out = []
    for p in parts:
        p = p[2:] if p.startswith("__") and not p.endswith("__") else p
        out.append(p)
    return out


def collect_reads(cd, fn, seen):
    """attribute chains rooted at self read in fn (transitively through self._helper() calls of the same class)"""
    reads = []
    for n in ast.walk(fn):
        if isinstance(n, ast.Attribute) and isinstance(n.ctx, ast.Load):
            c = chain(n)
            if c:
                # keep maximal chains only: skip if this node is the .value of another Attribute (handled by the parent)
                reads.append((norm(c, cd.name), n.lineno, n))
        if isinstance(n, ast.Call) and isinstance(n.func, ast.Attribute):
            c = chain(n.func)
            if c and len(c) == 1 and c[0] not in seen:
                for m in cd.body:
                    if isinstance(m, ast.FunctionDef) and m.name == c[0] and not any(isinstance(d, ast.Attribute) and d.attr == "setter" for d in m.decorator_list):
                        seen.add(c[0])
                        reads += collect_reads(cd, m, seen)
    return reads


def maximal(reads):
    inner = set()
    for _, _, n in reads:
        if isinstance(n.value, ast.Attribute):
            inner.add(id(n.value))
    return [(c, ln) for c, ln, n in reads if id(n) not in inner]


def snapshot_keys(fn, cls):
    keys, unknown = set(), []
    for n in ast.walk(fn):
        if isinstance(n, ast.Attribute) and isinstance(n.ctx, ast.Load):
            c = chain(n)
            if c:
                k = ".".join(norm(c, cls))
                if k in READS:
                    keys |= READS[k]
        if isinstance(n, ast.For) and isinstance(n.iter, ast.List):
            # for prop in ["brightness", ...]: vals.append(getattr(self.source, prop))
            names = [e.value for e in n.iter.elts if isinstance(e, ast.Constant) and isinstance(e.value, str)]
            for m in ast.walk(n):
                if isinstance(m, ast.Call) and isinstance(m.func, ast.Name) and m.func.id == "getattr" and len(m.args) == 2:
                    c = chain(m.args[0])
                    if c:
                        for nm in names:
                            keys.add(".".join(norm(c, cls)) + "." + nm)
    return keys


def analyse(repo, rel, clsname):
    path = os.path.join(repo, rel)
    name = f"{rel}:{clsname}.probability_distribution#reads.subset-of-snapshot"
    try:
        tree = ast.parse(open(path).read())
        cd = next(n for n in tree.body if isinstance(n, ast.ClassDef) and n.name == clsname)
        getter = next(m for m in cd.body if isinstance(m, ast.FunctionDef) and m.name == "probability_distribution"
                      and any(isinstance(d, ast.Name) and d.id == "property" for d in m.decorator_list))
        snap = next(m for m in cd.body if isinstance(m, ast.FunctionDef) and m.name == "_gen_calculation_values")
    except (OSError, SyntaxError, StopIteration) as e:
        return dict(name=name, kind="reads", result="unknown", backend="ast reads pass", ms=0, reason=f"structure not found: {e!r}")
    S = snapshot_keys(snap, clsname)
    if "circuit.U_full" in S:
        S.add("circuit.n_modes")        # the dimension of U_full is the (full) mode count
    R = maximal(collect_reads(cd, getter, {"probability_distribution", "_gen_calculation_values", "_check_parameter_updates"}))
    missing, unknown = [], []
    for c, ln in R:
        if c[0] in IGNORE or (len(c) == 1 and c[0].startswith("_") and c[0] not in ("_build",)):
            continue
        k = ".".join(c)
        # longest known prefix
        deps = None
        for cut in range(len(c), 0, -1):
            kk = ".".join(c[:cut])
            if kk in READS:
                deps = READS[kk]
                if cut < len(c) and not READS[kk] and kk in ("circuit", "source"):
                    deps = None      # unknown attribute of a configuration object
                break
        if deps is None:
            unknown.append((k, ln))
            continue
        for d in sorted(deps):
            if d not in S:
                missing.append((d, k, ln))
    o = dict(name=name, kind="reads", backend="ast reads pass (reads of the recomputation vs snapshot keys)", ms=0,
             note=f"snapshot keys: {sorted(S)}; {len(R)} attribute reads in the recomputation")
    if missing:
        d, k, ln = missing[0]
        o["result"] = "refuted"
        o["model"] = dict(read=k, line=ln, needs_key=d, snapshot=sorted(S), all_missing=sorted({m[0] for m in missing}))
        o["note"] = f"the recomputation reads self.{k} (line {ln}), determined by {d}, which the configuration snapshot does not contain: the cached distribution can go stale"
    elif unknown:
        o["result"] = "unknown"
        o["reason"] = f"attribute chains outside the reads table: {unknown[:4]}"
    else:
        o["result"] = "proved"
    return o


def analyse_order(repo, rel, clsname):
    """the snapshot is stored only AFTER the distribution has been computed and stored: a recalculation that raises must leave the
    object looking out of date (otherwise the next read silently serves the previous configuration's distribution)"""
    name = f"{rel}:{clsname}.probability_distribution#snapshot.stored-after-computation"
    o = dict(name=name, kind="reads", backend="ast reads pass (statement order in the recomputation branch)", ms=0)
    try:
        tree = ast.parse(open(os.path.join(repo, rel)).read())
        cd = next(n for n in tree.body if isinstance(n, ast.ClassDef) and n.name == clsname)
        getter = next(m for m in cd.body if isinstance(m, ast.FunctionDef) and m.name == "probability_distribution"
                      and any(isinstance(d, ast.Name) and d.id == "property" for d in m.decorator_list))
    except (OSError, SyntaxError, StopIteration) as e:
        return dict(o, result="unknown", reason=f"structure not found: {e!r}")

    def stores(st, attr):
        return any(isinstance(t, ast.Attribute) and chain(t) and norm(chain(t), clsname) == [attr] for x in ast.walk(st) if isinstance(x, (ast.Assign, ast.AnnAssign, ast.AugAssign))
                   for t in (x.targets if isinstance(x, ast.Assign) else [x.target]))
    snap_at, dist_at, last_call = [], [], None
    order = []
    for st in ast.walk(getter):
        if isinstance(st, ast.stmt) and not isinstance(st, (ast.If, ast.For, ast.While, ast.With, ast.Try, ast.FunctionDef)):
            order.append(st)
    order.sort(key=lambda n: (n.lineno, n.col_offset))
    for k, st in enumerate(order):
        if stores(st, "calculation_values"):
            snap_at.append((k, st.lineno))
        if stores(st, "probability_distribution"):
            dist_at.append((k, st.lineno))
    if not snap_at or not dist_at:
        return dict(o, result="unknown", reason="the getter does not store both the snapshot and the distribution (shape not recognised)")
    if min(k for k, _ in snap_at) < max(k for k, _ in dist_at):
        ln = min(l for _, l in snap_at)
        return dict(o, result="refuted", model=dict(snapshot_line=ln, distribution_line=max(l for _, l in dist_at)),
                    note=f"the configuration snapshot is stored at line {ln}, before the distribution is computed and stored (line {max(l for _, l in dist_at)}): "
                         "if the computation raises, the next read serves the previous distribution as if it were current")
    return dict(o, result="proved", note=f"snapshot stored at line {snap_at[0][1]}, after the distribution (line {dist_at[-1][1]})")


def unit(tier="quick", seed=0):
    from vf.pyvc.source import REPO
    obs = [analyse(REPO, "lightworks/emulator/simulation/sampler.py", "Sampler"),
           analyse(REPO, "lightworks/emulator/simulation/quick_sampler.py", "QuickSampler"),
           analyse_order(REPO, "lightworks/emulator/simulation/sampler.py", "Sampler"),
           analyse_order(REPO, "lightworks/emulator/simulation/quick_sampler.py", "QuickSampler")]
    return dict(status="ok", obligations=obs, summary="; ".join(f"{o['name'].split(':')[1].split('#')[1]}[{o['name'].split(':')[1].split('.')[0]}]: {o['result']}" for o in obs),
                trusted=["reads table of vf/pyvc/readsframe.py (which configuration keys determine circuit._build(), source._build_statistics(), ...)"])


if __name__ == "__main__":
    import sys
    for cls, rel in (("Sampler", "lightworks/emulator/simulation/sampler.py"), ("QuickSampler", "lightworks/emulator/simulation/quick_sampler.py")):
        o = analyse(sys.argv[1] if len(sys.argv) > 1 else "/repo", rel, cls)
        print(o["result"], o["name"], o.get("model") or o.get("reason") or "", "|", o["note"][:300])
