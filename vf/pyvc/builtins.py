"""Builtin / library models and the spec-only forms of pyvc.

Every model that is an *assumed contract* of a Python builtin or a library
function registers itself in ex.assumptions so that the evidence lists it.
"""
from __future__ import annotations

import ast
from fractions import Fraction

import z3

from .values import (AList, ADict, ASet, CDict, CList, CVal, GList, I, R, B, Mat, MatA, Obj, Opaque, RangeV, Ref, Unsupported,
                     fresh, is_bool, is_int, is_real, is_z3, lift, numeric_join, sort_of, to_c, to_int, to_real)

NOT_HANDLED = object()


def _bound(ex, target):
    if isinstance(target, ast.Name):
        names = [target.id]
    elif isinstance(target, ast.Tuple):
        names = [t.id for t in target.elts]
    else:
        raise Unsupported("quantifier binder")
    return names


# --------------------------------------------------------------------------- spec-only forms
def spec_call(ex, name, e, env):
    if name in ("forall", "exists"):
        names = _bound(ex, e.args[0])
        vs = [z3.Int(f"{n}!q{id(e) % 100000}") for n in names]
        env2 = dict(env)
        env2.update(dict(zip(names, vs)))
        body = ex.truth(ex.ev(e.args[1], env2))
        return z3.ForAll(vs, body) if name == "forall" else z3.Exists(vs, body)
    if name == "lam":
        # lam(t, expr): the function t -> expr as a z3 array (ghost maps)
        names = _bound(ex, e.args[0])
        vs = [z3.Int(f"{n}!lam{id(e) % 100000}") for n in names]
        env2 = dict(env)
        env2.update(dict(zip(names, vs)))
        return z3.Lambda(vs, lift(ex.ev(e.args[1], env2)))
    if name == "app":
        f = ex.ev(e.args[0], env)
        return z3.Select(f, *[to_int(lift(ex.ev(a, env))) for a in e.args[1:]])
    if name == "implies":
        a = ex.truth(ex.ev(e.args[0], env))
        if z3.is_false(z3.simplify(a)):
            return z3.BoolVal(True)
        if not ex.feasible(a):
            return z3.BoolVal(True)     # antecedent excluded by the path condition: the consequent is not evaluated (it may not even be well defined)
        saved = len(ex.pc)
        ex.pc.append(a)
        try:
            b = ex.truth(ex.ev(e.args[1], env))
        finally:
            del ex.pc[saved:]
        return z3.Implies(a, b)
    if name == "iff":
        return ex.truth(ex.ev(e.args[0], env)) == ex.truth(ex.ev(e.args[1], env))
    if name == "old":
        ov = getattr(ex, "old_override", None)
        saved_heap = ex.heap
        if ov is not None:
            ex.heap = dict(ov[0])
            env0 = ov[1]
        else:
            ex.heap = dict(ex.heap0)
            env0 = ex.env0
        try:
            return ex.ev(e.args[0], {**env, **env0})
        finally:
            ex.heap = saved_heap
    if name == "pre":
        # value of an expression at the start of the current loop iteration
        pe = getattr(ex, "pre_env", None)
        if pe is None:
            raise Unsupported("pre() outside a ghost step")
        return ex.ev(e.args[0], {**env, **pe})
    if name == "ite":
        c = ex.truth(ex.ev(e.args[0], env))
        a, b = lift(ex.ev(e.args[1], env)), lift(ex.ev(e.args[2], env))
        if is_z3(a) and is_z3(b) and a.sort() != b.sort():
            a, b = numeric_join(a, b)
        return z3.If(c, a, b)
    if name == "at":
        # at(L, i): element without safety obligation
        h = ex.deref(ex.ev(e.args[0], env))
        i = to_int(lift(ex.ev(e.args[1], env)))
        if isinstance(h, AList):
            return z3.Select(h.arr, i)
        if isinstance(h, CList):
            a = ex.as_alist(h)
            return z3.Select(a.arr, i)
        if isinstance(h, ADict):
            return z3.Select(h.val, i)
        if isinstance(h, Obj):
            for k, v in h.fields:
                if isinstance(v, Ref) and isinstance(ex.heap[v.id], (AList, CList)):
                    return z3.Select(ex.as_alist(ex.heap[v.id]).arr, i)
        raise Unsupported("at()")
    if name == "key_at":
        h = ex.deref(ex.ev(e.args[0], env))
        return z3.Select(h.karr, to_int(lift(ex.ev(e.args[1], env))))
    if name == "pos_of":
        h = ex.deref(ex.ev(e.args[0], env))
        return z3.Select(h.idx, to_int(lift(ex.ev(e.args[1], env))))
    if name == "mat_at":
        h = ex.deref(ex.ev(e.args[0], env))
        i = to_int(lift(ex.ev(e.args[1], env)))
        j = to_int(lift(ex.ev(e.args[2], env)))
        return ex.mat_select(h, i, j)
    if name == "re":
        return to_c(lift(ex.ev(e.args[0], env))).re
    if name == "im":
        return to_c(lift(ex.ev(e.args[0], env))).im
    if name == "cplx":
        return CVal(to_real(lift(ex.ev(e.args[0], env))), to_real(lift(ex.ev(e.args[1], env))))
    if name == "suffix":
        h = ex.deref(ex.ev(e.args[0], env))
        if not isinstance(h, GList):
            raise Unsupported("suffix() of a non-growing list")
        return ex.alloc(CList(h.suffix))
    if name == "fresh_ref":
        v = ex.ev(e.args[0], env)
        return z3.BoolVal(isinstance(v, Ref) and ex.prov.get(v.id) == "FRESH")
    if name == "same_ref":
        a, b = ex.ev(e.args[0], env), ex.ev(e.args[1], env)
        return z3.BoolVal(isinstance(a, Ref) and isinstance(b, Ref) and a.id == b.id)
    if name == "is_none":
        return z3.BoolVal(ex.ev(e.args[0], env) is None)
    if name == "real":
        return to_real(lift(ex.ev(e.args[0], env)))
    if name == "numeric":
        v = ex.ev(e.args[0], env)
        tags = ex.type_tag(v)
        return z3.BoolVal("Number" in tags and "bool" not in tags)
    if name == "same_value":
        a, b = ex.ev(e.args[0], env), ex.ev(e.args[1], env)
        if a is None or b is None:
            return z3.BoolVal(a is None and b is None)
        return ex.equal(a, b)
    if name == "cnt":
        # cnt(container, i): number of members of the dict/set (by key) below i
        from vf.lemmas import z3lemmas as zl
        h = ex.deref(ex.ev(e.args[0], env))
        i = to_int(lift(ex.ev(e.args[1], env)))
        dom = h.dom
        key = ("cnt", dom.sexpr())
        memo = ex.__dict__.setdefault("fn_memo", {})
        if key not in memo:
            memo[key] = zl.cnt_def(dom) + zl.cnt_lemmas(dom)
            ex.assumptions.add("lemma.cnt-diff (proved by z3 induction schema in vf/lemmas/z3lemmas.py): 0 <= cnt(a,j)-cnt(a,i) <= j-i")
        ex.fact(*memo[key])
        return zl.CNT(dom, i)
    if name == "lsum":
        h = ex.deref(ex.ev(e.args[0], env))
        if isinstance(h, Obj):
            for k, x in h.fields:
                if isinstance(x, Ref) and isinstance(ex.heap[x.id], (AList, CList)):
                    h = ex.heap[x.id]
                    break
        a = ex.as_alist(h)
        n = to_int(lift(ex.ev(e.args[1], env))) if len(e.args) > 1 else a.len
        return lsum(ex, a.arr, n, a.es)
    if name in ex.c.defs:
        args = [ex.ev(a, env) for a in e.args]
        return ex.c.defs[name](ex, *args)
    return NOT_HANDLED


# --------------------------------------------------------------------------- python builtins
def builtin_call(ex, name, e, env):
    if name in env:
        return NOT_HANDLED
    A = lambda k: ex.ev(e.args[k], env)  # noqa: E731
    if name == "len":
        v = A(0)
        if isinstance(v, tuple):
            return z3.IntVal(len(v))
        if isinstance(v, str):
            return z3.IntVal(len(v))
        h = ex.deref(v)
        if isinstance(h, AList):
            return h.len
        if isinstance(h, CList):
            return z3.IntVal(len(h.items))
        if isinstance(h, GList):
            return h.prefix + len(h.suffix)
        if isinstance(h, ADict):
            return h.n
        if isinstance(h, CDict):
            return z3.IntVal(len(h.items))
        if isinstance(h, ASet):
            return h.n
        if isinstance(h, Obj):
            return ex.call_method(v, "__len__", [], {}, e)
        if isinstance(h, Mat):
            return h.nr
        raise Unsupported("len")
    if name == "range":
        args = [to_int(lift(A(k))) for k in range(len(e.args))]
        if len(args) == 1:
            return RangeV(z3.IntVal(0), args[0])
        if len(args) == 2:
            return RangeV(args[0], args[1])
        st = z3.simplify(args[2])
        if z3.is_int_value(st) and st.as_long() in (1, -1):
            return RangeV(args[0], args[1], st.as_long())
        raise Unsupported("range step")
    if name == "enumerate":
        return ("enumerate", A(0))
    if name == "zip":
        strict = any(k.arg == "strict" for k in e.keywords)
        vals = [A(k) for k in range(len(e.args))]
        if strict and not getattr(ex, "in_spec", False):
            # strict zip raises ValueError on a length mismatch
            lens = [ex.as_seq(v).n if ex.try_iter_concrete(v) is None else z3.IntVal(len(ex.try_iter_concrete(v))) for v in vals]
            for a, b in zip(lens, lens[1:]):
                ex.require(a == b, "safe.ValueError-zip-strict", e)
        return ("zip", vals, strict)
    if name == "reversed":
        return ("reversed", A(0))
    if name == "isinstance":
        v = A(0)
        tags = ex.type_tag(v)
        want = _type_names(e.args[1])
        return z3.BoolVal(bool(tags & want))
    if name == "sorted":
        rev = False
        for k in e.keywords:
            if k.arg == "reverse":
                rv = z3.simplify(ex.truth(ex.ev(k.value, env)))
                rev = z3.is_true(rv)
            else:
                raise Unsupported("sorted key")
        return sorted_model(ex, A(0), rev, e)
    if name in ("copy",):
        return copy_model(ex, A(0), e)
    if name == "deepcopy":
        if len(e.args) > 1:
            # deepcopy(x, memo) with memo = {id(obj): obj, ...}: the listed objects are not copied, the copy refers to them (how the circuit rewrites keep
            # Parameter objects shared)
            m = ex.deref(A(1))
            if not isinstance(m, CDict) or not all(isinstance(k, int) and isinstance(v, Ref) and k == v.id for k, v in m.items):
                raise Unsupported("deepcopy with a memo that is not {id(obj): obj}")
            return deepcopy_model(ex, A(0), e, {k: v for k, v in m.items})
        return deepcopy_model(ex, A(0), e)
    if name == "id" and name not in env:
        v = A(0)
        if isinstance(v, Ref):
            return v.id            # identity of a heap object: its (concrete) reference number
        raise Unsupported("id() of a non-object")
    if name == "list":
        if not e.args:
            return ex.alloc(CList(()))
        v = A(0)
        if isinstance(v, Ref) and isinstance(ex.heap[v.id], ASet):
            # list(set): the members, each once, in an unspecified order (A7 is not needed: any order must satisfy the post)
            h = ex.heap[v.id]
            arr = fresh("setlist", z3.ArraySort(I, I))
            pos = fresh("setpos", z3.ArraySort(I, I))
            t, u, xx = fresh("t"), fresh("u"), fresh("x")
            ex.assumptions.add("builtin.list(set): every member exactly once, order unspecified")
            ex.fact(z3.ForAll([t], z3.Implies(z3.And(0 <= t, t < h.n), z3.And(z3.Select(h.dom, z3.Select(arr, t)), z3.Select(pos, z3.Select(arr, t)) == t))),
                    z3.ForAll([xx], z3.Implies(z3.Select(h.dom, xx), z3.And(0 <= z3.Select(pos, xx), z3.Select(pos, xx) < h.n, z3.Select(arr, z3.Select(pos, xx)) == xx))))
            return ex.alloc(AList(h.n, arr, "int"))
        conc = ex.try_iter_concrete(v)
        if conc is not None:
            return ex.alloc(CList(tuple(conc)))
        s = ex.as_seq(v)
        t = fresh("t")
        el = lift(s.elem(t))
        if not is_z3(el):
            raise Unsupported("list() of non-scalar symbolic sequence")
        es = "real" if is_real(el) else ("bool" if is_bool(el) else "int")
        arr = fresh("list", z3.ArraySort(I, sort_of(es)))
        ex.fact(z3.ForAll([t], z3.Implies(z3.And(0 <= t, t < s.n), z3.Select(arr, t) == el)))
        return ex.alloc(AList(s.n, arr, es))
    if name == "tuple":
        return tuple(ex.iter_concrete(A(0), e))
    if name == "dict":
        if not e.args:
            return ex.alloc(ex.empty_adict())
        return copy_model(ex, A(0), e)
    if name == "set":
        if not e.args:
            return ex.alloc(ASet(z3.K(I, z3.BoolVal(False)), z3.IntVal(0)))
        conc = ex.try_iter_concrete(A(0))
        if conc is None or not all(is_int(lift(x)) for x in conc):
            raise Unsupported("set() of a symbolic-length or non-integer sequence")
        x = z3.Int("x!set")
        dom = z3.Lambda([x], z3.Or(*[x == lift(c) for c in conc]) if conc else z3.BoolVal(False))
        n = fresh("setsize")
        ex.fact(n >= 0, n <= len(conc), (n >= 1) if conc else (n == 0))
        return ex.alloc(ASet(dom, n))
    if name == "abs":
        v = lift(A(0))
        if isinstance(v, CVal):
            return ex.sqrt(v.re * v.re + v.im * v.im, e)
        return z3.If(v >= 0, v, -v)
    if name in ("min", "max"):
        vals = [lift(A(k)) for k in range(len(e.args))]
        if len(vals) == 1:
            conc = ex.try_iter_concrete(vals[0])
            if conc is None and isinstance(ex.deref(vals[0]), ADict):
                # max / min of the KEYS of a symbolic dict: ValueError when it is empty (a path decision), otherwise a key that bounds every key
                d = ex.deref(vals[0])
                if ex.decide(d.n == 0):
                    raise __import__("vf.pyvc.engine", fromlist=["RaiseEx"]).RaiseEx("ValueError", getattr(e, "lineno", 0))
                m = fresh(name + "key")
                x = fresh("x")
                ex.fact(z3.Select(d.dom, m), z3.ForAll([x], z3.Implies(z3.Select(d.dom, x), (x <= m) if name == "max" else (x >= m))))
                return m
            if conc is None:
                return agg_model(ex, name, vals[0], e)
            vals = [lift(x) for x in conc]
            ex.require(z3.BoolVal(len(vals) > 0), "safe.ValueError-empty-" + name, e)
        out = vals[0]
        for v in vals[1:]:
            out, v = numeric_join(out, v)
            out = z3.If(v < out, v, out) if name == "min" else z3.If(v > out, v, out)
        return out
    if name == "sum":
        v = A(0)
        if isinstance(v, tuple) and v and isinstance(v[0], str) and v[0] == "genexp":
            _, ge, genv = v
            gen = ge.generators[0]
            it = ex.try_iter_concrete(ex.ev(gen.iter, genv))
            if it is not None and len(ge.generators) == 1 and not gen.ifs:
                out = z3.IntVal(0)
                for x in it:
                    env2 = dict(genv)
                    ex.bind(gen.target, x, env2)
                    val = lift(ex.ev(ge.elt, env2))
                    out, val = numeric_join(out, to_int(val) if is_bool(val) else val)
                    out = out + val
                return out
        conc = ex.try_iter_concrete(v) if not (isinstance(v, tuple) and v and isinstance(v[0], str) and v[0] == "genexp") else None
        if conc is not None:
            out = z3.IntVal(0)
            for x in conc:
                out, x = numeric_join(out, lift(x))
                out = out + x
            return out
        return agg_model(ex, "sum", v, e)
    if name == "factorial":
        n = to_int(lift(A(0)))
        ex.require(n >= 0, "safe.ValueError-factorial-negative", e)
        f = z3.Function("FACT", I, I)
        ex.assumptions.add("builtin.factorial: an uninterpreted function with factorial(x) >= 1 for all x (its values are never needed: code and specification use the same term)")
        xq = z3.Int("x!fact")
        ex.fact(z3.ForAll([xq], f(xq) >= 1))
        return f(n)
    if name == "prod":
        h = ex.deref(A(0))
        if isinstance(h, CList):
            h = ex.as_alist(h)
        if not isinstance(h, AList) or h.es != "int":
            raise Unsupported("prod of a non-integer / non-list argument")
        f = z3.Function("LPROD", z3.ArraySort(I, I), I, I)
        ex.assumptions.add("builtin.prod: uninterpreted product of the first n elements of an integer array (positive when every element is)")
        t = fresh("t")
        # positivity: decided here (linear + uninterpreted functions only), so that later nonlinear obligations get it as a plain fact
        sv = z3.Solver()
        sv.set("timeout", 3000)
        sv.add(*ex.pc)
        sv.add(*ex.facts)
        sv.add(0 <= t, t < h.len, z3.Select(h.arr, t) < 1)
        if sv.check() == z3.unsat:
            ex.fact(f(h.arr, h.len) >= 1)
        else:
            ex.fact(z3.Implies(z3.ForAll([t], z3.Implies(z3.And(0 <= t, t < h.len), z3.Select(h.arr, t) >= 1)), f(h.arr, h.len) >= 1))
        return f(h.arr, h.len)
    if name == "perm":
        h = ex.deref(A(0))
        if not isinstance(h, Mat):
            raise Unsupported("perm of a non-matrix")
        ex.require(h.nr == h.nc, "safe.ValueError-perm-not-square", e)
        s2 = z3.ArraySort(I, I, R)
        fre, fim = z3.Function("PERM_re", s2, s2, I, R), z3.Function("PERM_im", s2, s2, I, R)
        ex.assumptions.add("external.thewalrus.perm: an uninterpreted complex function of the matrix (entries and dimension)")
        return CVal(fre(h.re, h.im, h.nr), fim(h.re, h.im, h.nr))
    if name in ("all", "any"):
        v = A(0)
        if isinstance(v, tuple) and v and isinstance(v[0], str) and v[0] == "genexp":
            return quant_genexp(ex, name, v)
        conc = ex.try_iter_concrete(v)
        if conc is not None:
            ts = [ex.truth(x) for x in conc]
            if not ts:
                return z3.BoolVal(name == "all")
            return z3.And(*ts) if name == "all" else z3.Or(*ts)
        s = ex.as_seq(v)
        t = fresh("t")
        body = ex.truth(s.elem(t))
        rng = z3.And(0 <= t, t < s.n)
        return z3.ForAll([t], z3.Implies(rng, body)) if name == "all" else z3.Exists([t], z3.And(rng, body))
    if name == "int":
        v = lift(A(0))
        if is_int(v):
            return v
        if is_bool(v):
            return to_int(v)
        if is_real(v):
            # truncation towards zero
            fl = z3.ToInt(v)
            return z3.If(v >= 0, fl, z3.If(z3.ToReal(fl) == v, fl, fl + 1))
        if isinstance(v, Opaque) or isinstance(v, str) or v is None:
            # int() of a value that is no number: a str may or may not parse (oracle), everything else raises TypeError
            from .engine import RaiseEx
            tag = "str" if isinstance(v, str) else (v.tag if isinstance(v, Opaque) else "NoneType")
            if tag == "str":
                # the same string parses the same way every time: one oracle per value
                memo = ex.__dict__.setdefault("fn_memo", {})
                key = ("int_parses", repr(v))
                if key not in memo:
                    memo[key] = (fresh("int_parses", B), fresh("parsed_int"))
                if ex.decide(memo[key][0]):
                    return memo[key][1]
            raise RaiseEx("ValueError" if tag == "str" else "TypeError", getattr(e, "lineno", 0))
        raise Unsupported("int() of non-number")
    if name == "float":
        return to_real(lift(A(0)))
    if name == "bool":
        return ex.truth(A(0))
    if name == "round":
        v = lift(A(0))
        if is_int(v):
            return v
        raise Unsupported("round of real")
    if name == "str":
        return Opaque("str-of", 0)
    if name == "fields" and name not in env:
        # dataclasses.fields(obj): one descriptor per annotated field of the object's class, in declaration order (only `.name` is modelled)
        h = ex.deref(A(0))
        if isinstance(h, Obj) and ex.ix.class_fields(h.cls):
            return ex.alloc(CList(tuple(ex.alloc(Obj("Field", (("name", f),))) for f in ex.ix.class_fields(h.cls))))
        raise Unsupported("dataclasses.fields of a non-dataclass object")
    if name == "getattr":
        base = A(0)
        attr = A(1)
        if isinstance(attr, str):
            return ex.getattr(base, attr, e)
        raise Unsupported("getattr symbolic name")
    if name == "setattr":
        base, attr, val = A(0), A(1), A(2)
        if isinstance(attr, str):
            ex.setattr(base, attr, val, e)
            return None
        raise Unsupported("setattr symbolic name")
    if name == "hasattr":
        base, attr = A(0), A(1)
        h = ex.deref(base)
        if isinstance(h, Obj) and isinstance(attr, str):
            name_ = ex.mangle(attr)
            if h.has(name_):
                v = h.get(name_)
                return z3.BoolVal(not (isinstance(v, Opaque) and v.tag == "unset"))
            return z3.BoolVal(ex.ix.method(h.cls, attr, kind="getter") is not None or ex.ix.method(h.cls, attr) is not None)
        raise Unsupported("hasattr")
    if name == "print":
        return None
    if name in ("log10", "sqrt", "cos", "sin") and name not in env:
        return module_call(ex, "math." + name, e, env)
    if name == "factorial":
        return factorial_model(ex, to_int(lift(A(0))), e)
    if name == "prod":
        v = A(0)
        conc = ex.try_iter_concrete(v)
        if conc is not None:
            out = z3.IntVal(1)
            for x in conc:
                out, x = numeric_join(out, lift(x))
                out = out * x
            return out
        raise Unsupported("prod over symbolic list")
    return NOT_HANDLED


def _type_names(node):
    if isinstance(node, ast.Name):
        n = node.id
        return {"float": {"float"}, "int": {"int"}, "bool": {"bool"}, "str": {"str"}, "list": {"list"},
                "dict": {"dict"}, "tuple": {"tuple"}, "complex": {"complex"}, "set": {"set"}}.get(n, {n})
    if isinstance(node, ast.Attribute):
        return {ast.unparse(node), node.attr}
    if isinstance(node, ast.Tuple):
        out = set()
        for x in node.elts:
            out |= _type_names(x)
        return out
    if isinstance(node, ast.BinOp) and isinstance(node.op, ast.BitOr):
        return _type_names(node.left) | _type_names(node.right)
    raise Unsupported("isinstance type expression")


def sorted_model(ex, v, rev, node):
    """contract of sorted(): same length, ordered, and explicit index maps in both directions
    (so that proofs need no pigeonhole reasoning)."""
    conc = ex.try_iter_concrete(v)
    if conc is not None and len(conc) <= 1:
        return ex.alloc(CList(tuple(conc)))
    if conc is not None and len(conc) <= 6 and all(is_z3(lift(x)) and not is_bool(lift(x)) and not isinstance(lift(x), CVal) for x in conc):
        # a list with a short concrete spine: sorted exactly by a comparison network (no assumed contract needed)
        xs = [lift(x) for x in conc]
        for i in range(len(xs)):
            for j in range(len(xs) - 1 - i):
                a, b = numeric_join(xs[j], xs[j + 1])
                lo, hi = z3.If(a <= b, a, b), z3.If(a <= b, b, a)
                xs[j], xs[j + 1] = (hi, lo) if rev else (lo, hi)
        return ex.alloc(CList(tuple(xs)))
    ex.assumptions.add("builtin.sorted: result has the same length, is ordered, and is a rearrangement of the argument (index maps p, q)")
    s = ex.as_seq(v)
    t, u = fresh("t"), fresh("u")
    el = lift(s.elem(t))
    if not is_z3(el):
        raise Unsupported("sorted() of a sequence of non-scalars")
    es = "real" if is_real(el) else "int"
    out = AList(s.n, fresh("sorted", z3.ArraySort(I, sort_of(es))), es)
    p = fresh("perm", z3.ArraySort(I, I))
    q = fresh("iperm", z3.ArraySort(I, I))
    O = lambda i: z3.Select(out.arr, i)  # noqa: E731
    order = (O(t) >= O(u)) if rev else (O(t) <= O(u))
    ex.facts += [
        z3.ForAll([t, u], z3.Implies(z3.And(0 <= t, t < u, u < s.n), order)),
        z3.ForAll([t], z3.Implies(z3.And(0 <= t, t < s.n),
                                  z3.And(0 <= z3.Select(p, t), z3.Select(p, t) < s.n,
                                         O(t) == s.elem(z3.Select(p, t)),
                                         z3.Select(q, z3.Select(p, t)) == t))),
        z3.ForAll([t], z3.Implies(z3.And(0 <= t, t < s.n),
                                  z3.And(0 <= z3.Select(q, t), z3.Select(q, t) < s.n,
                                         O(z3.Select(q, t)) == s.elem(t),
                                         z3.Select(p, z3.Select(q, t)) == t))),
    ]
    r = ex.alloc(out)
    ex.__dict__.setdefault("sorted_maps", {})[r.id] = (p, q)
    return r


def copy_model(ex, v, node):
    if isinstance(v, Ref):
        h = ex.heap[v.id]
        if isinstance(h, Obj):
            # shallow copy of a dataclass-like object
            return ex.alloc(Obj(h.cls, h.fields))
        return ex.alloc(h)       # immutable records: a new reference to the same contents is a shallow copy
    return v


def deepcopy_model(ex, v, node, memo=None):
    memo = {} if memo is None else memo
    if isinstance(v, Ref):
        if v.id in memo:
            return memo[v.id]
        h = ex.heap[v.id]
        r = ex.alloc(h)
        memo[v.id] = r
        if isinstance(h, CList):
            ex.heap[r.id] = CList(tuple(deepcopy_model(ex, x, node, memo) for x in h.items))
        elif isinstance(h, CDict):
            ex.heap[r.id] = CDict(tuple((k, deepcopy_model(ex, x, node, memo)) for k, x in h.items))
        elif isinstance(h, Obj):
            ex.heap[r.id] = Obj(h.cls, tuple((k, deepcopy_model(ex, x, node, memo)) for k, x in h.fields))
        return r
    if isinstance(v, tuple):
        return tuple(deepcopy_model(ex, x, node, memo) for x in v)
    return v


def agg_model(ex, name, v, node):
    """sum/min/max over a symbolic sequence through the recursive spec function lsum / lmin / lmax"""
    if isinstance(v, tuple) and v and isinstance(v[0], str) and v[0] == "genexp":
        raise Unsupported(f"{name} of generator over symbolic sequence")
    h = ex.deref(v)
    if isinstance(h, Obj):
        for k, x in h.fields:
            if isinstance(x, Ref) and isinstance(ex.heap[x.id], (AList, CList)):
                h = ex.heap[x.id]
                break
    if isinstance(h, CList):
        h = ex.as_alist(h)
    if not isinstance(h, AList):
        raise Unsupported(f"{name} over {h!r}")
    if name == "sum":
        return lsum(ex, h.arr, h.len, h.es)
    ex.require(h.len > 0, f"safe.ValueError-empty-{name}", node)
    m = fresh(name, sort_of(h.es))
    t = fresh("t")
    ex.assumptions.add(f"builtin.{name}: result is an element and bounds every element")
    cmp = (m <= z3.Select(h.arr, t)) if name == "min" else (m >= z3.Select(h.arr, t))
    w = fresh("w")
    ex.fact(z3.ForAll([t], z3.Implies(z3.And(0 <= t, t < h.len), cmp)),
            z3.Implies(h.len > 0, z3.And(0 <= w, w < h.len, z3.Select(h.arr, w) == m)))
    return m


def lsum_fn(es):
    s = sort_of(es)
    return z3.Function(f"lsum_{es}", z3.ArraySort(I, s), I, s)


def lsum(ex, arr, n, es="int"):
    """Sum of arr[0..n): uninterpreted with its defining recursion as quantified axioms (per array term)."""
    f = lsum_fn(es)
    key = ("lsum", arr.sexpr())
    memo = ex.__dict__.setdefault("fn_memo", {})
    if key not in memo:
        t = fresh("t")
        zero = z3.IntVal(0) if es == "int" else z3.RealVal(0)
        memo[key] = [f(arr, 0) == zero,
                     z3.ForAll([t], z3.Implies(t >= 0, f(arr, t + 1) == f(arr, t) + z3.Select(arr, t)))]
        ex.assumptions.add("spec.lsum: defining recursion lsum(a,0)=0, lsum(a,t+1)=lsum(a,t)+a[t] (definition, conservative)")
    ex.fact(*memo[key])
    return f(arr, n)


def factorial_model(ex, n, node):
    f = z3.Function("factorial", I, I)
    ex.require(n >= 0, "safe.ValueError-factorial-negative", node)
    ns = z3.simplify(n)
    if z3.is_int_value(ns):
        import math
        return z3.IntVal(math.factorial(ns.as_long()))
    t = fresh("t")
    facts = [f(0) == 1, z3.ForAll([t], z3.Implies(t >= 0, z3.And(f(t + 1) == (t + 1) * f(t), f(t) >= 1)))]
    ex.fact(*facts)
    return f(n)


def quant_genexp(ex, name, g):
    _, e, genv = g
    if len(e.generators) != 1:
        raise Unsupported("nested generator")
    gen = e.generators[0]
    it = ex.ev(gen.iter, genv)
    conc = ex.try_iter_concrete(it)
    if conc is not None:
        ts = []
        for x in conc:
            env2 = dict(genv)
            ex.bind(gen.target, x, env2)
            conds = [ex.truth(ex.ev(c, env2)) for c in gen.ifs]
            body = ex.truth(ex.ev(e.elt, env2))
            ts.append(z3.Implies(z3.And(*conds), body) if name == "all" else z3.And(*conds, body))
        if not ts:
            return z3.BoolVal(name == "all")
        return z3.And(*ts) if name == "all" else z3.Or(*ts)
    s = ex.as_seq(it)
    t = fresh("t")
    env2 = dict(genv)
    ex.bind(gen.target, s.elem(t), env2)
    rng = z3.And(0 <= t, t < s.n)
    saved = len(ex.pc)
    ex.pc.append(rng)
    try:
        conds = [ex.truth(ex.ev(c, env2)) for c in gen.ifs]
        body = ex.truth(ex.ev(e.elt, env2))
    finally:
        del ex.pc[saved:]
    if name == "all":
        return z3.ForAll([t], z3.Implies(z3.And(rng, *conds), body))
    return z3.Exists([t], z3.And(rng, *conds, body))


# --------------------------------------------------------------------------- modules (numpy, math, random)
def module_call(ex, qual, e, env):
    A = lambda k: ex.ev(e.args[k], env)  # noqa: E731
    kw = {k.arg: k.value for k in e.keywords}
    if qual in ("np.identity", "np.eye"):
        n = to_int(lift(A(0)))
        ex.require(n >= 0, "safe.ValueError-negative-dimension", e)
        i, j = z3.Int("i!id"), z3.Int("j!id")
        re = z3.Lambda([i, j], z3.If(i == j, z3.RealVal(1), z3.RealVal(0)))
        im = z3.K(I, z3.K(I, z3.RealVal(0)))
        return ex.alloc(Mat(n, n, _arr2(ex, lambda i, j: z3.If(i == j, z3.RealVal(1), z3.RealVal(0))),
                            _arr2(ex, lambda i, j: z3.RealVal(0)), base="identity"))
    if qual == "np.zeros":
        shp = A(0)
        if isinstance(shp, tuple) and len(shp) == 2:
            nr, nc = to_int(lift(shp[0])), to_int(lift(shp[1]))
            ex.require(z3.And(nr >= 0, nc >= 0), "safe.ValueError-negative-dimension", e)
            return ex.alloc(Mat(nr, nc, _arr2(ex, lambda i, j: z3.RealVal(0)), _arr2(ex, lambda i, j: z3.RealVal(0)), base="zeros"))
        raise Unsupported("np.zeros shape")
    if qual in ("np.cos", "np.sin", "math.cos", "math.sin"):
        a0 = A(0)
        if isinstance(a0, tuple) and a0 and isinstance(a0[0], str) and a0[0] == "arccos":
            return trig(ex, qual.split(".")[1], a0)
        return trig(ex, qual.split(".")[1], to_real(lift(a0)))
    if qual in ("np.arccos",):
        x = to_real(lift(A(0)))
        ex.require(z3.And(-1 <= x, x <= 1), "safe.arccos-domain", e)
        return ("arccos", x)
    if qual in ("np.sqrt", "math.sqrt"):
        return ex.sqrt(to_real(lift(A(0))), e)
    if qual == "np.exp":
        v = lift(A(0))
        if isinstance(v, CVal):
            rez = z3.simplify(v.re)
            if z3.is_rational_value(rez) and rez.as_fraction() == 0:
                c, s = trig(ex, "cos", v.im), trig(ex, "sin", v.im)
                return CVal(c, s)
        raise Unsupported("np.exp of non-imaginary")
    if qual in ("np.log10", "math.log10"):
        x = to_real(lift(A(0)))
        ex.require(x > 0, "safe.log10-domain", e)
        lg = z3.Function("log10", R, R)
        p10 = z3.Function("pow10", R, R)
        ex.assumptions.add("A1.pow10: 10**x is a positive strictly monotone function with 10**0=1; log10 its inverse")
        v = lg(x)
        ex.fact(z3.Implies(x > 0, z3.And(p10(v) == x, z3.Implies(x == 1, v == 0), z3.Implies(x > 1, v > 0), z3.Implies(x < 1, v < 0))))
        return v
    if qual == "np.ix_":
        return ("ix_", A(0), A(1))
    if qual == "np.pad":
        # only np.pad(A, (0, 1), "constant", constant_values=0) on an abstract square matrix: one zero row and column appended
        v = A(0)
        h = ex.deref(v)
        w = A(1)
        cv = ex.ev(kw["constant_values"], env) if "constant_values" in kw else (A(3) if len(e.args) > 3 else z3.IntVal(0))
        zero = z3.simplify(z3.And(to_c(lift(cv)).re == 0, to_c(lift(cv)).im == 0))
        if isinstance(h, MatA) and isinstance(w, tuple) and [ex._concrete_int(x) for x in w] == [0, 1] and z3.is_true(zero):
            return ex.alloc(MatA(("pad0", h.term), h.dim + 1))
        raise Unsupported("np.pad form")
    if qual == "np.conj":
        v = lift(A(0))
        if isinstance(v, CVal):
            return CVal(v.re, -v.im)
        if is_z3(v):
            return v
    if qual in ("random.random", "np.random.random"):
        ex.assumptions.add("A4.random: random() returns a real in [0,1) (oracle stream; distribution is not modelled)")
        v = fresh("rnd", R)
        ex.fact(v >= 0, v < 1)
        ex.__dict__.setdefault("oracle", []).append(v)
        return v
    if qual == "random.seed":
        return None
    if qual in ("random.default_rng", "np.random.default_rng"):
        ex.assumptions.add("A4.rng: numpy default_rng(...) returns a Generator (oracle)")
        return Opaque("rng", 0)
    return NOT_HANDLED


def _arr2(ex, f):
    i, j = z3.Int("i!l"), z3.Int("j!l")
    return z3.Lambda([i, j], f(i, j))


def trig(ex, which, x):
    """cos/sin as uninterpreted atoms with c^2+s^2=1; cos(arccos y)=y, sin(arccos y)=sqrt(1-y^2)"""
    if isinstance(x, tuple) and x and isinstance(x[0], str) and x[0] == "arccos":
        y = x[1]
        if which == "cos":
            return y
        return ex.sqrt(1 - y * y, None)
    cf, sf = z3.Function("cos", R, R), z3.Function("sin", R, R)
    ex.assumptions.add("A1.trig: cos, sin are real functions with cos^2+sin^2=1, cos 0 = 1, sin 0 = 0; cos(arccos y)=y, sin(arccos y)=sqrt(1-y^2) on [-1,1]")
    c, s = cf(x), sf(x)
    ex.fact(c * c + s * s == 1, z3.Implies(x == 0, z3.And(c == 1, s == 0)))
    return c if which == "cos" else s


# --------------------------------------------------------------------------- container methods
def container_method(ex, base, h, attr, args, kwargs, node):
    if isinstance(h, GList):
        if attr == "append":
            ex.store(base, GList(h.prefix, h.suffix + (args[0],)), node, "append")
            return None
        if attr == "copy":
            return ex.alloc(h)
        raise Unsupported(f"{attr} on a growing list")
    if isinstance(h, (AList, CList)):
        return list_method(ex, base, h, attr, args, kwargs, node)
    if isinstance(h, (ADict, CDict)):
        return dict_method(ex, base, h, attr, args, kwargs, node)
    if isinstance(h, ASet):
        if attr == "add":
            k = to_int(lift(args[0]))
            isnew = z3.Not(z3.Select(h.dom, k))
            ex.store(base, ASet(z3.Store(h.dom, k, True), z3.If(isnew, h.n + 1, h.n)), node, "set.add")
            return None
        if attr == "copy":
            return ex.alloc(h)
    if isinstance(h, Mat):
        if attr == "copy":
            return ex.alloc(h)
    raise Unsupported(f"method {attr} on {type(h).__name__}")


def list_method(ex, base, h, attr, args, kwargs, node):
    if attr == "append":
        v = lift(args[0])
        if isinstance(h, CList):
            ex.store(base, CList(h.items + (v,)), node, "append")
            return None
        if not is_z3(v):
            raise Unsupported("append non-scalar to symbolic list")
        v = to_real(v) if h.es == "real" else v
        ex.store(base, AList(h.len + 1, z3.Store(h.arr, h.len, v), h.es), node, "append")
        return None
    if attr == "extend":
        o = ex.deref(args[0])
        if isinstance(h, CList) and isinstance(o, CList):
            ex.store(base, CList(h.items + o.items), node, "extend")
            return None
        es = h.es if isinstance(h, AList) else (o.es if isinstance(o, AList) else None)
        a, b = ex.as_alist(h, es), ex.as_alist(o, es)
        ex.store(base, ex.concat(a, b), node, "extend")
        return None
    if attr == "pop":
        if isinstance(h, CList):
            k = ex._concrete_int(args[0]) if args else -1
            if k is None:
                h = ex.as_alist(h)
            else:
                ex.require(z3.BoolVal(-len(h.items) <= k < len(h.items)), "safe.IndexError-pop", node)
                items = list(h.items)
                v = items.pop(k)
                ex.store(base, CList(tuple(items)), node, "pop")
                return v
        if args:
            i = ex.norm_index(args[0], h.len, node)
        else:
            ex.require(h.len > 0, "safe.IndexError-pop-empty", node)
            i = h.len - 1
        t = fresh("t")
        arr = fresh("popped", z3.ArraySort(I, sort_of(h.es)))
        ex.fact(z3.ForAll([t], z3.And(
            z3.Implies(z3.And(0 <= t, t < i), z3.Select(arr, t) == z3.Select(h.arr, t)),
            z3.Implies(z3.And(i <= t, t < h.len - 1), z3.Select(arr, t) == z3.Select(h.arr, t + 1)))))
        v = z3.Select(h.arr, i)
        ex.store(base, AList(h.len - 1, arr, h.es), node, "pop")
        return v
    if attr == "copy":
        return ex.alloc(h)
    if attr == "index":
        x = lift(args[0])
        if isinstance(h, CList):
            h = ex.as_alist(h)
        ex.require(ex.contains(base, x, node), "safe.ValueError-index", node)
        w = fresh("idx")
        t = fresh("t")
        ex.fact(z3.Implies(ex.contains(base, x, node), z3.And(0 <= w, w < h.len, z3.Select(h.arr, w) == x,
                                                              z3.ForAll([t], z3.Implies(z3.And(0 <= t, t < w), z3.Select(h.arr, t) != x)))))
        return w
    if attr == "count":
        raise Unsupported("list.count")
    raise Unsupported(f"list.{attr}")


def dict_method(ex, base, h, attr, args, kwargs, node):
    if attr in ("keys", "values", "items"):
        return (attr, h)
    if attr == "get":
        k = lift(args[0])
        default = lift(args[1]) if len(args) > 1 else None
        if isinstance(h, ADict):
            k = to_int(k)
            if default is None:
                raise Unsupported("dict.get without default on symbolic dict")
            d = default
            v = z3.Select(h.val, k)
            if is_z3(d) and d.sort() != v.sort():
                d, v = numeric_join(d, v)
            return z3.If(z3.Select(h.dom, k), v, d)
        if is_z3(k):
            ks = z3.simplify(k)
            if not z3.is_int_value(ks):
                raise Unsupported("symbolic key get on concrete dict")
            k = ks.as_long()
        return h.get(k) if h.has(k) else default
    if attr == "copy":
        return ex.alloc(h)
    if attr == "update":
        raise Unsupported("dict.update")
    raise Unsupported(f"dict.{attr}")


# --------------------------------------------------------------------------- special constructors
def construct(ex, cls, args, kwargs, node):
    return NOT_HANDLED
