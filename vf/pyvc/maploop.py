"""Map-loop obligation: the iterations of `for x in ARG: ...; ACC.append(x')` are independent of each other.

The element contracts of vf/contracts/c_specshift.py prove what ONE iteration does to ONE element (a one-element list, every
component class, all data symbolic).  To conclude that the function maps that update over a list of ANY length, this pass
discharges, on the real AST (re-read on every run), the obligation `loop.independent-iterations`:

  1. the accumulator ACC is bound to a fresh `[]` before the loop, is returned after it, and occurs in the loop body exactly
     once: `ACC.append(e)` as the last top-level statement of the body; the body contains no break / continue / return /
     raise-free early exit, so exactly one element is appended per iteration, in order;
  2. definite assignment: every name that is stored anywhere in the loop body (loop-carried candidates) is, at each of its
     reads, definitely assigned earlier in the SAME iteration on every path - so no value flows from one iteration to the next;
  3. the iterated list is a parameter that the body neither rebinds nor mutates (no store / mutator call rooted at it);
  4. every item / attribute store and mutator call in the body is rooted at a name assigned within the iteration, so no object
     created outside the loop is used as shared scratch state.

Heap effects of an iteration on anything but its own fresh copy are excluded separately by the frame obligations of the element
contracts (`modifies=[]`).  Verdicts: proved / refuted (names the variable and line) / unknown (shape not recognised: undecided).
"""
from __future__ import annotations

import ast
import os

MUTATORS = {"append", "extend", "insert", "pop", "remove", "clear", "update", "setdefault", "add", "discard", "popitem", "sort", "reverse"}


class Reject(Exception):
    def __init__(self, msg, line, undecided=False):
        super().__init__(msg)
        self.msg, self.line, self.undecided = msg, line, undecided


def stored_names(nodes):
    out = set()
    for n in nodes:
        for x in ast.walk(n):
            if isinstance(x, ast.Name) and isinstance(x.ctx, (ast.Store, ast.Del)):
                out.add(x.id)
            if isinstance(x, ast.AugAssign) and isinstance(x.target, ast.Name):
                out.add(x.target.id)
    return out


def check_expr(e, assigned, carried, bound=frozenset()):
    """every read of a carried name must be definitely assigned (comprehension targets are bound locally)"""
    if e is None:
        return
    if isinstance(e, (ast.ListComp, ast.SetComp, ast.GeneratorExp, ast.DictComp)):
        b = set(bound)
        for g in e.generators:
            check_expr(g.iter, assigned, carried, frozenset(b))
            b |= stored_names([g.target])
            for c in g.ifs:
                check_expr(c, assigned, carried, frozenset(b))
        for part in ([e.key, e.value] if isinstance(e, ast.DictComp) else [e.elt]):
            check_expr(part, assigned, carried, frozenset(b))
        return
    if isinstance(e, ast.Lambda):
        raise Reject("lambda in loop body", e.lineno, undecided=True)
    if isinstance(e, ast.NamedExpr):
        raise Reject("walrus in loop body", e.lineno, undecided=True)
    if isinstance(e, ast.Name):
        if isinstance(e.ctx, ast.Load) and e.id in carried and e.id not in assigned and e.id not in bound:
            raise Reject(f"`{e.id}` is read before it is assigned in the same iteration: its value comes from an earlier iteration", e.lineno)
        return
    for c in ast.iter_child_nodes(e):
        check_expr(c, assigned, carried, bound)


def target_names(t):
    return stored_names([t])


def da_block(stmts, assigned, carried):
    for st in stmts:
        assigned = da_stmt(st, assigned, carried)
    return assigned


def da_stmt(st, assigned, carried):
    if isinstance(st, ast.Assign):
        check_expr(st.value, assigned, carried)
        for t in st.targets:
            if not isinstance(t, ast.Name):
                check_expr(t, assigned, carried)       # attribute / subscript store: base and index are reads
        out = set(assigned)
        for t in st.targets:
            if isinstance(t, (ast.Name, ast.Tuple, ast.List)):
                out |= target_names(t)
        return out
    if isinstance(st, ast.AnnAssign):
        check_expr(st.value, assigned, carried)
        return assigned | (target_names(st.target) if isinstance(st.target, ast.Name) and st.value is not None else set())
    if isinstance(st, ast.AugAssign):
        check_expr(st.value, assigned, carried)
        if isinstance(st.target, ast.Name):
            if st.target.id in carried and st.target.id not in assigned:
                raise Reject(f"`{st.target.id}` is updated in place before it is assigned in the same iteration", st.lineno)
            return assigned
        check_expr(st.target, assigned, carried)
        return assigned
    if isinstance(st, ast.Expr):
        check_expr(st.value, assigned, carried)
        return assigned
    if isinstance(st, ast.If):
        check_expr(st.test, assigned, carried)
        a = da_block(st.body, set(assigned), carried)
        b = da_block(st.orelse, set(assigned), carried)
        return a & b
    if isinstance(st, ast.For):
        check_expr(st.iter, assigned, carried)
        inner = set(assigned) | target_names(st.target)
        da_block(st.body, inner, carried)
        for x in ast.walk(st):
            if isinstance(x, (ast.Break, ast.Continue)) :
                raise Reject("break / continue in a nested loop", x.lineno, undecided=True)
        da_block(st.orelse, set(assigned), carried)
        return assigned                       # the nested body may not run at all
    if isinstance(st, ast.Pass):
        return assigned
    if isinstance(st, ast.Raise):
        check_expr(st.exc, assigned, carried)
        return assigned
    raise Reject(f"statement {type(st).__name__} in the loop body", st.lineno, undecided=True)


def roots(e):
    while isinstance(e, (ast.Attribute, ast.Subscript)):
        e = e.value
    return e.id if isinstance(e, ast.Name) else None


def analyse_function(fn):
    params = {a.arg for a in fn.args.posonlyargs + fn.args.args + fn.args.kwonlyargs}
    body = [s for s in fn.body if not (isinstance(s, ast.Expr) and isinstance(s.value, ast.Constant) and isinstance(s.value.value, str))]
    loops = [s for s in body if isinstance(s, ast.For)]
    if len(loops) != 1:
        raise Reject("function is not a single top-level loop", fn.lineno, undecided=True)
    loop = loops[0]
    k = body.index(loop)
    if not (isinstance(loop.iter, ast.Name) and loop.iter.id in params and not loop.orelse):
        raise Reject("the loop does not iterate over a parameter", loop.lineno, undecided=True)
    src = loop.iter.id
    last = loop.body[-1]
    if not (isinstance(last, ast.Expr) and isinstance(last.value, ast.Call) and isinstance(last.value.func, ast.Attribute) and last.value.func.attr == "append"
            and isinstance(last.value.func.value, ast.Name) and len(last.value.args) == 1):
        raise Reject("the loop body does not end with ACC.append(e)", last.lineno, undecided=True)
    acc = last.value.func.value.id
    # 1. accumulator
    pre = body[:k]
    init = [s for s in pre if isinstance(s, (ast.Assign, ast.AnnAssign)) and acc in stored_names([s])]
    if len(init) != 1 or not (isinstance(init[0].value, ast.List) and not init[0].value.elts):
        raise Reject(f"accumulator `{acc}` is not initialised to a fresh [] before the loop", loop.lineno, undecided=True)
    post = body[k + 1:]
    if not (len(post) == 1 and isinstance(post[0], ast.Return) and isinstance(post[0].value, ast.Name) and post[0].value.id == acc):
        raise Reject(f"the function does not end with `return {acc}` right after the loop", loop.lineno, undecided=True)
    for st in loop.body[:-1]:
        for x in ast.walk(st):
            if isinstance(x, ast.Name) and x.id == acc:
                raise Reject(f"accumulator `{acc}` is used inside the loop body other than by the final append", x.lineno)
    for x in ast.walk(last.value.args[0]):
        if isinstance(x, ast.Name) and x.id == acc:
            raise Reject(f"accumulator `{acc}` is read by the appended expression", x.lineno)
    for st in loop.body:
        for x in ast.walk(st):
            if isinstance(x, (ast.Break, ast.Continue, ast.Return, ast.Yield, ast.YieldFrom, ast.Try, ast.With, ast.While, ast.Global, ast.Nonlocal)) and not (
                    isinstance(x, (ast.Break, ast.Continue)) and False):
                raise Reject(f"{type(x).__name__} inside the loop body: an iteration may not append exactly one element", x.lineno,
                             undecided=not isinstance(x, (ast.Break, ast.Continue, ast.Return)))
    # 3. the iterated list is not rebound / mutated
    for st in loop.body:
        for x in ast.walk(st):
            if isinstance(x, ast.Name) and x.id == src and isinstance(x.ctx, (ast.Store, ast.Del)):
                raise Reject(f"the iterated list `{src}` is rebound inside the loop", x.lineno)
            if isinstance(x, (ast.Assign, ast.AugAssign)):
                for t in (x.targets if isinstance(x, ast.Assign) else [x.target]):
                    if isinstance(t, (ast.Subscript, ast.Attribute)) and roots(t) == src:
                        raise Reject(f"the iterated list `{src}` is written inside the loop", x.lineno)
            if isinstance(x, ast.Call) and isinstance(x.func, ast.Attribute) and x.func.attr in MUTATORS and roots(x.func.value) == src:
                raise Reject(f"the iterated list `{src}` is mutated inside the loop (.{x.func.attr})", x.lineno)
    carried = stored_names(loop.body) | target_names(loop.target)
    # 4. every object written in the body (item / attribute store, mutator call) is reached from a name assigned in this iteration
    for st in loop.body[:-1]:
        for x in ast.walk(st):
            tg = []
            if isinstance(x, ast.Assign):
                tg = x.targets
            elif isinstance(x, (ast.AugAssign, ast.AnnAssign)):
                tg = [x.target]
            elif isinstance(x, ast.Delete):
                tg = x.targets
            for t in tg:
                if isinstance(t, (ast.Subscript, ast.Attribute)) and roots(t) not in carried:
                    raise Reject(f"the loop body writes into `{roots(t)}`, an object that is not created within the iteration (state shared between iterations)", x.lineno)
            if isinstance(x, ast.Call) and isinstance(x.func, ast.Attribute) and x.func.attr in MUTATORS and roots(x.func.value) not in carried:
                raise Reject(f"the loop body mutates `{roots(x.func.value)}` (.{x.func.attr}), an object that is not created within the iteration", x.lineno)
    # 2. definite assignment of everything stored in the body
    if acc in carried:
        raise Reject(f"accumulator `{acc}` is rebound inside the loop", loop.lineno)
    da_block(loop.body, set(target_names(loop.target)), carried)
    return dict(acc=acc, src=src, carried=sorted(carried))


def analyse(repo, rel, fname):
    name = f"{rel}:{fname}#loop.independent-iterations"
    try:
        tree = ast.parse(open(os.path.join(repo, rel)).read())
        fn = next(n for n in tree.body if isinstance(n, ast.FunctionDef) and n.name == fname)
    except (OSError, SyntaxError, StopIteration) as e:
        return dict(name=name, kind="maploop", result="unknown", backend="ast map-loop pass", ms=0, reason=f"function not found: {e!r}")
    o = dict(name=name, kind="maploop", backend="ast map-loop pass (definite assignment per iteration; accumulator appended once per iteration)", ms=0)
    try:
        info = analyse_function(fn)
        o["result"] = "proved"
        o["note"] = (f"result == [f(x) for x in {info['src']}]: accumulator `{info['acc']}` appended exactly once per iteration; names stored in the body "
                     f"{info['carried']} are all assigned before use within the iteration")
    except Reject as r:
        o["result"] = "unknown" if r.undecided else "refuted"
        o["reason" if r.undecided else "note"] = f"line {r.line}: {r.msg}"
        if not r.undecided:
            o["model"] = dict(line=r.line, why=r.msg)
    return o


def unit(tier="quick", seed=0, functions=()):
    from vf.pyvc.source import REPO
    obs = [analyse(REPO, rel, fn) for rel, fn in functions]
    return dict(status="ok", obligations=obs, summary="; ".join(f"{o['name'].split(':')[1].split('#')[0]}: {o['result']}" for o in obs))


if __name__ == "__main__":
    import sys
    for f in sys.argv[2:]:
        o = analyse(sys.argv[1], "lightworks/sdk/circuit/circuit_utils.py", f)
        print(o["result"], o["name"], o.get("note") or o.get("reason"))
