"""Value model of pyvc (see DESIGN.md section 2.1).

Scalars are z3 expressions (Int / Real / Bool); `None` and `str` are concrete
Python values; complex numbers are pairs of reals; compound values live on a
heap of immutable records addressed by concrete reference ids (aliasing known to
the executor is therefore exact; two *input* references are assumed not to alias
unless the contract says so).
"""
from __future__ import annotations

import itertools
from dataclasses import dataclass, field, replace
from fractions import Fraction

import z3

I = z3.IntSort()
R = z3.RealSort()
B = z3.BoolSort()

_counter = itertools.count()


def reset_names():
    global _counter
    _counter = itertools.count()


def fresh(name, sort=I):
    return z3.Const(f"{name}!{next(_counter)}", sort)


def sort_of(es):
    return {"int": I, "real": R, "bool": B}[es]


class Unsupported(Exception):
    """construct outside the pyvc subset"""


@dataclass(frozen=True)
class Ref:
    id: int

    def __repr__(self):
        return f"&{self.id}"


@dataclass(frozen=True)
class CVal:
    """complex number as a pair of z3 reals"""
    re: object
    im: object


@dataclass(frozen=True)
class AList:
    """list of scalars with symbolic length"""
    len: object
    arr: object
    es: str  # 'int' | 'real' | 'bool'


@dataclass(frozen=True)
class CList:
    """list with a concrete spine, elements are arbitrary values"""
    items: tuple


@dataclass(frozen=True)
class GList:
    """list whose existing content is opaque (symbolic length `prefix`, elements never inspected) and which the code only
    appends to: the appended suffix is concrete.  Used for Circuit.__circuit_spec in the contracts of the builder methods."""
    prefix: object
    suffix: tuple = ()


@dataclass(frozen=True)
class ADict:
    """insertion ordered dict int -> scalar.

    n     number of keys
    karr  position -> key              (valid on [0,n))
    dom   key -> Bool
    val   key -> value
    idx   key -> position              (valid where dom)
    Well-formedness (assumed for inputs via wf_dict, preserved by the modelled
    operations): dom[karr[t]] and idx[karr[t]] = t for t<n; dom[x] implies
    0 <= idx[x] < n and karr[idx[x]] = x.
    """
    n: object
    karr: object
    dom: object
    val: object
    idx: object
    vs: str = "int"


@dataclass(frozen=True)
class CDict:
    """dict with concrete (python str/int) keys, arbitrary values; ordered"""
    items: tuple  # of (key, value)

    def get(self, k):
        for kk, v in self.items:
            if kk == k:
                return v
        raise KeyError(k)

    def has(self, k):
        return any(kk == k for kk, _ in self.items)

    def set(self, k, v):
        if self.has(k):
            return CDict(tuple((kk, v if kk == k else vv) for kk, vv in self.items))
        return CDict(self.items + ((k, v),))


@dataclass(frozen=True)
class ASet:
    """set of ints: characteristic function and cardinality"""
    dom: object
    n: object


@dataclass(frozen=True)
class Obj:
    cls: str
    fields: tuple  # of (name, value)

    def get(self, k):
        for kk, v in self.fields:
            if kk == k:
                return v
        raise KeyError(k)

    def has(self, k):
        return any(kk == k for kk, _ in self.fields)

    def set(self, k, v):
        if self.has(k):
            return Obj(self.cls, tuple((kk, v if kk == k else vv) for kk, vv in self.fields))
        return Obj(self.cls, self.fields + ((k, v),))


@dataclass(frozen=True)
class Mat:
    """2-D complex matrix: entries re[i,j] + i*im[i,j] on [0,nr) x [0,nc).
    `base` ('identity' | 'zeros' | None) and `chain` (entry stores, oldest first) describe how the arrays were built, so that
    an entry can be read back as a scalar term without array reasoning (see Executor.mat_select)."""
    nr: object
    nc: object
    re: object
    im: object
    base: object = None
    chain: tuple = ()


@dataclass(frozen=True)
class MatA:
    """abstract square matrix: an algebraic term over opaque matrices (MatAlg of DESIGN 2.4), with its dimension.
    term forms: ('var', name) | ('E', label, dim sexpr) | ('mul', a, b) | ('pad0', a) | ('pad1', a)
    pad0 = np.pad(a, (0,1)) (zero row/column appended), pad1 = pad0 with the new corner set to one."""
    term: tuple
    dim: object


@dataclass(frozen=True)
class RangeV:
    lo: object
    hi: object
    step: int = 1


@dataclass(frozen=True)
class Opaque:
    """a value the executor knows nothing about except its tag (e.g. an input of
    a type that the code only tests with isinstance)"""
    tag: str
    ident: int = 0


def is_z3(v):
    return isinstance(v, z3.ExprRef)


def is_int(v):
    return is_z3(v) and v.sort() == I


def is_real(v):
    return is_z3(v) and v.sort() == R


def is_bool(v):
    return is_z3(v) and v.sort() == B


def to_real(v):
    if isinstance(v, CVal):
        raise Unsupported("complex where real expected")
    if is_real(v):
        return v
    if is_int(v):
        return z3.ToReal(v)
    if is_bool(v):
        return z3.If(v, z3.RealVal(1), z3.RealVal(0))
    if isinstance(v, bool):
        return z3.RealVal(int(v))
    if isinstance(v, (int, Fraction)):
        return z3.RealVal(v)
    raise Unsupported(f"to_real {v!r}")


def to_int(v):
    if is_int(v):
        return v
    if is_bool(v):
        return z3.If(v, z3.IntVal(1), z3.IntVal(0))
    if isinstance(v, bool):
        return z3.IntVal(int(v))
    if isinstance(v, int):
        return z3.IntVal(v)
    raise Unsupported(f"to_int {v!r}")


def lift(v):
    """python constants -> z3"""
    if isinstance(v, bool):
        return z3.BoolVal(v)
    if isinstance(v, int):
        return z3.IntVal(v)
    if isinstance(v, Fraction):
        return z3.RealVal(v)
    if isinstance(v, float):
        return z3.RealVal(Fraction(repr(v)))
    if isinstance(v, complex):
        return CVal(z3.RealVal(Fraction(repr(v.real))), z3.RealVal(Fraction(repr(v.imag))))
    return v


def to_c(v):
    if isinstance(v, CVal):
        return v
    return CVal(to_real(v), z3.RealVal(0))


def numeric_join(a, b):
    """coerce two scalars to a common numeric sort"""
    if isinstance(a, CVal) or isinstance(b, CVal):
        return to_c(a), to_c(b)
    if is_real(a) or is_real(b):
        return to_real(a), to_real(b)
    return to_int(a), to_int(b)
