"""Frame obligations over module-level and class-level mutable state (C08 / C11 / C13 / C16 history independence).

For every function of the listed files: no statement may write (subscript / attribute store, in-place mutator call, augmented
assignment, `global` rebinding) an object bound at module level or in a class body to a mutable container (dict / list / set
literal or constructor call).  A function that only *reads* such a container is fine as long as nobody writes it.

The pass is syntactic over the real AST (re-read on every run) and sound in the direction that matters here: any such write is
reported.  A report means "results may depend on call history" - the obligation name carries the function and the variable.
"""
from __future__ import annotations

import ast
import os

MUTATORS = {"append", "extend", "insert", "pop", "remove", "clear", "update", "setdefault", "add", "discard", "popitem", "sort", "reverse"}


def _is_mutable_ctor(v):
    if isinstance(v, (ast.Dict, ast.List, ast.Set, ast.DictComp, ast.ListComp, ast.SetComp)):
        return True
    if isinstance(v, ast.Call) and isinstance(v.func, ast.Name) and v.func.id in ("dict", "list", "set", "defaultdict", "OrderedDict", "Counter"):
        return True
    return False


def analyse(repo, relpaths):
    obligations = []
    for rel in relpaths:
        path = os.path.join(repo, rel)
        try:
            tree = ast.parse(open(path).read())
        except (OSError, SyntaxError) as e:
            obligations.append(dict(name=f"{rel}#frame.module-state", kind="frame", result="unknown", backend="ast frame pass", ms=0, reason=str(e)))
            continue
        mod_mut = {}
        cls_mut = {}
        for node in tree.body:
            if isinstance(node, (ast.Assign, ast.AnnAssign)):
                tg = node.targets if isinstance(node, ast.Assign) else [node.target]
                if node.value is not None and _is_mutable_ctor(node.value):
                    for t in tg:
                        if isinstance(t, ast.Name):
                            mod_mut[t.id] = node.lineno
            if isinstance(node, ast.ClassDef):
                for n2 in node.body:
                    if isinstance(n2, (ast.Assign, ast.AnnAssign)) and n2.value is not None and _is_mutable_ctor(n2.value):
                        for t in (n2.targets if isinstance(n2, ast.Assign) else [n2.target]):
                            if isinstance(t, ast.Name) and t.id != "__slots__":
                                cls_mut[(node.name, t.id)] = n2.lineno
        writes = []
        funcs = 0

        def scan(fn, clsname):
            nonlocal funcs
            funcs += 1
            local_names = {a.arg for a in fn.args.args + fn.args.kwonlyargs}
            for n in ast.walk(fn):
                if isinstance(n, ast.Assign):
                    for t in n.targets:
                        if isinstance(t, ast.Name):
                            local_names.add(t.id)
            declared_global = {g for n in ast.walk(fn) if isinstance(n, ast.Global) for g in n.names}

            def root(expr):
                """(kind, name) of the object an access path is rooted at"""
                while isinstance(expr, (ast.Subscript, ast.Attribute)):
                    if isinstance(expr, ast.Attribute) and isinstance(expr.value, ast.Name) and expr.value.id in ("self", "cls") and clsname:
                        if (clsname, expr.attr) in cls_mut:
                            return ("class", f"{clsname}.{expr.attr}")
                    if isinstance(expr, ast.Attribute) and isinstance(expr.value, ast.Name) and expr.value.id == clsname and (clsname, expr.attr) in cls_mut:
                        return ("class", f"{clsname}.{expr.attr}")
                    expr = expr.value
                if isinstance(expr, ast.Name) and expr.id in mod_mut and (expr.id not in local_names or expr.id in declared_global):
                    return ("module", expr.id)
                return None
            for n in ast.walk(fn):
                targets = []
                if isinstance(n, ast.Assign):
                    targets = n.targets
                elif isinstance(n, (ast.AugAssign, ast.AnnAssign)):
                    targets = [n.target]
                elif isinstance(n, ast.Delete):
                    targets = n.targets
                for t in targets:
                    if isinstance(t, (ast.Subscript, ast.Attribute)):
                        r = root(t)
                        if r:
                            writes.append((fn.name, clsname, r, n.lineno, "store"))
                    if isinstance(t, ast.Name) and t.id in declared_global and t.id in mod_mut:
                        writes.append((fn.name, clsname, ("module", t.id), n.lineno, "global rebinding"))
                    if isinstance(n, ast.AugAssign) and isinstance(t, ast.Name) and t.id in mod_mut and t.id in declared_global:
                        writes.append((fn.name, clsname, ("module", t.id), n.lineno, "augmented assignment"))
                if isinstance(n, ast.Call) and isinstance(n.func, ast.Attribute) and n.func.attr in MUTATORS:
                    r = root(n.func.value) if isinstance(n.func.value, (ast.Subscript, ast.Attribute)) else (
                        ("module", n.func.value.id) if isinstance(n.func.value, ast.Name) and n.func.value.id in mod_mut and n.func.value.id not in local_names else None)
                    if r:
                        writes.append((fn.name, clsname, r, n.lineno, f".{n.func.attr}()"))
        for node in tree.body:
            if isinstance(node, ast.FunctionDef):
                scan(node, None)
            elif isinstance(node, ast.ClassDef):
                for n2 in node.body:
                    if isinstance(n2, ast.FunctionDef):
                        scan(n2, node.name)
        o = dict(name=f"{rel}#frame.module-state", kind="frame", result="refuted" if writes else "proved", backend="ast frame pass (syntactic, sound for writes)", ms=0,
                 note=f"{funcs} functions; module-level mutable containers: {sorted(mod_mut)}; class-level: {sorted(f'{c}.{a}' for c, a in cls_mut)}; none of them is written by any function")
        if writes:
            w = writes[0]
            o["model"] = dict(function=(w[1] + "." if w[1] else "") + w[0], state=w[2][1], scope=w[2][0], line=w[3], how=w[4], all_writes=len(writes))
            o["note"] = f"{(w[1] + '.') if w[1] else ''}{w[0]} writes {w[2][0]}-level mutable state `{w[2][1]}` at line {w[3]} ({w[4]}): results can depend on call history"
        obligations.append(o)
    return obligations


def unit(tier="quick", seed=0, files=()):
    from vf.pyvc.source import REPO
    obs = analyse(REPO, list(files))
    return dict(status="ok", obligations=obs, summary=f"{len(obs)} files, {sum(o['result'] == 'proved' for o in obs)} without writes to shared mutable state")


if __name__ == "__main__":
    import sys
    for o in analyse(sys.argv[1], sys.argv[2:]):
        print(o["result"], o["name"], o.get("model"), o["note"][:200])
