"""Index of the real source under /repo (re-read on every run)."""
from __future__ import annotations

import ast
import hashlib
import os

REPO = os.environ.get("VERIF_REPO", "/repo")


class SourceIndex:
    def __init__(self, repo=None):
        self.repo = repo or REPO
        self.modules = {}     # relpath -> ast.Module
        self.text = {}
        self.classes = {}     # class name -> (relpath, ClassDef)
        self.functions = {}   # bare name -> list of (relpath, FunctionDef)
        root = os.path.join(self.repo, "lightworks")
        for d, _, fs in os.walk(root):
            for f in fs:
                if f.endswith(".py"):
                    p = os.path.join(d, f)
                    rel = os.path.relpath(p, self.repo)
                    try:
                        src = open(p).read()
                        tree = ast.parse(src)
                    except SyntaxError:
                        continue
                    self.modules[rel] = tree
                    self.text[rel] = src
                    for node in tree.body:
                        if isinstance(node, ast.ClassDef):
                            self.classes.setdefault(node.name, (rel, node))
                        elif isinstance(node, (ast.FunctionDef,)):
                            self.functions.setdefault(node.name, []).append((rel, node))

    def find(self, target):
        """target = 'path.py:Class.method' or 'path.py:function' -> (rel, clsname|None, FunctionDef)"""
        rel, qual = target.split(":")
        tree = self.modules.get(rel)
        if tree is None:
            raise KeyError(f"no module {rel}")
        parts = qual.split(".")
        body = tree.body
        cls = None
        for p in parts[:-1]:
            for node in body:
                if isinstance(node, ast.ClassDef) and node.name == p:
                    cls = node.name
                    body = node.body
                    break
            else:
                raise KeyError(f"no class {p} in {rel}")
        cands = [n for n in body if isinstance(n, ast.FunctionDef) and n.name == parts[-1]
                 and "overload" not in [ast.unparse(d) for d in n.decorator_list]]
        if not cands:
            raise KeyError(f"no function {qual} in {rel}")
        # property getter preferred over setter; for multimethod registrations the caller picks by ordinal
        return rel, cls, cands

    def method(self, clsname, name, kind=None):
        """look a method up through the (single-inheritance, in-package) class chain"""
        seen = set()
        while clsname in self.classes and clsname not in seen:
            seen.add(clsname)
            rel, cd = self.classes[clsname]
            for n in cd.body:
                if isinstance(n, ast.FunctionDef) and n.name == name:
                    decos = [ast.unparse(d) for d in n.decorator_list]
                    if "overload" in decos:
                        continue
                    if kind == "getter" and "property" not in decos:
                        continue
                    if kind == "setter" and not any(d.endswith(".setter") for d in decos):
                        continue
                    if kind is None and any(d.endswith(".setter") for d in decos):
                        continue
                    return rel, clsname, n
            bases = [b.id for b in cd.bases if isinstance(b, ast.Name)]
            clsname = bases[0] if bases else None
        return None

    def class_fields(self, clsname):
        """dataclass style annotated fields of a class body (in order)"""
        out = []
        if clsname in self.classes:
            _, cd = self.classes[clsname]
            for n in cd.body:
                if isinstance(n, ast.AnnAssign) and isinstance(n.target, ast.Name):
                    out.append(n.target.id)
        return out

    def class_field_defaults(self, clsname):
        """field name -> default value expression (ast) for dataclass style fields declared with `name: type = <literal>`"""
        out = {}
        if clsname in self.classes:
            _, cd = self.classes[clsname]
            for n in cd.body:
                if isinstance(n, ast.AnnAssign) and isinstance(n.target, ast.Name) and n.value is not None:
                    out[n.target.id] = n.value
        return out

    def func_hash(self, fn):
        return hashlib.sha256(ast.unparse(fn).encode()).hexdigest()[:16]
