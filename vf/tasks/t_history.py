"""C11 bounded stand-in: long-lived Sampler / QuickSampler / Analyzer objects versus a fresh object with the same settings.

A history = a sequence of reconfiguration steps applied to one long-lived object (with a read of the distribution after each step,
so that every step meets a warm cache), then every kind of read; the same reads on a freshly constructed object holding the final
settings must give identical results (same code, same inputs => identical floats; compared to 1e-12).
"""
from __future__ import annotations

import itertools
import json

import numpy as np


def U(n, k):
    rng = np.random.default_rng(100 + 10 * n + k)
    a = rng.normal(size=(n, n)) + 1j * rng.normal(size=(n, n))
    q, _ = np.linalg.qr(a)
    return q


class Config:
    """settings of a sampler; `build()` creates the circuit from scratch each time"""

    def __init__(self):
        self.unitary = 0
        self.herald = None          # None | (photons, mode_in, mode_out)
        self.extra_ps = 0           # number of in-place ps edits
        self.param = 0.3
        self.input = [1, 0, 1]
        self.brightness = 1.0
        self.purity = 1.0
        self.indist = 1.0
        self.backend = "permanent"
        self.loss = False
        self.reject_all = False     # quick sampler: a post-selection that no output passes (reading the distribution must raise)
        self.rules = []             # quick sampler: rules of a PostSelection object [(mode, allowed photon numbers)]
        self.closure = None         # quick sampler: post-selection predicate made by ONE factory, capturing this mode number (sibling closures share their code object)
        self.threshold = 1e-9       # lw.settings.sampler_probability_threshold (package-wide setting used when the distribution is computed)

    @property
    def valid(self):
        return len(self.input) == 3 and not self.reject_all

    def circuit(self):
        import lightworks as lw
        c = lw.Circuit(4 if self.herald else 3) if False else lw.Circuit(3 + (1 if self.herald else 0))
        n = c.n_modes
        c.add(lw.Unitary(U(n, self.unitary)), 0)
        self.p = lw.Parameter(self.param)
        c.ps(0, self.p)
        if self.loss:
            c.loss(1, 0.3)
        c.bs(0, reflectivity=0.4)
        for k in range(self.extra_ps):
            c.ps(1, 0.5 + k)
        if self.herald:
            c.herald(*self.herald)
        return c


STEPS = {
    "new-unitary": lambda cfg: setattr(cfg, "unitary", cfg.unitary + 1),
    "edit-circuit": lambda cfg: setattr(cfg, "extra_ps", cfg.extra_ps + 1),
    "param": lambda cfg: setattr(cfg, "param", cfg.param + 0.7),
    # a parameter update far below any "approximately equal" tolerance of array comparisons (relative 4e-6): the distribution moves by ~1e-6
    "param-tiny": lambda cfg: setattr(cfg, "param", cfg.param * (1 + 4e-6)),
    "input": lambda cfg: setattr(cfg, "input", [0, 1, 1] if cfg.input == [1, 0, 1] else [1, 0, 1]),
    "herald-photons": lambda cfg: setattr(cfg, "herald", (1 - cfg.herald[0], cfg.herald[1], cfg.herald[2]) if cfg.herald else (1, 3, 3)),
    "herald-mode": lambda cfg: setattr(cfg, "herald", (cfg.herald[0], cfg.herald[1], 2 if cfg.herald[2] == 3 else 3) if cfg.herald else (0, 3, 2)),
    # photon number and output mode change together: a full output state can satisfy the old and the new herald on different modes
    "herald-both": lambda cfg: setattr(cfg, "herald", (1 - cfg.herald[0], cfg.herald[1], 2 if cfg.herald[2] == 3 else 3) if cfg.herald else (1, 3, 2)),
    # same total photon number before and after, herald on another mode with another photon number: full output states are shared
    "herald-swap": lambda cfg: (setattr(cfg, "herald", (0, 3, 2)), setattr(cfg, "input", [1, 1, 1])) if (cfg.herald and cfg.herald[0] == 1) else
                               (setattr(cfg, "herald", (1, 3, 3)), setattr(cfg, "input", [1, 0, 1])),
    "brightness": lambda cfg: setattr(cfg, "brightness", 0.8 if cfg.brightness == 1.0 else 1.0),
    "indist": lambda cfg: setattr(cfg, "indist", 0.9 if cfg.indist == 1.0 else 1.0),
    "backend": lambda cfg: setattr(cfg, "backend", "slos" if cfg.backend == "permanent" else "permanent"),
    "loss": lambda cfg: setattr(cfg, "loss", not cfg.loss),
    # reconfigurations after which reading must FAIL (on a fresh object too): a failed recalculation must not leave the cache looking up to date
    "global-threshold": lambda cfg: setattr(cfg, "threshold", 5e-3 if cfg.threshold == 1e-9 else 1e-9),
    "bad-input": lambda cfg: setattr(cfg, "input", [1, 0, 1, 1, 0]),
    "reject-all": lambda cfg: (setattr(cfg, "reject_all", not cfg.reject_all), setattr(cfg, "closure", None)),
    # a predicate from the same factory as the previous one, capturing another value: same code object, different function
    "ps-closure": lambda cfg: (setattr(cfg, "closure", 0 if cfg.closure is None else 1 - cfg.closure), setattr(cfg, "rules", []), setattr(cfg, "reject_all", False)),
    # post-selection given as a PostSelection OBJECT: assigned, then extended IN PLACE with another rule (a change of post-selection like any other)
    "ps-assign": lambda cfg: (setattr(cfg, "rules", [(0, (0, 1))]), setattr(cfg, "reject_all", False), setattr(cfg, "closure", None)),
    "ps-add-rule": lambda cfg: (setattr(cfg, "rules", cfg.rules + [(1, (0, 1))]) if (1, (0, 1)) not in cfg.rules else None, setattr(cfg, "reject_all", False), setattr(cfg, "closure", None)),
}


def closure_predicate(m):
    """post-selection predicates made by one factory: every one of them has the same code object, they differ in the captured mode"""
    return lambda s: s[m] == 0


def build_ps(rules):
    import lightworks as lw
    ps = lw.PostSelection()
    for m, n in rules:
        ps.add(m, n)
    return ps


HELD = {}     # id(long-lived object) -> the PostSelection object its user handed over and still holds


def apply_live(obj, cfg, step, kind):
    """apply the same change to the long-lived object through its public API (in place where the API allows)"""
    from lightworks import emulator
    import lightworks as lw
    if step == "global-threshold":
        lw.settings.sampler_probability_threshold = cfg.threshold
    elif step in ("param", "param-tiny"):
        cfg.p_live.set(cfg.param)
    elif step == "edit-circuit":
        obj.circuit.ps(1, 0.5 + cfg.extra_ps - 1)
    elif step in ("input", "bad-input"):
        obj.input_state = lw.State(cfg.input)
    elif step == "herald-swap":
        c = cfg.circuit()
        cfg.p_live = cfg.p
        obj.circuit = c
        obj.input_state = lw.State(cfg.input)
    elif step == "reject-all":
        HELD.pop(id(obj), None)
        obj.post_select = (lambda s: False) if cfg.reject_all else ((lambda s: True) if not cfg.rules else build_ps(cfg.rules))
    elif step == "ps-closure":
        HELD.pop(id(obj), None)
        obj.post_select = closure_predicate(cfg.closure)
    elif step == "ps-assign":
        HELD[id(obj)] = build_ps(cfg.rules)     # the user keeps the PostSelection object that is handed over
        obj.post_select = HELD[id(obj)]
    elif step == "ps-add-rule":
        if isinstance(obj.post_select, lw.PostSelection):
            if (1, (0, 1)) not in [r.as_tuple() for r in obj.post_select.rules] and len(obj.post_select.rules) < len(cfg.rules):
                # in place: through the reference the user kept when there is one (rules are added to the object that was handed over), else on
                # the object the sampler holds
                (HELD.get(id(obj)) or obj.post_select).add(1, (0, 1))
        else:
            HELD.pop(id(obj), None)
            obj.post_select = build_ps(cfg.rules)
    elif step == "brightness" and kind == "sampler":
        obj.source.brightness = cfg.brightness
    elif step == "indist" and kind == "sampler":
        obj.source = emulator.Source(brightness=cfg.brightness, purity=cfg.purity, indistinguishability=cfg.indist)
    elif step == "backend" and kind == "sampler":
        obj.backend = cfg.backend
    else:
        # new-unitary / herald changes / loss: a new circuit object is assigned
        c = cfg.circuit()
        cfg.p_live = cfg.p
        obj.circuit = c


def fresh(cfg, kind):
    from lightworks import emulator
    import lightworks as lw
    c = cfg.circuit()
    if kind == "sampler":
        return emulator.Sampler(c, lw.State(cfg.input), source=emulator.Source(brightness=cfg.brightness, purity=cfg.purity, indistinguishability=cfg.indist),
                                backend=cfg.backend)
    return emulator.QuickSampler(c, lw.State(cfg.input), **({"post_select": (lambda s: False)} if cfg.reject_all else ({"post_select": build_ps(cfg.rules)} if cfg.rules else
                                                                  ({"post_select": closure_predicate(cfg.closure)} if cfg.closure is not None else {}))))


def dist_equal(a, b):
    ka = {tuple(k.s): v for k, v in a.items()}
    kb = {tuple(k.s): v for k, v in b.items()}
    if set(ka) != set(kb):
        return f"different outcome sets ({len(ka)} vs {len(kb)})"
    for k in ka:
        if abs(ka[k] - kb[k]) > 1e-12:
            return f"P{list(k)} = {ka[k]:.6f} on the long-lived object, {kb[k]:.6f} on a fresh one"
    return None


def reads(obj, kind, first=None):
    """every kind of read; `first` chooses which read is done before any other on a never-read object"""
    out = {}
    order = ["sample_N_outputs", "distribution", "sample", "sample_N_inputs", "sample_N_outputs_filtered", "sample_N_inputs_filtered"]
    if first:
        order.remove(first)
        order.insert(0, first)
    for r in order:
        try:
            if r == "distribution":
                out[r] = dict(obj.probability_distribution)
            elif r == "sample_N_outputs":
                out[r] = dict(obj.sample_N_outputs(200, seed=5))
            elif r == "sample_N_inputs" and kind == "sampler":
                out[r] = dict(obj.sample_N_inputs(200, seed=7))
            elif r == "sample_N_outputs_filtered" and kind == "sampler":
                # sampling calls with their own acceptance criteria (they reject part of the distribution for this call only)
                out[r] = dict(obj.sample_N_outputs(100, seed=5, post_select=lambda s_: s_[0] == 0, min_detection=1))
            elif r == "sample_N_inputs_filtered" and kind == "sampler":
                out[r] = dict(obj.sample_N_inputs(100, seed=7, post_select=lambda s_: s_[0] == 0, min_detection=1))
            elif r == "sample":
                import random
                random.seed(3)
                out[r] = [tuple(obj.sample().s) for _ in range(20)]
        except Exception as e:  # noqa: BLE001
            out[r] = f"raised {type(e).__name__}: {e}"
    return out


def compare_reads(a, b, valid=True):
    for r in a:
        x, y = a[r], b.get(r)
        if isinstance(y, str) and valid:
            return f"{r} fails on a freshly created object: {y}"
        if isinstance(x, str) or isinstance(y, str):
            if x != y:
                return f"{r}: long-lived object {x if isinstance(x, str) else 'ok'}; fresh object {y if isinstance(y, str) else 'ok'}"
            continue
        if r == "distribution":
            m = dist_equal(x, y)
            if m:
                return f"{r}: {m}"
        elif r == "sample":
            if x != y:
                return f"{r}: different draws for the same random seed"
        else:
            kx = {tuple(k.s): v for k, v in x.items()}
            ky = {tuple(k.s): v for k, v in y.items()}
            if kx != ky:
                return f"{r}: different counts for the same seed ({sorted(kx.items())[:3]} vs {sorted(ky.items())[:3]})"
    return None


def run_history(kind, steps, first_read):
    import lightworks as lw
    old = lw.settings.sampler_probability_threshold
    try:
        lw.settings.sampler_probability_threshold = 1e-9
        return _run_history(kind, steps, first_read)
    finally:
        lw.settings.sampler_probability_threshold = old


def _run_history(kind, steps, first_read):
    cfg = Config()
    live = fresh(cfg, kind)
    cfg.p_live = cfg.p
    warm_all = first_read == "warm-all"       # every kind of read (also the sampling calls, which fill lazily built tables) after every step
    if warm_all:
        first_read = None
        reads(live, kind)
    if first_read is None:
        live.probability_distribution         # warm cache before the first step
    import copy
    for st in steps:
        before = copy.copy(cfg.__dict__)
        STEPS[st](cfg)
        try:
            apply_live(live, cfg, st, kind)
        except Exception:  # noqa: BLE001
            if st not in ("bad-input", "reject-all"):
                raise
            cfg.__dict__.update(before)       # the setter refused the value: the configuration is the previous one
        if first_read is None:
            try:
                live.probability_distribution
            except Exception:  # noqa: BLE001
                if cfg.valid:
                    raise
            if warm_all:
                reads(live, kind)
    a = reads(live, kind, first_read)
    b = reads(fresh(cfg, kind), kind, first_read)
    m = compare_reads(a, b, cfg.valid)
    if m is None and cfg.valid:
        # after all those reads (sampling calls with their own acceptance criteria included) the distribution is still the one a never-used
        # object reports
        try:
            m = dist_equal(dict(live.probability_distribution), dict(fresh(cfg, kind).probability_distribution))
        except Exception as e:  # noqa: BLE001
            m = f"reading the distribution after the sampling calls raised {type(e).__name__}: {e}"
        if m:
            m = f"distribution after sampling calls vs a never-used object: {m}"
    return m


def histories(tier, kind):
    steps = ([s_ for s_ in STEPS if s_ not in ("reject-all", "ps-assign", "ps-add-rule", "ps-closure")] if kind == "sampler" else
             ["new-unitary", "edit-circuit", "param", "param-tiny", "input", "herald-photons", "herald-mode", "herald-both", "herald-swap", "loss", "global-threshold", "bad-input", "reject-all", "ps-assign", "ps-add-rule", "ps-closure"])
    out = [()]
    out += [(s,) for s in steps]
    out += list(itertools.permutations(steps, 2))
    out += [(s, s) for s in steps]            # the same kind of change twice in a row (second parameter update, sibling closure, herald moved again ...)
    if tier == "thorough":
        out += list(itertools.permutations(steps, 3))
    return out


def analyzer_histories():
    """an analysis result contains only quantities computed by that call"""
    from lightworks import emulator
    import lightworks as lw
    fails = []
    c = lw.Circuit(2)
    c.bs(0)
    an = emulator.Analyzer(c)
    r1 = an.analyze(lw.State([1, 0]), expected={lw.State([1, 0]): lw.State([0, 1])})
    if not hasattr(r1, "error_rate"):
        fails.append("first call with expected: no error_rate in the result")
    r2 = an.analyze(lw.State([1, 0]))
    if hasattr(r2, "error_rate"):
        fails.append(f"analyze() without 'expected' returned a result carrying error_rate={r2.error_rate} from the previous call")
    c.ps(0, 1.0)
    c.bs(0, reflectivity=0.2)
    r3 = an.analyze(lw.State([1, 0]))
    f = emulator.Analyzer(c).analyze(lw.State([1, 0]))
    if not np.allclose(r3.array, f.array, atol=1e-12) or abs(r3.performance - f.performance) > 1e-12:
        fails.append("after editing the circuit the long-lived analyzer differs from a fresh one")
    # step sequences on a long-lived analyzer (in-place edits, loss added/removed, circuit reassigned, post-selection changed)
    def lossless():
        cc = lw.Circuit(3)
        cc.add(lw.Unitary(U(3, 1)), 0)
        return cc

    def lossy():
        cc = lossless()
        cc.loss(1, 0.4)
        cc.bs(0, loss=0.2)
        return cc
    held = {}

    def assign_ps(a):
        held["ps"] = _ps()
        a.post_selection = held["ps"]

    def extend_held(a):
        # the user adds a rule to the PostSelection object that was handed to the analyzer earlier (handing one over first if there is none)
        if "ps" not in held:
            assign_ps(a)
        held["ps"].add(1, (0, 1))
    steps = {"edit": lambda a: a.circuit.ps(0, 0.7), "add-loss": lambda a: a.circuit.loss(0, 0.3), "assign-lossy": lambda a: setattr(a, "circuit", lossy()),
             "assign-lossless": lambda a: setattr(a, "circuit", lossless()), "ps-rule": assign_ps, "ps-extend-held": extend_held}
    for seq in [(s_,) for s_ in steps] + list(itertools.permutations(steps, 2)):
        if "herald" in seq and seq[0] != "herald" and seq[-1] != "herald":
            continue
        a = emulator.Analyzer(lossless())
        held.clear()
        n_in = 3
        try:
            a.analyze([lw.State([1, 1, 0]), lw.State([0, 1, 1])])
            for st in seq:
                steps[st](a)
                if st == "herald":
                    n_in = 2
                ins = [lw.State([1, 1, 0][:n_in]), lw.State([0, 1, 1][:n_in])]
                got = a.analyze(ins)
            fr = emulator.Analyzer(a.circuit.copy())
            if "ps" in held:
                fr.post_selection = build_ps([r.as_tuple() for r in held["ps"].rules])     # the rules the user's object holds now, in a new object
            want = fr.analyze(ins)
        except Exception as e:  # noqa: BLE001
            fails.append(f"analyzer history {list(seq)} raised {type(e).__name__}: {e}")
            continue
        go = [tuple(o.s) for o in got.outputs]
        wo = [tuple(o.s) for o in want.outputs]
        if go != wo or not np.allclose(got.array, want.array, atol=1e-12) or abs(got.performance - want.performance) > 1e-12:
            fails.append(f"analyzer history {list(seq)}: long-lived analyzer reports {len(go)} outputs / performance {got.performance:.6f}, a fresh one {len(wo)} / {want.performance:.6f}")
    return fails


def simulator_histories():
    """a Simulator object used again after its circuit changed - by a tiny or a large parameter step, an in-place edit, a herald declared
    later, a re-assigned circuit - returns the amplitudes a fresh Simulator returns for the current circuit (same floats, 1e-12)"""
    from lightworks import emulator
    import lightworks as lw
    fails, n = [], 0
    p = lw.Parameter(0.3)
    c = lw.Circuit(3)
    c.add(lw.Unitary(U(3, 2)), 0)
    c.ps(0, p)
    c.bs(0, reflectivity=0.4)
    c.ps(1, p)
    c.bs(1, reflectivity=0.7)
    sim = emulator.Simulator(c)
    ins = [lw.State([1, 1, 0]), lw.State([0, 1, 1])]
    steps = [("first", lambda: None), ("parameter +2e-6", lambda: p.set(p.get() + 2e-6)), ("parameter +1e-9", lambda: p.set(p.get() + 1e-9)), ("parameter +0.7", lambda: p.set(p.get() + 0.7)),
             ("parameter -3e-7", lambda: p.set(p.get() - 3e-7)), ("in-place ps(2, 1e-6)", lambda: c.ps(2, 1e-6)), ("in-place bs", lambda: c.bs(0, 2, reflectivity=0.2)),
             ("unchanged", lambda: None)]
    for what, step in steps:
        n += 1
        step()
        got = sim.simulate(ins)
        want = emulator.Simulator(c).simulate(ins)
        if [o.s for o in got.outputs] != [o.s for o in want.outputs] or np.abs(np.array(got.array) - np.array(want.array)).max() > 1e-12:
            fails.append(f"simulator history up to '{what}': reused Simulator differs from a fresh one by {np.abs(np.array(got.array) - np.array(want.array)).max():.2e}")
    # herald declared after the Simulator was created, then the circuit re-assigned
    c2 = lw.Unitary(U(4, 1))
    sim = emulator.Simulator(c2)
    sim.simulate(lw.State([1, 0, 1, 0]))
    c2.herald(1, 0, 3)
    c3 = lw.Unitary(U(3, 5))
    for what, step, inp in (("herald declared later", lambda: None, [1, 0, 1]), ("circuit re-assigned", lambda: setattr(sim, "circuit", c3), [1, 0, 1])):
        n += 1
        step()
        try:
            got = sim.simulate(lw.State(inp))
            want = emulator.Simulator(sim.circuit).simulate(lw.State(inp))
            if [o.s for o in got.outputs] != [o.s for o in want.outputs] or np.abs(np.array(got.array) - np.array(want.array)).max() > 1e-12:
                fails.append(f"simulator history '{what}': reused Simulator differs from a fresh one")
        except Exception as e:  # noqa: BLE001
            fails.append(f"simulator history '{what}' raised {type(e).__name__}: {e}")
    return fails, n


def _ps():
    import lightworks as lw
    p = lw.PostSelection()
    p.add(0, (0, 1))
    return p


def bystanders():
    """objects created with default settings do not share configuration objects: editing one object's source / detector / post-selection in place
    leaves every other object (created before or after) reporting the distribution of ITS settings"""
    from lightworks import emulator
    import lightworks as lw
    fails = []

    def circ():
        c = lw.Circuit(3)
        c.bs(0)
        c.bs(1, reflectivity=0.3)
        return c
    ref = dict(emulator.Sampler(circ(), lw.State([1, 1, 0]), source=emulator.Source(), detector=emulator.Detector()).probability_distribution)
    for edit_label, edit in (("source.brightness = 0.4", lambda a: setattr(a.source, "brightness", 0.4)),
                             ("source.indistinguishability = 0.2", lambda a: setattr(a.source, "indistinguishability", 0.2)),
                             ("detector.photon_counting = False", lambda a: setattr(a.detector, "photon_counting", False)),
                             ("detector.efficiency = 0.5", lambda a: setattr(a.detector, "efficiency", 0.5))):
        a = emulator.Sampler(circ(), lw.State([1, 1, 0]))
        b = emulator.Sampler(circ(), lw.State([1, 1, 0]))
        b.probability_distribution      # noqa: B018
        try:
            edit(a)
            a.probability_distribution  # noqa: B018
        except Exception as e:  # noqa: BLE001
            fails.append(f"in-place edit {edit_label} on a default-constructed Sampler raised {type(e).__name__}: {e}")
            continue
        later = emulator.Sampler(circ(), lw.State([1, 1, 0]))
        for who, obj in (("a Sampler created before the edit", b), ("a Sampler created after the edit", later)):
            m = dist_equal(dict(obj.probability_distribution), ref)
            ok_det = obj.detector.photon_counting is True and obj.detector.efficiency == 1
            r1 = dict(obj.sample_N_inputs(50, seed=3))
            r2 = dict(emulator.Sampler(circ(), lw.State([1, 1, 0]), source=emulator.Source(), detector=emulator.Detector()).sample_N_inputs(50, seed=3))
            if m or not ok_det or {tuple(k.s): v for k, v in r1.items()} != {tuple(k.s): v for k, v in r2.items()}:
                fails.append(f"after `{edit_label}` on ANOTHER default-constructed Sampler, {who} no longer behaves like an ideal-source / ideal-detector Sampler ({m or 'detector settings / samples differ'})")
    return fails


def late_edits():
    """in-place edits of objects a long-lived sampler holds (its detector, its circuit): afterwards it behaves like a fresh object with the same settings -
    including REFUSING what a fresh object refuses"""
    import random as _random
    from lightworks import emulator
    import lightworks as lw
    fails = []

    def circ():
        c = lw.Circuit(3)
        c.bs(0)
        c.bs(1, reflectivity=0.3)
        c.bs(0, reflectivity=0.6)
        return c

    def observe(obj):
        out = {}
        try:
            out["N_inputs"] = {tuple(k.s): v for k, v in obj.sample_N_inputs(300, seed=3).items()}
        except Exception as e:  # noqa: BLE001
            out["N_inputs"] = f"raised {type(e).__name__}"
        _random.seed(11)
        try:
            out["sample"] = [tuple(obj.sample().s) for _ in range(40)]
        except Exception as e:  # noqa: BLE001
            out["sample"] = f"raised {type(e).__name__}"
        try:
            out["N_outputs"] = {tuple(k.s): v for k, v in obj.sample_N_outputs(100, seed=5).items()}
        except Exception as e:  # noqa: BLE001
            out["N_outputs"] = f"raised {type(e).__name__}"
        return out
    for label, edit, mk in (("detector.photon_counting = False", lambda d: setattr(d, "photon_counting", False), lambda: emulator.Detector(photon_counting=False)),
                            ("detector.efficiency = 0.5", lambda d: setattr(d, "efficiency", 0.5), lambda: emulator.Detector(efficiency=0.5)),
                            ("detector.p_dark = 0.3", lambda d: setattr(d, "p_dark", 0.3), lambda: emulator.Detector(p_dark=0.3)),
                            ("efficiency 0.5 then back to 1", lambda d: (setattr(d, "efficiency", 0.5), setattr(d, "efficiency", 1)), lambda: emulator.Detector())):
        for start in ("default detector", "explicit ideal detector"):
            s = emulator.Sampler(circ(), lw.State([2, 0, 1])) if start == "default detector" else emulator.Sampler(circ(), lw.State([2, 0, 1]), detector=emulator.Detector())
            observe(s)                       # used before the edit
            edit(s.detector)
            got = observe(s)
            want = observe(emulator.Sampler(circ(), lw.State([2, 0, 1]), detector=mk()))
            if got != want:
                bad = [k for k in got if got[k] != want[k]]
                fails.append(f"Sampler ({start}) after in-place `{label}`: {bad} differ from a fresh Sampler with that detector")
    # a circuit edited in place into something click detectors cannot serve (two-photon herald): the long-lived QuickSampler refuses like a fresh one
    c = lw.Unitary(U(4, 2))
    q = emulator.QuickSampler(c, lw.State([1, 1, 0, 0]), photon_counting=False)
    q.probability_distribution      # noqa: B018
    c.herald(2, 3)
    q.input_state = lw.State([1, 1, 0])

    def outcome(make):
        # refusing at construction or when the distribution is read are both "refuses"
        try:
            d = make().probability_distribution
            return ("distribution", len(d))
        except Exception as e:  # noqa: BLE001
            return ("raised", type(e).__name__)
    c2 = lw.Unitary(U(4, 2))
    c2.herald(2, 3)
    got, want = outcome(lambda: q), outcome(lambda: emulator.QuickSampler(c2, lw.State([1, 1, 0]), photon_counting=False))
    if got != want:
        fails.append(f"QuickSampler(photon_counting=False) after a two-photon herald was declared in place on its circuit: {got}; a fresh QuickSampler with the same settings: {want}")
    return fails


def unit_bystanders(tier="quick", seed=0):
    bf = bystanders()
    ob = dict(name="lightworks/emulator/simulation/sampler.py:Sampler#bnd.objects-independent", kind="bnd", cases=8, result="bounded-fail" if bf else "bounded-pass",
              backend="native", ms=0, sample="a = Sampler(c, s); b = Sampler(c, s); a.source.brightness = 0.4; b.probability_distribution",
              note="default-constructed Samplers share no source / detector object: an in-place edit on one leaves the others (earlier and later ones) ideal")
    if bf:
        ob["failing_cases"] = bf
        ob["model"] = dict(observed=bf[0], n_failing=len(bf))
        ob["replayed"] = "; ".join(bf[:2])
        ob["replay_spec"] = dict(module="vf.tasks.t_history", func="replay", args=["bystanders", None, None])
    return dict(status="ok", obligations=[ob], summary="bystander samplers: 8 cases")


def unit(tier="quick", seed=0, kind="sampler", shard=0, nshards=1, only=None):
    """only: restrict the histories to sequences of these step kinds (a sub-family, e.g. parameter updates for C04)"""
    n, fails, sample = 0, [], None
    if kind == "analyzer":
        f = analyzer_histories()
        o = dict(name="lightworks/emulator/simulation/analyzer.py:Analyzer.analyze#bnd.fresh-results", kind="bnd", cases=3,
                 result="bounded-fail" if f else "bounded-pass", backend="native history enumeration", ms=0, sample="analyze(expected) ; analyze() ; edit ; analyze()",
                 note="a result contains only quantities computed by that call; long-lived analyzer = fresh analyzer")
        if f:
            o["model"] = dict(observed=f)
            o["failing_cases"] = f
            o["replayed"] = "; ".join(f)
            o["replay_spec"] = dict(module="vf.tasks.t_history", func="replay", args=["analyzer", None, None])
        return dict(status="ok", obligations=[o], summary="analyzer: 3 call sequences")
    if kind == "simulator":
        f, n = simulator_histories()
        o = dict(name="lightworks/emulator/simulation/simulator.py:Simulator.simulate#bnd.history-independent", kind="bnd", cases=n,
                 result="bounded-fail" if f else "bounded-pass", backend="native history enumeration", ms=0, sample="first ; parameter +2e-6 ; ...",
                 note="a reused Simulator returns the amplitudes of the CURRENT circuit (tiny and large parameter steps, in-place edits, late heralds, re-assignment)")
        if f:
            o["model"] = dict(observed=f)
            o["failing_cases"] = f
            o["replayed"] = "; ".join(f)
            o["replay_spec"] = dict(module="vf.tasks.t_history", func="replay", args=["simulator", None, None])
        return dict(status="ok", obligations=[o], summary=f"simulator: {n} steps")
    hs = histories(tier, kind)
    if only is not None:
        hs = [h for h in hs if all(s_ in only for s_ in h)]
    hs = [h for k, h in enumerate(hs) if k % nshards == shard]
    for steps in hs:
        for first_read in (None, "sample", "sample_N_outputs", "warm-all"):
            n += 1
            label = json.dumps([kind, list(steps), first_read])
            sample = sample or label
            try:
                m = run_history(kind, steps, first_read)
            except Exception as e:  # noqa: BLE001
                m = f"history raised {type(e).__name__}: {e}"
            if m:
                fails.append((label, m))
    cls = "Sampler" if kind == "sampler" else "QuickSampler"
    f = "sampler.py" if kind == "sampler" else "quick_sampler.py"
    o = dict(name=f"lightworks/emulator/simulation/{f}:{cls}#bnd.history-independent", kind="bnd", cases=n, result="bounded-fail" if fails else "bounded-pass",
             backend="native history enumeration", ms=0, sample=sample,
             note="after any sequence of reconfigurations every read equals that of a fresh object with the same settings; sampling works without reading the distribution first")
    if fails:
        o["failing_cases"] = [f_[0] for f_ in fails]
        o["model"] = dict(case=fails[0][0], observed=fails[0][1], n_failing=len(fails))
        o["replayed"] = f"{len(fails)} of {n} histories differ from a fresh object; first {fails[0][0]}: {fails[0][1]}"
        o["replay_spec"] = dict(module="vf.tasks.t_history", func="replay", args=json.loads(fails[0][0]))
    obs = [o]
    if kind == "sampler" and shard == 0 and only is None:
        lf = late_edits()
        ol = dict(name="lightworks/emulator/simulation/sampler.py:Sampler/QuickSampler#bnd.in-place-edits-of-held-objects", kind="bnd", cases=9, result="bounded-fail" if lf else "bounded-pass",
                  backend="native", ms=0, sample="s.detector.photon_counting = False on a used Sampler; circuit.herald(2, m) in place under a click-detector QuickSampler",
                  note="after in-place edits of the detector / circuit object a sampler holds, it behaves (and refuses) like a fresh object with those settings")
        if lf:
            ol["failing_cases"] = lf
            ol["model"] = dict(observed=lf[0], n_failing=len(lf))
            ol["replayed"] = "; ".join(lf[:2])
            ol["replay_spec"] = dict(module="vf.tasks.t_history", func="replay", args=["late-edits", None, None])
        obs.append(ol)
        bf = bystanders()
        ob = dict(name="lightworks/emulator/simulation/sampler.py:Sampler#bnd.objects-independent", kind="bnd", cases=8, result="bounded-fail" if bf else "bounded-pass",
                  backend="native", ms=0, sample="a = Sampler(c, s); b = Sampler(c, s); a.source.brightness = 0.4; b.probability_distribution",
                  note="default-constructed Samplers share no source / detector object: an in-place edit on one leaves the others (earlier and later ones) ideal")
        if bf:
            ob["failing_cases"] = bf
            ob["model"] = dict(observed=bf[0], n_failing=len(bf))
            ob["replayed"] = "; ".join(bf[:2])
            ob["replay_spec"] = dict(module="vf.tasks.t_history", func="replay", args=["bystanders", None, None])
        obs.append(ob)
    return dict(status="ok", obligations=obs, summary=f"{kind} shard {shard}/{nshards}: {n} histories")


def replay(kind, steps, first_read):
    if kind == "bystanders":
        f = bystanders()
        return "; ".join(f) if f else None
    if kind == "late-edits":
        f = late_edits()
        return "; ".join(f) if f else None
    if kind == "analyzer":
        f = analyzer_histories()
        return "; ".join(f) if f else None
    if kind == "simulator":
        f, _ = simulator_histories()
        return "; ".join(f) if f else None
    m = run_history(kind, tuple(steps), first_read)
    return f"{kind} history {steps} (first read: {first_read}): {m}" if m else None


if __name__ == "__main__":
    import sys
    for kind in ("sampler", "quick", "analyzer"):
        r = unit(sys.argv[1] if len(sys.argv) > 1 else "quick", kind=kind)
        print(r["summary"])
        for o in r["obligations"]:
            print(" ", o["result"], (o.get("replayed") or "")[:500])
            for c in o.get("failing_cases", [])[:25]:
                print("    ", c)
