"""C03 / C04 / C05 bounded stand-ins in exact arithmetic (xlift): the REAL Simulator, Sampler (both backends),
Analyzer and QuickSampler run on small circuits whose matrices are exact; every value they report is
compared, as an identity, with the spec formula of vf/spec/fock.py evaluated on the circuit's own U_full.
Bounded in circuit size / photon number; exact (no tolerance) inside the bound.
"""
from __future__ import annotations

import itertools
from fractions import Fraction

import numpy as real_np

from vf.spec import fock
from vf.xlift.env import Env
from vf.tasks.t_compile import block_unitary


def circuits(env, tier):
    """yield (label, circuit) - heralds in/out on different modes, photon-carrying heralds, loss, ancillas"""
    import lightworks as lw
    F = Fraction

    def uni(n, tag, heralds=()):
        u = lw.Unitary(block_unitary(env, n, tag))
        for (k, i, o) in heralds:
            u.herald(k, i, o)
        return u
    yield "U2", uni(2, 1)
    yield "U3", uni(3, 2)
    yield "U3+h(1,0,2)", uni(3, 3, [(1, 0, 2)])
    yield "U3+h(0,1,1)", uni(3, 4, [(0, 1, 1)])
    yield "U3[late-herald]", uni(3, 3)
    yield "U4+h(0,0,0)+h(1,3,1)", uni(4, 5, [(0, 0, 0), (1, 3, 1)])
    yield "U4+h(1,0,2)+h(1,3,1)", uni(4, 12, [(1, 0, 2), (1, 3, 1)])      # two heralds with one photon each (two herald photons in total, none on a shared mode)
    yield "U2+h(0,0,0)+h(1,1,1)", uni(2, 11, [(0, 0, 0), (1, 1, 1)])      # every mode heralded: no user-visible mode (herald success probability)
    c = lw.Circuit(3)
    c.bs(0, reflectivity=env.const(F(1, 3)))
    c.loss(1, env.const(F(1, 4)))
    c.ps(2, env.const(0))
    c.bs(1, reflectivity=env.const(F(1, 2)), loss=env.const(F(1, 2)))
    yield "lossy3", c
    c = lw.Circuit(2)
    c.bs(0, reflectivity=env.const(F(1, 4)))
    c.loss(0, env.const(F(3, 4)))
    yield "lossy2", c
    c = lw.Circuit(3)
    c.add(uni(2, 6), 1)
    c.loss(0, env.const(F(1, 2)))
    c.herald(1, 2, 0)
    yield "lossy3+h(1,2,0)", c
    c = lw.Circuit(3)
    c.bs(0, reflectivity=env.const(F(1, 2)))
    c.add(uni(3, 7, [(1, 1, 1)]), 1)          # ancilla in the middle, carries a photon
    c.bs(0, 2, reflectivity=env.const(F(1, 3)), convention="H")
    yield "anc(1)", c
    c = lw.Circuit(3)
    c.bs(0, reflectivity=env.const(F(1, 10 ** 10)))      # a matrix element of modulus 1e-5: below-threshold single amplitudes, O(1e-5) interference
    c.bs(1, reflectivity=env.const(F(1, 2)))
    c.bs(0, reflectivity=env.const(F(1, 3)))
    c.loss(2, env.const(F(1, 2)))
    yield "tiny", c
    if tier == "thorough":
        c = lw.Circuit(4)
        c.add(uni(3, 8, [(0, 0, 2)]), 0)
        c.add(uni(3, 9, [(1, 2, 0)]), 1)
        c.loss(2, env.const(F(1, 5)))
        yield "two-ancillas+loss", c
        yield "U4", uni(4, 10)


def states(n_modes, max_photons):
    out = []
    for k in range(0, max_photons + 1):
        out += fock.fock(n_modes, k)
    return out


def mod2(env, v):
    c = v.conjugate() if hasattr(v, "conjugate") else v
    return v * c


def n_loss(circ, U):
    return U.shape[0] - circ.n_modes


# ----------------------------------------------------------------------------------------------- C03
def check_simulator(env, label, circ, maxp):
    from lightworks import emulator
    import lightworks as lw
    U = circ.U_full
    nl = n_loss(circ, U)
    if label.endswith("[late-herald]"):
        # the simulator object exists before the herald is declared on the circuit it holds
        base = lw.Unitary(block_unitary(env, 3, 3))
        sim = emulator.Simulator(base)
        base.herald(1, 0, 2)
        circ = base
        U = circ.U_full
        nl = n_loss(circ, U)
    else:
        sim = emulator.Simulator(circ)
    m = circ.input_modes
    name = "lightworks/emulator/simulation/simulator.py:Simulator.simulate#xsym"
    if label == "U2":
        maxp = max(maxp, 4)        # two modes holding the same occupation >= 2 (|2,2>): the factorial normalisation counts every mode
    for k in range(0, (maxp if m else 0) + 1):
        ins_ = fock.fock(m, k)
        res = sim.simulate([lw.State(s) for s in ins_])
        outs = [o.s for o in res.outputs]
        env.check_true(f"{name}.outputs[{label};n={k}]", sorted(outs) == sorted(fock.fock(m, k)) and len(outs) == len(set(map(tuple, outs))),
                       note="default outputs = every Fock state of the input photon number, once", model=dict(circuit=label, photons=k))
        vals = []
        for i, s in enumerate(ins_):
            tot = env.const(0)
            for j, o in enumerate(outs):
                a = res.array[i, j]
                vals.append(((tuple(s), tuple(o)), a - fock.heralded_amp(env, circ, U, s, o, nl)))
                vals.append(((tuple(s), tuple(o), "index"), res[lw.State(s), lw.State(o)] - a))
                tot = tot + mod2(env, a)
            if nl == 0 and not circ.heralds["input"]:
                vals.append(((tuple(s), "norm"), tot - 1))
        env.check_all_zero(f"{name}.amplitude[{label};n={k}]", vals,
                           note="amplitude = perm(U_full[rows(out),cols(in)]) / sqrt(prod factorials), heralds inserted, vacuum on loss modes; unit vector when lossless")
    if m == 0:
        return
    # input and output lists in which a state occurs more than once, in an order of the caller's choosing: the array has one row per listed input and one
    # column per listed output, in list order (the dictionary view cannot tell the repeats apart; only the array is compared here)
    k_ = 1 if maxp >= 1 else 0
    basis_ = fock.fock(m, k_)
    if len(basis_) >= 2:
        ins_rep = [basis_[0], basis_[-1], basis_[0]]
        outs_rep = [basis_[-1], basis_[0], basis_[-1], basis_[len(basis_) // 2], basis_[0]]
        res = sim.simulate([lw.State(x) for x in ins_rep], [lw.State(x) for x in outs_rep])
        ok_shape = tuple(res.array.shape) == (len(ins_rep), len(outs_rep))
        env.check_true(f"{name}.repeated-states-shape[{label}]", ok_shape, note="one row per listed input, one column per listed output, repeats included", model=dict(circuit=label))
        if ok_shape:
            env.check_all_zero(f"{name}.repeated-states[{label}]",
                               [((i, j, tuple(si), tuple(so)), res.array[i, j] - fock.heralded_amp(env, circ, U, si, so, nl)) for i, si in enumerate(ins_rep) for j, so in enumerate(outs_rep)],
                               note="array[i, j] is the amplitude from the i-th listed input to the j-th listed output also when a state is listed more than once")
    # rejected inputs
    bad = [("wrong length", lambda: sim.simulate(lw.State([1] * (m + 1))), lw.emulator.ModeMismatchError if hasattr(lw.emulator, "ModeMismatchError") else Exception),
           ("negative", lambda: sim.simulate(lw.State([-1] + [0] * (m - 1))), ValueError),
           ("non-integer", lambda: sim.simulate(lw.State([0.5] + [0] * (m - 1))), TypeError),
           ("photon mismatch", lambda: sim.simulate([lw.State([1] + [0] * (m - 1))], [lw.State([2] + [0] * (m - 1))]), Exception),
           ("mixed inputs", lambda: sim.simulate([lw.State([1] + [0] * (m - 1)), lw.State([2] + [0] * (m - 1))]), Exception),
           # the same refusals for an OUTPUT, given inside a list and as a bare State
           ("output too long (list)", lambda: sim.simulate(lw.State([1] + [0] * (m - 1)), [lw.State([1] + [0] * m)]), Exception),
           ("output too long (bare State, empty tail)", lambda: sim.simulate(lw.State([1] + [0] * (m - 1)), lw.State([1] + [0] * m)), Exception),
           ("output too short (bare State)", lambda: sim.simulate(lw.State([1] + [0] * (m - 1)), lw.State([1] + [0] * (m - 2))) if m >= 2 else (_ for _ in ()).throw(ValueError()), Exception),
           ("output with bool occupations (bare State)", lambda: sim.simulate(lw.State([1] + [0] * (m - 1)), lw.State([True] + [False] * (m - 1))), Exception),
           ("output negative (bare State)", lambda: sim.simulate(lw.State([1] + [0] * (m - 1)), lw.State([2, -1] + [0] * (m - 2))) if m >= 2 else (_ for _ in ()).throw(ValueError()), Exception)]
    for what, f, exc in bad:
        try:
            f()
            ok = False
        except Exception as e:  # noqa: BLE001
            ok = isinstance(e, exc) and type(e).__name__ in ("ModeMismatchError", "ValueError", "TypeError", "PhotonNumberError", "IndexError")
        env.check_true(f"{name}.rejects[{label};{what}]", ok, note="invalid input rejected, not computed", model=dict(circuit=label, input=what))


# ----------------------------------------------------------------------------------------------- C04
def spec_distribution(env, circ, U, s_vis):
    """pattern on the circuit's modes -> total probability over all loss configurations"""
    n = circ.n_modes
    nl = n_loss(circ, U)
    full_in = fock.ins(s_vis, circ.heralds["input"], n) + [0] * nl
    tot = sum(full_in)
    dist = {}
    for k in range(tot, -1, -1):
        for o in fock.fock(n, k):
            p = env.const(0)
            for l in fock.fock(nl, tot - k) if nl else ([[]] if tot == k else []):
                p = p + mod2(env, fock.amp(env, U, full_in, o + l))
            dist[tuple(o)] = p
    return dist


def check_sampler(env, label, circ, maxp):
    from lightworks import emulator
    import lightworks as lw
    U = circ.U_full
    name = "lightworks/emulator/simulation/sampler.py:Sampler.probability_distribution#xsym"
    m = circ.input_modes
    for s in states(m, maxp):
        ref = spec_distribution(env, circ, U, s)
        dists = {}
        for backend in ("permanent", "slos"):
            d = emulator.Sampler(circ, lw.State(s), backend=backend).probability_distribution
            dists[backend] = d
            got = {tuple(k.s): v for k, v in d.items()}
            vals = []
            tot = env.const(0)
            nl_ = n_loss(circ, U)
            thr = env.const(Fraction(1, 10 ** 9))
            nterms_all = sum(len(fock.fock(nl_, sum(fock.ins(s, circ.heralds["input"], circ.n_modes)) - sum(o))) if nl_ else 1 for o in ref)
            slack_bad = []

            def within(diff, terms):
                """exact equality, or a deficit explained by the documented per-state truncation (<= 1e-9 per dropped full state)"""
                z = diff.simp().n.is_zero() if env.mode == "exact" else abs(diff) < 1e-12
                if z:
                    return True
                return bool(abs(diff) <= thr * terms)
            for o, p in ref.items():
                terms = len(fock.fock(nl_, sum(fock.ins(s, circ.heralds["input"], circ.n_modes)) - sum(o))) if nl_ else 1
                if sum(o) == 0:
                    terms = nterms_all
                if not within(got.get(o, env.const(0)) - p, terms):
                    slack_bad.append((o, str(complex(got.get(o, env.const(0)) - p))))
            for o, v in got.items():
                tot = tot + v
                if o not in ref:
                    slack_bad.append((o, "extra pattern"))
            if not within(tot - 1, nterms_all):
                slack_bad.append(("sum", str(complex(tot - 1))))
            env.check_true(f"{name}.distribution[{label};in={s};{backend}]", not slack_bad,
                           note="P(pattern) = sum over loss configurations of |amp|^2 (exactly, or up to 1e-9 per truncated full state), vacuum included, total 1",
                           model=dict(circuit=label, input=s, backend=backend, mismatches=slack_bad[:4]))
            env.check_true(f"{name}.nonneg[{label};in={s};{backend}]", all(not (v < 0) for v in got.values()) and
                           all(sum(o) <= sum(s) + sum(circ.heralds["input"].values()) for o in got),
                           note="values >= 0 and no pattern holds more photons than were injected", model=dict(circuit=label, input=s, backend=backend))


def check_pdist_modular(env):
    """pdist_calc against the CONTRACT of Backend.full_probability_distribution (stub returning symbolic values
    that satisfy it: non-negative, total <= 1, vacuum present for a lossy circuit)"""
    import lightworks as lw
    from lightworks.emulator.simulation.probability_distribution import pdist_calc
    from lightworks.emulator.backend import Backend
    from lightworks.sdk.circuit.compiler import CompiledCircuit
    name = "lightworks/emulator/simulation/probability_distribution.py:pdist_calc#xsym"
    a = env.sym("d_vac", 0, 1)
    b = env.sym("d_10", 0, 1)
    c = env.sym("d_01", 0, 1)
    if env.mode == "exact":
        import z3
        env.ctx.constraints.append(a.to_z3() + b.to_z3() + c.to_z3() <= 1)

    class Stub(Backend):
        def full_probability_distribution(self, circuit, input_state):  # noqa: ARG002
            return {lw.State([0, 0]): a, lw.State([1, 0]): b, lw.State([0, 1]): c}
    circ = CompiledCircuit(2)
    circ._loss_modes = 1
    out = pdist_calc(circ, {lw.State([1, 0]): 1}, Stub("permanent"))
    got = {tuple(k.s): v for k, v in out.items()}
    tot = env.const(0)
    for v in got.values():
        tot = tot + v
    env.check_zero(f"{name}.normalised", tot - 1, note="lossy circuit, sub-distribution with total <= 1 (truncation / rounding): the result sums to one")
    env.check_zero(f"{name}.pattern[1,0]", got.get((1, 0), env.const(0)) - b, note="non-vacuum patterns keep their mixture weight")
    env.check_zero(f"{name}.pattern[0,1]", got.get((0, 1), env.const(0)) - c, note="non-vacuum patterns keep their mixture weight")
    env.check_zero(f"{name}.vacuum", got.get((0, 0), env.const(0)) - (1 - b - c),
                   note="vacuum = its own weight plus the missing probability (never less than its own weight)")


# ----------------------------------------------------------------------------------------------- C05
def check_analyzer_quick(env, label, circ, maxp):
    from lightworks import emulator
    import lightworks as lw
    U = circ.U_full
    nl = n_loss(circ, U)
    m = circ.input_modes
    hout = circ.heralds["output"]
    name_a = "lightworks/emulator/simulation/analyzer.py:Analyzer.analyze#xsym"
    name_q = "lightworks/emulator/simulation/quick_sampler.py:QuickSampler.probability_distribution#xsym"
    for k in (range(0, maxp + 1) if m else [0]):       # vacuum input included; a circuit without user-visible modes has exactly one input: the empty state
        ins_ = fock.fock(m, k)
        # post-selection shapes: none, rule "mode 0 holds <=1 photon", predicate
        first = lw.State([1] + [0] * (m - 1)) if m else None
        for ps_label, ps in ((("none", None), ("rule", _rule(m)), ("fn", (lambda s: s[m - 1] == 0)),
                              ("fn-state", (lambda s: isinstance(s, lw.State) and s != first))) if m else (("none", None),)):
            an = emulator.Analyzer(circ)
            if ps is not None:
                an.post_selection = ps
            try:
                res = an.analyze([lw.State(s) for s in ins_])
            except Exception as e:  # noqa: BLE001
                env.check_true(f"{name_a}.runs[{label};n={k};ps={ps_label}]", False, note=f"Analyzer raised {type(e).__name__}: {e}",
                               model=dict(circuit=label, photons=k, ps=ps_label))
                continue
            vals = []
            perf = env.const(0)
            for i, s in enumerate(ins_):
                ref = spec_distribution(env, circ, U, s)
                row = env.const(0)
                for j, o in enumerate(res.outputs):
                    full = tuple(fock.ins(o.s, hout, circ.n_modes))
                    vals.append(((tuple(s), tuple(o.s)), res.array[i, j] - ref.get(full, env.const(0))))
                    row = row + res.array[i, j]
                # every accepted heralded output is listed
                accepted = [o for o in ref if all(o[mm] == hout[mm] for mm in hout)]
                vis = [tuple(x for idx, x in enumerate(o) if idx not in hout) for o in accepted]
                vis = [v for v in vis if _ps_ok(ps, v) and (nl > 0 or sum(v) == k)]
                listed = {tuple(o.s) for o in res.outputs}
                for v in vis:
                    if v not in listed:
                        vals.append(((tuple(s), v, "missing"), ref[tuple(fock.ins(list(v), hout, circ.n_modes))]))
                perf = perf + row
            vals.append((("performance",), res.performance - perf / len(ins_)))
            # error rate: one minus the accepted-and-expected fraction, expectation dict given in a different order than the inputs
            if ps is None:
                outs_l = [o.s for o in res.outputs]

                def _zero(v):
                    return v.simp().n.is_zero() if env.mode == "exact" else abs(v) < 1e-14
                rows = []
                for i in range(len(ins_)):
                    row = env.const(0)
                    for j in range(len(outs_l)):
                        row = row + res.array[i, j]
                    rows.append(row)
                keep = [i for i in range(len(ins_)) if not _zero(rows[i])]     # inputs that are accepted with non-zero probability
                if len(keep) >= 2:
                    exp = {}
                    for i in reversed(keep):
                        e_ = lw.State(outs_l[(2 * i + 1) % len(outs_l)])
                        exp[lw.State(ins_[i])] = e_ if i % 2 else [e_, lw.State(list(e_.s))]      # a list naming the same expected output twice counts it once
                    an2 = emulator.Analyzer(circ)
                    res2 = an2.analyze([lw.State(ins_[i]) for i in keep], expected=exp)
                    tot_err = env.const(0)
                    for r_, i in enumerate(keep):
                        tot_err = tot_err + (1 - res2.array[r_, (2 * i + 1) % len(outs_l)] / rows[i])
                    # the code under test returns float(np.mean(errors)): compared to 1e-12, not exactly
                    diff = complex(res2.error_rate - tot_err / len(keep))
                    env.check_true(f"{name_a}.error_rate[{label};n={k}]", abs(diff) < 1e-12,
                                   note="error rate = 1 - mean accepted-and-expected fraction (expectation dict in a different order than the inputs)",
                                   model=dict(circuit=label, photons=k, got=float(res2.error_rate), expected=str(complex(tot_err / len(keep)))))
            env.check_all_zero(f"{name_a}.probabilities[{label};n={k};ps={ps_label}]", vals,
                               note="analyzer probability = sampler probability of the heralded output; performance = mean accepted total")
        # quick sampler: conditioned on heralds, no loss of photons, renormalised
        if nl == 0 or True:
            for s in ins_:
                for pnr, (psl, psq) in itertools.product((True, False), ((("none", None), ("rule-last", _rule_last(m)), ("fn", (lambda st: st[0] <= 1)),
                                                                                         # predicates written for State objects, as documented: comparison with States, slicing to a State
                                                                                         ("fn-state", (lambda st: st not in [lw.State([1] + [0] * (m - 1)), lw.State([0] * (m - 1) + [2])])),
                                                                                         ("fn-state-slice", (lambda st: st[:1].n_photons <= 1))) if m else (("none", None),))):
                    ref = spec_distribution(env, circ, U, s)
                    tot_in = sum(s) + sum(circ.heralds["input"].values())
                    cond = {}
                    for o, p in ref.items():
                        if sum(o) != tot_in or not all(o[mm] == hout[mm] for mm in hout):
                            continue
                        v = tuple(x for idx, x in enumerate(o) if idx not in hout)
                        if not pnr and max(v, default=0) > 1:
                            continue
                        if not _ps_ok(psq, v):
                            continue
                        cond[v] = p
                    z = env.const(0)
                    for p in cond.values():
                        z = z + p
                    try:
                        qs = emulator.QuickSampler(circ, lw.State(s), photon_counting=pnr, **({} if psq is None else {"post_select": psq}))
                        d = qs.probability_distribution
                    except Exception as e:  # noqa: BLE001
                        # an empty conditional distribution may legitimately be refused
                        zero = z.simp().n.is_zero() if env.mode == "exact" else abs(z) < 1e-12
                        env.check_true(f"{name_q}.runs[{label};in={s};pnr={pnr};ps={psl}]", zero, note=f"QuickSampler raised {type(e).__name__}: {e}",
                                       model=dict(circuit=label, input=s, pnr=pnr))
                        continue
                    got = {tuple(kk.s): v for kk, v in d.items()}
                    vals = []
                    for v, p in cond.items():
                        vals.append(((tuple(s), v, pnr), got.get(v, env.const(0)) * z - p))
                    for v in got:
                        if v not in cond:
                            vals.append(((tuple(s), v, pnr, "extra"), got[v]))
                    env.check_all_zero(f"{name_q}.conditional[{label};in={s};pnr={pnr};ps={psl}]", vals,
                                       note="quick sampler = sampler distribution conditioned on heralds, no lost photon (and <=1 photon per mode for threshold detection), renormalised")


def _rule(m):
    import lightworks as lw
    ps = lw.PostSelection()
    ps.add(0, (0, 1))
    return ps


def _rule_last(m):
    import lightworks as lw
    ps = lw.PostSelection()
    ps.add(m - 1, (0, 1))
    return ps


def _ps_ok(ps, v):
    if ps is None:
        return True
    if callable(ps) and not hasattr(ps, "validate"):
        import lightworks as lw
        return bool(ps(lw.State(list(v))))        # predicates receive State objects, as documented
    return ps.validate(list(v))


# ----------------------------------------------------------------------------------------------- units
def _run(mode, which, tier, label_filter=None):
    env = Env(mode)
    maxp = 2 if tier == "quick" else 3
    if which == "pdist":
        check_pdist_modular(env)
        return env.obligations
    for label, circ in circuits(env, tier):
        if label_filter and label != label_filter:
            continue
        if which == "simulator":
            check_simulator(env, label, circ, maxp)
        elif which == "sampler":
            check_sampler(env, label, circ, maxp)
        elif which == "analyzer":
            check_analyzer_quick(env, label, circ, min(maxp, 2))
    return env.obligations


def circuit_labels(tier):
    base = ["U2", "U3", "U3+h(1,0,2)", "U3+h(0,1,1)", "U3[late-herald]", "U4+h(0,0,0)+h(1,3,1)", "U4+h(1,0,2)+h(1,3,1)", "U2+h(0,0,0)+h(1,1,1)", "lossy3", "lossy2", "lossy3+h(1,2,0)", "anc(1)", "tiny"]
    return base + (["two-ancillas+loss", "U4"] if tier == "thorough" else [])


def unit(mode="exact", tier="quick", seed=0, which="simulator", label=None):
    from collections import OrderedDict
    agg = OrderedDict()
    if mode == "exact":
        from vf.xlift import hook
        for path, log, res in hook.run_paths(lambda: _run(mode, which, tier, label)):
            obs = res[1] if res[0] == "ok" else [dict(name=f"vf/tasks/t_fock.py:{which}#xsym.runs[{label}]", kind="xsym", result="refuted", backend="xlift", ms=0,
                                                      note=f"raised {type(res[1]).__name__}: {res[1]}", model=dict(circuit=label))]
            _merge(agg, obs)
    else:
        _merge(agg, _run(mode, which, tier, label))
    obligations = list(agg.values())
    for o in obligations:
        if o["result"] in ("refuted", "bounded-fail"):
            o["replay_spec"] = dict(module="vf.tasks.t_fock", func="replay", args=[which, label, o["name"]])
    return dict(status="ok", obligations=obligations, summary=f"{which}[{label or 'all'}]: {sum(o.get('cases', 1) for o in obligations)} identities/groups")


def _merge(agg, obs):
    for o in obs:
        clause = o["name"].split("[")[0]
        case = o["name"][len(clause):]
        if "pdist_calc" in clause:
            prev = agg.get(o["name"])
            if prev is None or (prev["result"] == "proved" and o["result"] != "proved"):
                agg[o["name"]] = o          # one obligation per clause; the worst verdict over all symbolic paths is kept
            continue
        a = agg.get(clause)
        if a is None:
            a = agg[clause] = dict(name=clause, kind="bnd", result="bounded-pass", backend=o["backend"], ms=0.0, cases=0, note=o.get("note"), sample=case)
        a["cases"] += 1
        a["ms"] += o.get("ms", 0)
        if o["result"] != "proved":
            if a["result"] == "bounded-pass":
                a["result"] = "bounded-fail" if o["result"] == "refuted" else "unknown"
                a["model"] = dict(case=case, detail=o.get("model"), note=o.get("note"))
            a.setdefault("failing_cases", []).append(case)


def replay(which, label, name):
    """native float replay on the unmodified package"""
    if which == "pdist":
        return replay_pdist()
    obs = _run("native", which, "quick", label)
    clause = name.split("[")[0]
    bad = [o for o in obs if o["result"] == "refuted" and o["name"].startswith(clause)]
    if bad:
        return "; ".join(f"{o['name']}: {o.get('model')} {o.get('note', '')}" for o in bad[:2])
    return None


def replay_pdist():
    """F1-style witness: a lossy circuit whose slos distribution does not sum to one"""
    import numpy as np
    import lightworks as lw
    from lightworks import emulator
    rng = np.random.default_rng(1)
    for trial in range(60):
        n = 3
        c = lw.Circuit(n)
        for k in range(4):
            c.bs(int(rng.integers(0, n - 1)), reflectivity=float(rng.uniform(0.2, 0.8)), loss=float(rng.uniform(0.1, 0.6)))
            c.ps(int(rng.integers(0, n)), float(rng.uniform(0, 6)))
        d = emulator.Sampler(c, lw.State([1, 1, 0]), backend="slos").probability_distribution
        tot = sum(d.values())
        if abs(tot - 1) > 1e-6:
            return f"lossy circuit (trial {trial}, rng seed 1): slos distribution sums to {tot:.6f}"
    return None


# ----------------------------------------------------------------------------------------------- machine integers (native)
def unit_bigint(tier="quick", seed=0):
    """Occupation factorials beyond 64 bits (13! * 13! and 21! exceed 2**64): the exact-arithmetic runs above cannot see how numpy
    treats such Python integers, so the same clauses are checked natively on one-mode circuits where the answer is known in closed
    form: amplitude of |k> -> |k> through a phase shifter phi is exp(i k phi); the distribution is {|k>: 1} on both backends."""
    import cmath
    import lightworks as lw
    from lightworks import emulator
    fails, n = [], 0
    phi = 0.1
    for k in (12, 13, 20, 21):
        c = lw.Circuit(1)
        c.ps(0, phi)
        n += 1
        try:
            a = emulator.Simulator(c).simulate(lw.State([k]), lw.State([k])).array[0, 0]
            if abs(a - cmath.exp(1j * k * phi)) > 1e-9:
                fails.append((dict(photons=k, what="simulator"), f"amplitude {a}, expected exp(i*{k}*{phi})"))
        except Exception as e:  # noqa: BLE001
            fails.append((dict(photons=k, what="simulator"), f"Simulator raised {type(e).__name__}: {e}"))
        for be in ("permanent", "slos"):
            n += 1
            try:
                d = {tuple(s.s): p for s, p in emulator.Sampler(c, lw.State([k]), backend=be).probability_distribution.items()}
                if set(d) != {(k,)} or abs(d[(k,)] - 1) > 1e-6:
                    fails.append((dict(photons=k, backend=be), f"distribution {d}, expected {{|{k}>: 1}}"))
            except Exception as e:  # noqa: BLE001
                fails.append((dict(photons=k, backend=be), f"Sampler[{be}] raised {type(e).__name__}: {str(e)[:150]}"))
    # two bunched modes whose factorials fit 64 bits one by one but not as a product (13! * 13!): the slos distribution is still normalised
    c = lw.Circuit(2)
    c.bs(0)
    n += 1
    try:
        tot = sum(emulator.Sampler(c, lw.State([13, 13]), backend="slos").probability_distribution.values())
        if abs(tot - 1) > 1e-6:
            fails.append((dict(input=[13, 13], backend="slos"), f"distribution sums to {tot}"))
    except Exception as e:  # noqa: BLE001
        fails.append((dict(input=[13, 13], backend="slos"), f"Sampler[slos] raised {type(e).__name__}: {str(e)[:150]}"))
    o = dict(name="lightworks/emulator/backend:factorial-normalisation#bnd.large-occupations", kind="bnd", cases=n, result="bounded-fail" if fails else "bounded-pass",
             backend="native floats", ms=0, note="one-mode circuits with 12, 13, 20, 21 photons: amplitude exp(i k phi), distribution {|k>: 1} on both backends (factorials beyond 64 bits)")
    if fails:
        o["failing_cases"] = [str(f[0]) for f in fails]
        o["model"] = dict(case=fails[0][0], observed=fails[0][1], n_failing=len(fails))
        o["replayed"] = f"{len(fails)} of {n} cases fail; first {fails[0][0]}: {fails[0][1]}"
    return dict(status="ok", obligations=[o], summary=f"large occupations: {n} cases")


def unit_typed_states(tier="quick", seed=0):
    """C03, native: states given through other containers / number types (numpy arrays, tuples, numpy scalars, floats).  A state whose occupations are
    not non-negative integers is refused (at construction or by simulate) - never rounded, truncated or clipped into another state and computed;
    an integral-valued variant is either refused or gives exactly the amplitudes of the plain list state."""
    import numpy as np
    import lightworks as lw
    from lightworks import emulator
    fails, n = [], 0
    c = lw.Circuit(3)
    c.bs(0, reflectivity=0.3)
    c.bs(1, reflectivity=0.6)
    c.ps(0, 0.4)
    sim = emulator.Simulator(c)
    outs = [lw.State(list(o)) for o in fock.fock(3, 1) + fock.fock(3, 2)]

    def run(make_in, make_out=None):
        ins = make_in()
        return sim.simulate(ins, [make_out()] if make_out else None)
    invalid = [("numpy array 1.5,0.5,0", lambda: lw.State(np.array([1.5, 0.5, 0]))), ("numpy array 0.9,0,0", lambda: lw.State(np.array([0.9, 0, 0]))),
               ("numpy array 1,-0.5,0", lambda: lw.State(np.array([1.0, -0.5, 0]))), ("numpy array 1,-1,0", lambda: lw.State(np.array([1, -1, 0]))),
               ("list 1.5,0,0", lambda: lw.State([1.5, 0, 0])), ("tuple 0.5,0.5,1", lambda: lw.State((0.5, 0.5, 1))),
               ("numpy float32 0.5", lambda: lw.State([np.float32(0.5), 0, 1])), ("complex", lambda: lw.State([1 + 0.5j, 0, 0])),
               ("numpy array 2.9999,0,0", lambda: lw.State(np.array([2.9999, 0, 0])))]
    for what, mk in invalid:
        for as_output in (False, True):
            n += 1
            try:
                if as_output:
                    r = sim.simulate(lw.State([1, 0, 0]), mk())
                else:
                    r = sim.simulate(mk())
                fails.append((dict(state=what, used_as="output" if as_output else "input"),
                              f"a state with non-integer / negative occupations was computed (result over inputs {[str(i) for i in r.inputs]}, outputs {[str(o) for o in r.outputs][:3]}...)"))
            except Exception:  # noqa: BLE001
                pass
    integral = [("numpy int array", lambda: lw.State(np.array([1, 0, 1])), [1, 0, 1]), ("tuple", lambda: lw.State((0, 2, 0)), [0, 2, 0]),
                ("numpy int64 entries", lambda: lw.State([np.int64(1), np.int64(1), 0]), [1, 1, 0]), ("numpy float array 1.,0.,1.", lambda: lw.State(np.array([1.0, 0.0, 1.0])), [1, 0, 1])]
    for what, mk, plain in integral:
        n += 1
        try:
            got = sim.simulate(mk(), outs if sum(plain) == 2 else None)
        except Exception:  # noqa: BLE001
            continue            # refused: allowed
        want = sim.simulate(lw.State(plain), outs if sum(plain) == 2 else None)
        if [tuple(o.s) for o in got.outputs] != [tuple(o.s) for o in want.outputs] or np.abs(np.array(got.array) - np.array(want.array)).max() > 1e-12:
            fails.append((dict(state=what), f"accepted, but the amplitudes differ from those of State({plain})"))
    o = dict(name="lightworks/emulator/simulation/simulator.py:Simulator.simulate#bnd.typed-states", kind="bnd", cases=n, result="bounded-fail" if fails else "bounded-pass",
             backend="native floats", ms=0, note="states built from numpy arrays / tuples / numpy scalars / floats: invalid occupations are refused (never truncated and computed), integral ones refused or computed as the list state")
    if fails:
        o["failing_cases"] = [str(f[0]) for f in fails]
        o["model"] = dict(case=fails[0][0], observed=fails[0][1], n_failing=len(fails))
        o["replayed"] = f"{len(fails)} of {n} cases fail; first {fails[0][0]}: {fails[0][1]}"
    return dict(status="ok", obligations=[o], summary=f"typed states: {n} cases")


def unit_backend_names(tier="quick", seed=0):
    """C04, native: every way of naming a backend ('permanent' / 'slos' in any letter case, with stray blanks, as a Backend object, through the constructor or the
    setter) is either refused or gives the distribution of the lower-case name - never something else (e.g. an empty calculation booked to the vacuum)."""
    import lightworks as lw
    from lightworks import emulator
    fails, n = [], 0
    c = lw.Circuit(3)
    c.bs(0, reflectivity=0.3)
    c.bs(1, reflectivity=0.6)
    c.loss(2, 0.25)
    inp = lw.State([1, 1, 0])
    ref = {tuple(k.s): v for k, v in emulator.Sampler(c, inp, backend="permanent").probability_distribution.items()}
    names = ["permanent", "slos", "SLOS", "Slos", "Permanent", "PERMANENT", " slos", "slos ", "sLoS", "clifford", "", None, 0]
    for nm in names:
        for how in ("constructor", "setter", "Backend object"):
            n += 1
            try:
                if how == "constructor":
                    s = emulator.Sampler(c, inp, backend=nm)
                elif how == "setter":
                    s = emulator.Sampler(c, inp)
                    s.backend = nm
                else:
                    from lightworks.emulator.backend import Backend
                    s = emulator.Sampler(c, inp, backend=Backend(nm))
                got = {tuple(k.s): v for k, v in s.probability_distribution.items()}
            except Exception:  # noqa: BLE001
                continue            # refused
            if nm is None and how != "Backend object":
                pass                # None selects the default backend
            if set(got) != set(ref) or any(abs(got[k] - ref[k]) > 1e-9 for k in ref):
                fails.append((dict(backend=repr(nm), via=how), f"accepted, but the distribution differs from the reference backend's ({len(got)} outcomes, vacuum {got.get((0, 0, 0))}; expected {len(ref)} outcomes)"))
    o = dict(name="lightworks/emulator/backend/backend.py:Backend#bnd.backend-names", kind="bnd", cases=n, result="bounded-fail" if fails else "bounded-pass",
             backend="native floats", ms=0, note="backend named in any letter case / with blanks / as object, via constructor or setter: refused, or the distribution of the canonical backend")
    if fails:
        o["failing_cases"] = [str(f[0]) for f in fails]
        o["model"] = dict(case=fails[0][0], observed=fails[0][1], n_failing=len(fails))
        o["replayed"] = f"{len(fails)} of {n} cases fail; first {fails[0][0]}: {fails[0][1]}"
    return dict(status="ok", obligations=[o], summary=f"backend names: {n} cases")
