"""C12 bounded stand-in: converted circuit + returned post-selection rules reproduce the qiskit unitary.

For each small qiskit program the REAL converter runs; accepted amplitudes are computed with the spec formula
(permanent of the photon-indexed sub-matrix of the circuit's U_full, heralds inserted) and compared with
qiskit.quantum_info.Operator (qiskit ordering): one common non-zero scalar, and zero amplitude on accepted
outputs outside the computational subspace.  A ValueError from the converter counts as a refusal (allowed).
"""
from __future__ import annotations

import itertools
import json

import numpy as np


def amp_matrix(circ, n_qubits, ps):
    from thewalrus import perm
    from vf.spec import fock
    U = circ.U_full
    h = circ.heralds
    n = circ.n_modes
    basis = list(itertools.product([0, 1], repeat=n_qubits))
    outs = fock.fock(2 * n_qubits, n_qubits)
    M = np.zeros((len(outs), len(basis)), dtype=complex)
    for bi, bits in enumerate(basis):
        full_in = fock.ins(fock.dual_rail(bits), h["input"], n)
        cols = [i for i, k in enumerate(full_in) for _ in range(k)]
        for oi, vis in enumerate(outs):
            full_out = fock.ins(vis, h["output"], n)
            rows = [i for i, k in enumerate(full_out) for _ in range(k)]
            if len(rows) != len(cols):
                continue
            f = 1.0
            for k in full_in + full_out:
                f *= float(np.math.factorial(k)) if hasattr(np, "math") else float(__import__("math").factorial(k))
            M[oi, bi] = perm(U[np.ix_(rows, cols)]) / np.sqrt(f)
    accepted = [ps is None or ps.validate(o) for o in outs]
    return basis, outs, M, accepted


def check_program(prog, n_qubits, allow_ps):
    """prog: list of (name, qubits, params) -> None | str"""
    from qiskit import QuantumCircuit
    from qiskit.quantum_info import Operator
    from lightworks.qubit import qiskit_converter
    from vf.spec import fock
    if isinstance(n_qubits, (list, tuple)):
        # several quantum registers: the gates are addressed by the position of the qubit in the circuit, as everywhere in qiskit
        from qiskit import QuantumRegister
        qc = QuantumCircuit(*[QuantumRegister(k, f"r{j}") for j, k in enumerate(n_qubits)])
        n_qubits = sum(n_qubits)
    else:
        qc = QuantumCircuit(n_qubits)
    for name, qs, params in prog:
        getattr(qc, name)(*params, *qs)
    from vf.pyvc.rtc import _time_limit, _Timeout
    try:
        with _time_limit(20.0):
            circ, ps = qiskit_converter(qc, allow_post_selection=allow_ps)
    except _Timeout:
        return "the conversion did not finish within 20 s", "error"
    except ValueError as e:
        return None, "refused"
    Uq = Operator(qc).data      # qiskit ordering: qubit 0 is the least significant bit
    basis, outs, M, accepted = amp_matrix(circ, n_qubits, ps)
    idx = lambda bits: sum(b << q for q, b in enumerate(bits))  # noqa: E731
    dual = {tuple(fock.dual_rail(b)): b for b in basis}
    s = None
    worst = 0.0
    # scalar from the largest reference entry
    best = None
    for oi, vis in enumerate(outs):
        if tuple(vis) in dual and accepted[oi]:
            bo = dual[tuple(vis)]
            for bi, bits in enumerate(basis):
                ref = Uq[idx(bo), idx(bits)]
                if best is None or abs(ref) > best[0]:
                    best = (abs(ref), M[oi, bi] / ref if abs(ref) > 1e-9 else None)
    if best is None or best[1] is None or abs(best[1]) < 1e-9:
        return f"no accepted computational output carries amplitude (scalar {None if best is None else best[1]})", "converted"
    s = best[1]
    for oi, vis in enumerate(outs):
        if not accepted[oi]:
            continue
        for bi, bits in enumerate(basis):
            if tuple(vis) in dual:
                want = s * Uq[idx(dual[tuple(vis)]), idx(bits)]
            else:
                want = 0
            if abs(M[oi, bi] - want) > 1e-7:
                return (f"input |{''.join(map(str, bits))}> -> accepted output {vis}: amplitude {M[oi, bi]:.5f}, expected "
                        f"{'scalar x U entry ' + format(want, '.5f') if tuple(vis) in dual else '0 (outside the qubit subspace)'} (scalar {s:.5f})"), "converted"
    # a dual-rail output rejected by the rules would lose part of the unitary
    for oi, vis in enumerate(outs):
        if tuple(vis) in dual and not accepted[oi]:
            return f"computational output {vis} is rejected by the returned post-selection rules", "converted"
    return None, "converted"


SINGLE = [("h", ()), ("t", ()), ("rx", (0.37,)), ("sx", ()), ("ry", (1.1,)), ("p", (0.9,))]


def programs(tier):
    progs = []
    n = 3
    two = [("cx", (a, b)) for a in range(n) for b in range(n) if a != b] + [("cz", (a, b)) for a in range(n) for b in range(a + 1, n)] + \
          [("swap", (a, b)) for a in range(n) for b in range(a + 1, n)]
    three = [("ccx", p) for p in itertools.permutations(range(3))] + [("ccz", (0, 1, 2))]

    def layer(k):
        return [(SINGLE[(k + q) % len(SINGLE)][0], (q,), SINGLE[(k + q) % len(SINGLE)][1]) for q in range(n)]
    for g in two + three:
        progs.append((n, layer(0) + [(g[0], g[1], ())] + layer(1)))
    seqs = list(itertools.product(two + three, repeat=2))
    if tier == "quick":
        seqs = seqs[::3]
    for g1, g2 in seqs:
        progs.append((n, layer(0) + [(g1[0], g1[1], ())] + layer(2) + [(g2[0], g2[1], ())] + layer(1)))
    # distance-3 gates on 4 qubits
    for g in [("cx", (0, 3)), ("cx", (3, 0)), ("cz", (0, 3)), ("cx", (1, 3)), ("cz", (3, 1))]:
        progs.append((4, [("h", (0,), ()), ("t", (3,), ()), ("rx", (1,), (0.4,)), (g[0], g[1], ()), ("ry", (g[1][0],), (0.7,))]))
    # explicit swaps between entangling gates (qubits are routed through the swap)
    sw = [("swap", (a, b)) for a in range(n) for b in range(a + 1, n)]
    for g1 in [("cx", (0, 1)), ("cz", (1, 2)), ("cx", (2, 1)), ("cx", (0, 2))]:
        for s_ in sw:
            for g2 in [("cx", (0, 2)), ("cx", (1, 0)), ("cz", (0, 1)), ("cx", (1, 2))]:
                progs.append((n, layer(0) + [(g1[0], g1[1], ())] + [(s_[0], s_[1], ())] + layer(2) + [(g2[0], g2[1], ())] + layer(1)))
    # three-qubit gates on 4 / 5 qubits, adjacent and non-adjacent triples, every control / target order: refused, or converted correctly
    for nq, trip in ((4, (0, 1, 2)), (4, (1, 2, 3)), (4, (0, 2, 3)), (4, (0, 1, 3)), (5, (0, 2, 4)), (5, (1, 3, 4)), (5, (0, 3, 4)), (5, (2, 3, 4))):
        for perm_ in (list(itertools.permutations(trip))[::2] if nq == 4 else [trip, trip[::-1]]):
            for g in ("ccx", "ccz"):
                if g == "ccz" and perm_ != tuple(sorted(perm_)):
                    continue
                progs.append((nq, [("h", (perm_[0],), ()), ("ry", (perm_[1],), (0.7,)), ("t", (perm_[2],), ()), (g, tuple(perm_), ()), ("rx", (perm_[2],), (0.4,))]))
    # circuits made of several quantum registers (qubit positions in the circuit differ from positions in their register)
    for regs in ([2, 1], [1, 2], [1, 1, 1]):
        for q in range(3):
            progs.append((regs, [("x", (q,), ()), ("h", ((q + 1) % 3,), ())]))
        for g in [("cx", (0, 2)), ("cx", (2, 1)), ("cz", (1, 2)), ("cx", (0, 1)), ("swap", (0, 2))]:
            progs.append((regs, layer(0) + [(g[0], g[1], ())] + layer(1)))
    # three entangling gates on adjacent pairs in every order and orientation: with post-selection allowed the converter mixes post-selected and
    # heralded versions of the same gate within one circuit (which version each occurrence needs depends on the gates after it)
    adj = [("cx", (0, 1)), ("cx", (1, 0)), ("cx", (1, 2)), ("cx", (2, 1)), ("cz", (0, 1)), ("cz", (1, 2))]
    for k, (g1, g2, g3) in enumerate(itertools.product(adj, repeat=3)):
        body = [(g1[0], g1[1], ())] + [(g2[0], g2[1], ())] + ([("h", (1,), ())] if k % 2 else layer(2)) + [(g3[0], g3[1], ())]
        progs.append((n, layer(0) + body + layer(1), (True,) if (tier == "quick" and k % 9) else (False, True)))
    # explicit swaps that carry the post-selected qubits somewhere else (4 qubits: two qubits moved): the returned rules must sit where the outputs end up
    for body in ([("cx", (0, 1)), ("swap", (0, 2)), ("swap", (1, 3))], [("swap", (0, 2)), ("swap", (1, 3)), ("cx", (0, 1))], [("cz", (1, 2)), ("swap", (0, 1)), ("swap", (2, 3))],
                 [("cx", (2, 3)), ("swap", (0, 3)), ("swap", (1, 2))], [("swap", (0, 3)), ("cx", (1, 2)), ("swap", (1, 3)), ("swap", (0, 2))], [("cx", (1, 0)), ("swap", (1, 3)), ("swap", (0, 2)), ("h", (3,))]):
        progs.append((4, [("h", (0,), ()), ("ry", (2,), (0.7,))] + [(g, q, ()) for g, q in body] + [("t", (1,), ())], (True,) if tier == "quick" else (False, True)))
    # the same entangling gate two and three times in a row, nothing in between (a pair is the identity for these self-inverse gates, three are the gate)
    for g in two + three:
        for reps in (2, 3):
            progs.append((n, layer(0) + [(g[0], g[1], ())] * reps + layer(1)))
    if tier == "thorough":
        for g1, g2, g3 in itertools.islice(itertools.product(two, two + three, two), 0, None, 37):
            progs.append((n, layer(0) + [(g1[0], g1[1], ())] + layer(2) + [(g2[0], g2[1], ())] + [(g3[0], g3[1], ())] + layer(1)))
    return progs


def plabel(n, prog, allow_ps):
    return json.dumps([n, [[g, list(q), list(p)] for g, q, p in prog], allow_ps], separators=(",", ":"))


def unit(tier="quick", seed=0, shard=0, nshards=1):
    n = 0
    fails, refused = [], 0
    sample = None
    for k, entry in enumerate(programs(tier)):
        nq, prog = entry[0], entry[1]
        if k % nshards != shard:
            continue
        for allow_ps in (entry[2] if len(entry) > 2 else (False, True)):
            n += 1
            label = plabel(nq, prog, allow_ps)
            sample = sample or label
            try:
                msg, status = check_program(prog, nq, allow_ps)
            except Exception as e:  # noqa: BLE001
                msg, status = f"raised {type(e).__name__}: {e}", "error"
            if status == "refused":
                refused += 1
            if msg:
                fails.append((label, msg))
    o = dict(name="lightworks/qubit/converter/qiskit_convert.py:QiskitConverter.convert#bnd.unitary", kind="bnd", cases=n,
             result="bounded-fail" if fails else "bounded-pass", backend="native enumeration (floats, atol 1e-7; oracle qiskit Operator)", ms=0, sample=sample,
             note="accepted amplitudes = one non-zero scalar x qiskit unitary column, nothing accepted outside the qubit subspace; or the converter refuses")
    if fails:
        o["failing_cases"] = [f[0] for f in fails]
        o["model"] = dict(case=fails[0][0], observed=fails[0][1], n_failing=len(fails))
        o["replayed"] = f"{len(fails)} of {n} programs fail; first: {fails[0][0]} -> {fails[0][1]}"
        o["replay_spec"] = dict(module="vf.tasks.t_qiskit", func="replay", args=[fails[0][0]])
    return dict(status="ok", obligations=[o], summary=f"shard {shard}/{nshards}: {n} conversions, {refused} refused")


def replay(label):
    nq, prog, allow_ps = json.loads(label)
    msg, status = check_program([(g, tuple(q), tuple(p)) for g, q, p in prog], nq, allow_ps)
    return f"{label}: {msg}" if msg else None


if __name__ == "__main__":
    import sys
    r = unit(sys.argv[1] if len(sys.argv) > 1 else "quick", shard=int(sys.argv[2]) if len(sys.argv) > 2 else 0, nshards=int(sys.argv[3]) if len(sys.argv) > 3 else 1)
    print(r["summary"])
    for o in r["obligations"]:
        print(o["result"], o.get("replayed", "")[:600])
        for c in o.get("failing_cases", [])[:40]:
            print("  ", c)
