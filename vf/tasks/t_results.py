"""C17: result containers - the REAL SimulationResult / SamplingResult run (xlift) on contents whose every value is a distinct
real symbol, so each obligation holds for ALL values of the weights (complete over values; the discrete shape - which states
appear - is enumerated up to a bound).
"""
from __future__ import annotations

import itertools
from fractions import Fraction

from vf.xlift.env import Env


def thr(s, invert):
    t = [1 if x >= 1 else 0 for x in s]
    return tuple(1 - x for x in t) if invert else tuple(t)


def par(s, invert):
    return tuple(1 - (x % 2) for x in s) if invert else tuple(x % 2 for x in s)


POOL2 = [(0, 0), (1, 0), (0, 1), (2, 0), (1, 1), (0, 2), (3, 0), (2, 1), (0, 3)]


def shapes(tier):
    """(inputs, outputs) shapes: output sets with coinciding images, singletons, empty-ish rows"""
    outs = []
    for k in (1, 2, 3, 4):
        for comb in itertools.combinations(POOL2, k):
            outs.append(list(comb))
    if tier == "quick":
        outs = outs[::5]
    ins = [[(1, 0)], [(1, 0), (0, 1)], [(2, 0), (1, 1), (0, 2)]]
    for o in outs:
        for i in ins[:2] if len(o) > 2 else ins:
            yield i, o


def check_simulation_result(env, ins, outs, label):
    import numpy as np
    import lightworks as lw
    from lightworks.emulator.results import SimulationResult
    name = "lightworks/emulator/results/simulation_result.py:SimulationResult#xsym"
    A = np.empty((len(ins), len(outs)), dtype=object)
    for i in range(len(ins)):
        for j in range(len(outs)):
            A[i, j] = env.sym(f"w{i}_{j}")
    I = [lw.State(list(s)) for s in ins]
    O = [lw.State(list(s)) for s in outs]
    r = SimulationResult(A, "probability", inputs=I, outputs=O)
    vals = []
    for i, si in enumerate(I):
        for j, so in enumerate(O):
            vals.append((("pair", i, j), r[si, so] - A[i, j]))
            vals.append((("nested", i, j), r[si][so] - A[i, j]))
            vals.append((("array", i, j), r.array[i, j] - A[i, j]))
    env.check_all_zero(f"{name}.indexing[{label}]", vals, note="pair indexing = nested indexing = array entry, in the order of the input and output lists")
    env.check_true(f"{name}.lists[{label}]", [s.s for s in r.inputs] == [list(s) for s in ins] and [s.s for s in r.outputs] == [list(s) for s in outs],
                   note="inputs / outputs lists are the ones given", model=dict(shape=label))
    for mapname, f in (("threshold", thr), ("parity", par)):
        for invert in (False, True):
            m = getattr(r, f"apply_{mapname}_mapping")(invert=invert)
            _check_mapped(env, name, label, mapname, invert, f, ins, outs, A, m)
            # repeated application: threshold is idempotent; parity o parity = parity (non-inverted)
            m2 = getattr(m, f"apply_{mapname}_mapping")(invert=False)
            if not invert:
                g = {tuple(o.s): [m[si, o] for si in m.inputs] for o in m.outputs}
                g2 = {tuple(o.s): [m2[si, o] for si in m2.inputs] for o in m2.outputs}
                vals = []
                for o in set(g) | set(g2):
                    for i in range(len(ins)):
                        vals.append(((mapname, "twice", o, i), g.get(o, [env.const(0)] * len(ins))[i] - g2.get(o, [env.const(0)] * len(ins))[i]))
                env.check_all_zero(f"{name}.{mapname}-idempotent[{label}]", vals, note="applying the mapping again changes nothing")
    # exact zeros: a column (then a single entry) that is zero for every input still has its image listed, with weight 0
    for zlabel, zero in (("zero-column", lambda i, j: j == 0), ("zero-last-column", lambda i, j: j == len(outs) - 1), ("zero-entry", lambda i, j: (i, j) == (0, 0))):
        A0 = np.empty((len(ins), len(outs)), dtype=object)
        for i in range(len(ins)):
            for j in range(len(outs)):
                A0[i, j] = env.const(0) if zero(i, j) else env.const(Fraction(7 * i + j + 1, 13))     # concrete weights: no symbolic branching here
        r0 = SimulationResult(A0, "probability", inputs=I, outputs=O)
        for mapname, f in (("threshold", thr), ("parity", par)):
            for invert in (False, True):
                m = getattr(r0, f"apply_{mapname}_mapping")(invert=invert)
                _check_mapped(env, name, f"{label};{zlabel}", mapname, invert, f, ins, outs, A0, m)
    amp = SimulationResult(A, "probability_amplitude", inputs=I, outputs=O)
    for mapname in ("threshold", "parity"):
        try:
            getattr(amp, f"apply_{mapname}_mapping")()
            ok = False
        except ValueError:
            ok = True
        env.check_true(f"{name}.{mapname}-refused-for-amplitudes[{label}]", ok, note="mappings are refused for amplitude-valued results", model=dict(shape=label))


def _check_mapped(env, name, label, mapname, invert, f, ins, outs, A, m):
    import lightworks as lw
    images = {}
    for j, o in enumerate(outs):
        images.setdefault(f(o, invert), []).append(j)
    got_outs = [tuple(o.s) for o in m.outputs]
    env.check_true(f"{name}.{mapname}-outputs[{label};invert={invert}]", sorted(got_outs) == sorted(images) and len(set(got_outs)) == len(got_outs)
                   and [s.s for s in m.inputs] == [list(s) for s in ins],
                   note="outputs = the set of images (each once); inputs unchanged", model=dict(shape=label, got=got_outs, expected=sorted(images)))
    vals = []
    for i, si in enumerate(m.inputs):
        row_new = env.const(0)
        for jj, t in enumerate(m.outputs):
            want = env.const(0)
            for j in images.get(tuple(t.s), []):
                want = want + A[i, j]
            vals.append(((mapname, invert, i, tuple(t.s)), m[si, t] - want))
            vals.append(((mapname, invert, i, tuple(t.s), "array"), m.array[i, jj] - want))
            row_new = row_new + m.array[i, jj]
        row_old = env.const(0)
        for j in range(len(outs)):
            row_old = row_old + A[i, j]
        vals.append(((mapname, invert, i, "total"), row_new - row_old))
    env.check_all_zero(f"{name}.{mapname}-weights[{label};invert={invert}]", vals,
                       note="each image holds the sum of the weights of the outputs mapped to it (array column order consistent with outputs), row totals unchanged")


def check_sampling_result(env, outs, label):
    import lightworks as lw
    from lightworks.emulator.results import SamplingResult
    name = "lightworks/emulator/results/sampling_result.py:SamplingResult#xsym"
    w = {tuple(o): env.sym(f"c{j}") for j, o in enumerate(outs)}
    r = SamplingResult({lw.State(list(o)): v for o, v in w.items()}, lw.State([1, 1]))
    vals = [((o,), r[lw.State(list(o))] - v) for o, v in w.items()]
    env.check_all_zero(f"{name}.counts[{label}]", vals, note="the counts it was built from are returned unchanged")
    env.check_true(f"{name}.outputs[{label}]", [tuple(o.s) for o in r.outputs] == [tuple(o) for o in outs] and r.input == lw.State([1, 1]),
                   note="outputs / input as given", model=dict(shape=label))
    for mapname, f in (("threshold", thr), ("parity", par)):
        for invert in (False, True):
            m = getattr(r, f"apply_{mapname}_mapping")(invert=invert)
            images = {}
            for o in outs:
                images.setdefault(f(o, invert), []).append(o)
            got = {tuple(k.s): v for k, v in m.items()}
            env.check_true(f"{name}.{mapname}-outputs[{label};invert={invert}]", sorted(got) == sorted(images) and sorted(tuple(o.s) for o in m.outputs) == sorted(images),
                           note="every output is replaced by its image (also images of zero weight)", model=dict(shape=label, got=sorted(got), expected=sorted(images)))
            vals = []
            for t, members in images.items():
                want = env.const(0)
                for o in members:
                    want = want + w[o]
                vals.append(((mapname, invert, t), got.get(t, env.const(0)) - want))
            env.check_all_zero(f"{name}.{mapname}-weights[{label};invert={invert}]", vals, note="weights of coinciding outputs are added; total unchanged")


def check_errors(env):
    import numpy as np
    import lightworks as lw
    from lightworks.emulator.results import SimulationResult, SamplingResult
    from lightworks.emulator.utils import ResultCreationError
    name = "lightworks/emulator/results/simulation_result.py:SimulationResult#xsym"
    I, O = [lw.State([1, 0])], [lw.State([1, 0]), lw.State([0, 1])]

    def raises(f, exc):
        try:
            f()
            return False
        except exc:
            return True
        except Exception:  # noqa: BLE001
            return False
    A = np.zeros((1, 2))
    checks = [("shape-inputs", lambda: SimulationResult(np.zeros((2, 2)), "probability", inputs=I, outputs=O), ResultCreationError),
              ("shape-outputs", lambda: SimulationResult(np.zeros((1, 3)), "probability", inputs=I, outputs=O), ResultCreationError),
              ("bad-type", lambda: SimulationResult(A, "nonsense", inputs=I, outputs=O), ResultCreationError),
              ("missing-input", lambda: SimulationResult(A, "probability", inputs=I, outputs=O)[lw.State([0, 1])], KeyError),
              ("missing-output", lambda: SimulationResult(A, "probability", inputs=I, outputs=O)[lw.State([1, 0]), lw.State([2, 0])], KeyError),
              ("three-items", lambda: SimulationResult(A, "probability", inputs=I, outputs=O)[lw.State([1, 0]), lw.State([1, 0]), lw.State([1, 0])], ValueError),
              ("not-a-state", lambda: SimulationResult(A, "probability", inputs=I, outputs=O)[[1, 0]], TypeError),
              ("sampling-bad-input", lambda: SamplingResult({lw.State([1]): 1}, [1]), ResultCreationError),
              ("sampling-missing", lambda: SamplingResult({lw.State([1]): 1}, lw.State([1]))[lw.State([0])], KeyError)]
    for label, f, exc in checks:
        env.check_true(f"{name}.errors[{label}]", raises(f, exc), note="invalid construction / lookup is rejected with the documented error", model=dict(case=label))


def my_shapes(tier, shard, nshards):
    k = 0
    for ins, outs in shapes(tier):
        k += 1
        if k % nshards == shard:
            yield ins, outs


def _run(mode, tier, shard, nshards, only=None):
    """only = index of one shape of this shard (symbolic paths are explored per shape), -1 = the error cases, None = everything"""
    env = Env(mode)
    for idx, (ins, outs) in enumerate(my_shapes(tier, shard, nshards)):
        if only is not None and idx != only:
            continue
        label = f"in={ins};out={outs}"
        check_simulation_result(env, ins, outs, label)
        if len(ins) == 1:
            check_sampling_result(env, outs, label)
    if shard == 0 and only in (None, -1):
        check_errors(env)
    return env.obligations


def unit(mode="exact", tier="quick", seed=0, shard=0, nshards=1):
    from collections import OrderedDict
    agg = OrderedDict()
    if mode == "exact":
        from vf.xlift import hook
        from vf.xlift.field import Undecided
        nsh = len(list(my_shapes(tier, shard, nshards)))
        for only in list(range(nsh)) + [-1]:
            try:
                for path, log, res in hook.run_paths(lambda: _run(mode, tier, shard, nshards, only), max_paths=48):
                    obs = res[1] if res[0] == "ok" else [dict(name="vf/tasks/t_results.py#xsym.runs", kind="xsym", result="refuted", backend="xlift", ms=0,
                                                              note=f"raised {type(res[1]).__name__}: {res[1]}", model=dict(shard=shard, shape=only))]
                    _merge(agg, obs)
            except Undecided as e:
                # the code under test branches on the symbolic weights too often to enumerate: undecided for this shape (never a violation)
                _merge(agg, [dict(name=f"vf/tasks/t_results.py#xsym.paths[shape {only}]", kind="xsym", result="unknown", backend="xlift", ms=0, note=f"{e}", reason=str(e))])
    else:
        _merge(agg, _run(mode, tier, shard, nshards))
    obligations = list(agg.values())
    for o in obligations:
        if o["result"] in ("refuted", "bounded-fail"):
            o["replay_spec"] = dict(module="vf.tasks.t_results", func="replay", args=[o["name"], tier, shard, nshards])
    return dict(status="ok", obligations=obligations, summary=f"shard {shard}/{nshards}: {sum(o.get('cases', 1) for o in obligations)} symbolic identities over result shapes")


def _merge(agg, obs):
    for o in obs:
        clause = o["name"].split("[")[0]
        case = o["name"][len(clause):]
        a = agg.get(clause)
        if a is None:
            a = agg[clause] = dict(name=clause, kind="xsym", result="proved", backend="xlift normal form (symbolic weights; shapes enumerated)", ms=0.0, cases=0, note=o.get("note"), sample=case)
        a["cases"] += 1
        a["ms"] += o.get("ms", 0)
        if o["result"] != "proved":
            if a["result"] == "proved":
                a["result"] = o["result"]
                a["model"] = dict(case=case, detail=o.get("model"), note=o.get("note"))
            a.setdefault("failing_cases", []).append(case)


def replay(name, tier, shard, nshards):
    obs = _run("native", tier, shard, nshards)
    clause = name.split("[")[0]
    bad = [o for o in obs if o["result"] == "refuted" and o["name"].startswith(clause)]
    return "; ".join(f"{o['name']}: {o.get('model')}" for o in bad[:2]) if bad else None


# ----------------------------------------------------------------------------------------------- native values (dtypes, aliasing)
def unit_native(tier="quick", seed=0):
    """What the exact-arithmetic runs cannot see: numpy dtypes and aliasing.  Complex-valued results of type 'probability' keep each input's
    (complex) total under both mappings; the result does not change when the caller edits the lists it was built from."""
    import numpy as np
    import lightworks as lw
    from lightworks.emulator.results import SimulationResult
    fails, n = [], 0
    ins = [lw.State([1, 0]), lw.State([0, 1])]
    outs = [lw.State([2, 0]), lw.State([1, 1]), lw.State([0, 2]), lw.State([3, 0])]
    for label, A in (("complex", np.array([[0.25 + 0.5j, 0.5 - 0.125j, 0.125, 0.125j], [1j, 0.5, 0.25 - 0.25j, 0.25]])),
                     ("real", np.array([[0.25, 0.5, 0.125, 0.125], [0.0, 0.5, 0.25, 0.25]])),
                     ("negative real", np.array([[-0.25, 0.5, 0.625, 0.125], [0.5, -0.5, 0.75, 0.25]]))):
        r = SimulationResult(A, "probability", inputs=list(ins), outputs=list(outs))
        for mapname in ("threshold", "parity"):
            for invert in (False, True):
                n += 1
                import warnings
                with warnings.catch_warnings():
                    warnings.simplefilter("ignore")
                    try:
                        m = getattr(r, f"apply_{mapname}_mapping")(invert=invert)
                    except Exception as e:  # noqa: BLE001
                        fails.append((dict(values=label, mapping=mapname, invert=invert), f"raised {type(e).__name__}: {e}"))
                        continue
                for i, si in enumerate(ins):
                    tot_new = sum(complex(m[si, t]) for t in m.outputs)
                    tot_arr = complex(np.sum(m.array[i]))
                    tot_old = complex(np.sum(A[i]))
                    if abs(tot_new - tot_old) > 1e-12 or abs(tot_arr - tot_old) > 1e-12:
                        fails.append((dict(values=label, mapping=mapname, invert=invert, input=si.s), f"input total {tot_old} became {tot_new} (array row {tot_arr})"))
                        break
    # the lists handed to the constructor stay the caller's
    I, O = list(ins), list(outs)[:3]
    A = np.array([[0.1, 0.2, 0.7], [0.3, 0.3, 0.4]])
    r = SimulationResult(A, "probability", inputs=I, outputs=O)
    I.reverse()
    O.append(lw.State([9, 9]))
    n += 1
    bad = [(i, j) for i, si in enumerate(r.inputs) for j, so in enumerate(r.outputs) if j < 3 and r[si, so] != r.array[i, j]]
    if bad or len(r.outputs) != 3:
        fails.append((dict(case="caller edits the lists passed to the constructor"), f"pair indexing no longer agrees with the array at {bad[:3]}; outputs now {len(r.outputs)}"))
    # reporting methods (dataframe with small / large thresholds, with and without conversion to probabilities, printing, mappings) are read-only: the
    # result returns the same values through the array, pair indexing and nested indexing afterwards
    import contextlib
    import io
    from lightworks.emulator.results import SamplingResult
    for rtype, A in (("probability", np.array([[0.004, 0.5, 0.496], [0.3, 0.009, 0.691]])),
                     ("probability_amplitude", np.array([[0.005 + 0.002j, 0.7j, 0.5], [0.3, 0.001j, 0.9 - 0.004j]]))):
        r = SimulationResult(A.copy(), rtype, inputs=list(ins), outputs=list(outs)[:3])
        calls = [("display_as_dataframe()", lambda: r.display_as_dataframe()), ("display_as_dataframe(threshold=0.01)", lambda: r.display_as_dataframe(threshold=0.01)),
                 ("display_as_dataframe(0.01, conv_to_probability=True)", lambda: r.display_as_dataframe(threshold=0.01, conv_to_probability=True)),
                 ("print_outputs()", lambda: r.print_outputs()), ("print_outputs(rounding=1)", lambda: r.print_outputs(rounding=1))]
        if rtype == "probability":
            calls += [("apply_threshold_mapping()", lambda: r.apply_threshold_mapping()), ("apply_parity_mapping(invert=True)", lambda: r.apply_parity_mapping(invert=True))]
        for what, call in calls:
            n += 1
            try:
                with contextlib.redirect_stdout(io.StringIO()):
                    call()
            except Exception as e:  # noqa: BLE001
                fails.append((dict(result_type=rtype, call=what), f"raised {type(e).__name__}: {e}"))
                continue
            bad = [(i, j) for i, si in enumerate(r.inputs) for j, so in enumerate(r.outputs)
                   if not (r[si, so] == A[i, j] and r[si][so] == A[i, j] and r.array[i, j] == A[i, j])]
            if bad:
                fails.append((dict(result_type=rtype, call=what), f"after {what} the result no longer returns the values it was built from at {bad[:3]} "
                                                                  f"(array {r.array[bad[0]]}, pair {r[r.inputs[bad[0][0]], r.outputs[bad[0][1]]]}, built from {A[bad[0]]})"))
                break
    counts = {lw.State([1, 0]): 3, lw.State([0, 1]): 1200, lw.State([2, 0]): 7}
    sr = SamplingResult(dict(counts), lw.State([1, 1]))
    for what, call in (("display_as_dataframe(threshold=0.01)", lambda: sr.display_as_dataframe(threshold=0.01)), ("print_outputs()", lambda: sr.print_outputs()),
                       ("apply_threshold_mapping()", lambda: sr.apply_threshold_mapping()), ("apply_parity_mapping()", lambda: sr.apply_parity_mapping())):
        n += 1
        try:
            with contextlib.redirect_stdout(io.StringIO()):
                call()
        except Exception as e:  # noqa: BLE001
            fails.append((dict(result="SamplingResult", call=what), f"raised {type(e).__name__}: {e}"))
            continue
        if {tuple(k.s): sr[k] for k in sr.outputs} != {tuple(k.s): v for k, v in counts.items()}:
            fails.append((dict(result="SamplingResult", call=what), f"after {what} the sampling result no longer returns the counts it was built from"))
            break
    o = dict(name="lightworks/emulator/results/simulation_result.py:SimulationResult#bnd.native-values", kind="bnd", cases=n, result="bounded-fail" if fails else "bounded-pass",
             backend="native numpy values", ms=0, note="complex / negative values keep each input's total under both mappings; lists passed to the constructor are not shared; reporting methods are read-only")
    if fails:
        o["failing_cases"] = [str(f[0]) for f in fails]
        o["model"] = dict(case=fails[0][0], observed=fails[0][1], n_failing=len(fails))
        o["replayed"] = f"{len(fails)} of {n} cases fail; first {fails[0][0]}: {fails[0][1]}"
    return dict(status="ok", obligations=[o], summary=f"native values: {n} cases")
