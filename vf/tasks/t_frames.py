"""C08 bounded stand-ins (native): old()-snapshots around API calls.

 rejected-calls   every kind of rejected construction call (out-of-range / non-integer / parameter modes, equal modes, invalid
                  loss and reflectivity, incomplete swaps, duplicate heralds, oversize additions, wrong types) on parents with
                  and without ancillas: the documented exception is raised and the circuit is exactly as before.
 arguments        add / + / copy / simulate / sample / analyse / map / display / tomography / qiskit conversion leave every circuit
                  and state passed in unchanged, including the module-level gate instances shared by converter and tomography;
                  later edits to a sub-circuit do not change a parent it was added to.
"""
from __future__ import annotations

import itertools
import json
import os

import numpy as np

os.environ.setdefault("MPLBACKEND", "Agg")


def _u(c):
    try:
        return c.U_full.tobytes()
    except Exception as e:  # noqa: BLE001
        return f"does not compile: {type(e).__name__}: {getattr(e, '__cause__', None)}"


def snap(c):
    return (c.n_modes, c.input_modes, json.dumps(c.heralds, sort_keys=True), json.dumps(c._external_heralds, sort_keys=True), sorted(c._internal_modes),
            repr(c._get_circuit_spec()), _u(c))


def parents():
    import lightworks as lw
    c = lw.Circuit(4)
    c.bs(0)
    c.ps(2, 0.3)
    yield "plain4", c
    c = lw.Circuit(4)
    u = lw.Unitary(lw.random_unitary(3, seed=1))
    u.herald(1, 0, 2)
    c.add(u, 1)
    c.bs(0, 3)
    yield "ancilla-at-1", c
    c = lw.Circuit(3)
    u = lw.Unitary(lw.random_unitary(2, seed=2))
    u.herald(0, 0)
    c.add(u, 0)
    u2 = lw.Unitary(lw.random_unitary(3, seed=3))
    u2.herald(1, 2, 0)
    c.add(u2, 1)
    c.herald(0, 2)
    yield "two-ancillas+own-herald", c


def _small_heralded(photons=0):
    """a 3-mode block with one herald (input mode 0 -> output mode 2): two user-visible modes"""
    import lightworks as lw
    u = lw.Unitary(lw.random_unitary(3, seed=11))
    u.herald(photons, 0, 2)
    return u


def _heralded_with_bad_parameter(loss=False):
    import lightworks as lw
    p = lw.Parameter(0.5)
    u = lw.Circuit(3)
    if loss:
        u.bs(0, loss=p)
    else:
        u.bs(0, reflectivity=p)
    u.bs(1)
    u.herald(0, 0, 2)
    p.set(1.5)
    return u


def rejected_calls(c):
    """(label, callable, expected exception names)"""
    import lightworks as lw
    n = c.n_modes - len(c._internal_modes)     # user-visible modes
    big = lw.Circuit(n + 1)
    sub_h = lw.Unitary(lw.random_unitary(n + 2, seed=5))
    sub_h.herald(0, 0)
    P = lw.Parameter(1)
    free = [m for m in range(n) if True]
    calls = [
        ("bs mode out of range", lambda: c.bs(n - 1), ("ModeRangeError",)),
        ("bs second mode out of range", lambda: c.bs(0, n), ("ModeRangeError",)),
        ("bs negative mode", lambda: c.bs(-1, 0), ("ModeRangeError",)),
        ("bs equal modes", lambda: c.bs(1, 1), ("ModeRangeError",)),
        ("bs float mode", lambda: c.bs(0.5, 1), ("TypeError",)),
        ("bs parameter mode", lambda: c.bs(P, 0), ("TypeError",)),
        ("bs bad reflectivity", lambda: c.bs(0, 1, reflectivity=1.5), ("ValueError",)),
        ("bs bad convention", lambda: c.bs(0, 1, convention="Q"), ("ValueError",)),
        ("bs bad loss", lambda: c.bs(0, 1, loss=1.5), ("ValueError",)),
        ("bs loss wrong type", lambda: c.bs(0, 1, loss="a"), ("TypeError",)),
        ("ps out of range", lambda: c.ps(n, 0.1), ("ModeRangeError",)),
        ("ps bad loss", lambda: c.ps(0, 0.1, loss=-0.5), ("ValueError",)),
        # a boolean mode is refused by _mode_in_range only when no ancilla lies at/below it (True + 1 == 2 after remapping);
        # the properties do not require the refusal, so acceptance is tolerated here ("optional") - noted in DESIGN.md
        ("ps bool mode", lambda: c.ps(True, 0.1), ("TypeError", "optional")),
        ("loss out of range", lambda: c.loss(n, 0.1), ("ModeRangeError",)),
        ("loss bad value", lambda: c.loss(0, 2), ("ValueError",)),
        ("barrier out of range", lambda: c.barrier([0, n]), ("ModeRangeError",)),
        ("swaps incomplete", lambda: c.mode_swaps({0: 1}), ("ValueError",)),
        ("swaps out of range", lambda: c.mode_swaps({0: n, n: 0}), ("ModeRangeError",)),
        ("herald out of range", lambda: c.herald(0, n), ("ModeRangeError",)),
        ("herald output out of range", lambda: c.herald(0, 0, n), ("ModeRangeError",)),
        ("herald photons not int", lambda: c.herald(0.5, 0), ("TypeError",)),
        ("herald photons bool", lambda: c.herald(True, 0), ("TypeError",)),
        ("add oversize", lambda: c.add(big, 0), ("ModeRangeError",)),
        ("add oversize at offset", lambda: c.add(lw.Circuit(2), n - 1), ("ModeRangeError",)),
        ("add heralded oversize", lambda: c.add(sub_h, 0), ("ModeRangeError",)),
        ("add mode out of range", lambda: c.add(lw.Circuit(1), n), ("ModeRangeError",)),
        ("add wrong type", lambda: c.add([1, 2], 0), ("TypeError",)),
        # every refusal of add() against every kind of argument that fits: plain, grouped, heralded (a heralded argument makes add() insert ancilla
        # modes and register heralds in the parent - a refusal after that point would leave them behind)
        ("add bad name, heralded argument", lambda: c.add(_small_heralded(), 0, name=7), ("TypeError",)),
        ("add bad name, heralded argument with photons", lambda: c.add(_small_heralded(1), 0, name=("a",)), ("TypeError",)),
        ("add bad name, grouped argument", lambda: c.add(lw.Circuit(1), 0, group=True, name=7), ("TypeError",)),
        ("add bad name, plain argument", lambda: c.add(lw.Circuit(1), 0, name=7), ("TypeError", "optional")),
        ("add heralded, mode out of range", lambda: c.add(_small_heralded(), n), ("ModeRangeError",)),
        ("add heralded, negative mode", lambda: c.add(_small_heralded(), -1), ("ModeRangeError",)),
        ("add heralded, float mode", lambda: c.add(_small_heralded(), 0.5), ("TypeError",)),
        # arguments that are accepted today (their parameter values are only looked at when the circuit is compiled): if a version of add() refuses them, the
        # refusal must still leave the parent as it was
        ("add heralded block holding an out-of-range reflectivity Parameter", lambda: c.add(_heralded_with_bad_parameter(), 0), ("ValueError", "CircuitCompilationError", "optional")),
        ("add grouped block holding an out-of-range loss Parameter", lambda: c.add(_heralded_with_bad_parameter(loss=True), 0, group=True), ("ValueError", "CircuitCompilationError", "optional")),
        ("add heralded, does not fit at offset", lambda: c.add(_small_heralded(), n - 1) if n >= 2 else c.add(_small_heralded(), n), ("ModeRangeError",)),
        ("plus different size", lambda: c + big, ("ModeRangeError", "NotImplementedError")),
        ("plus wrong type", lambda: c + 1, ("TypeError",)),
        ("n_modes assignment", lambda: setattr(c, "n_modes", 3), ("AttributeError",)),
    ]
    return calls


def duplicate_herald_calls(c):
    """heralds on already heralded input / output modes (the circuit first gets one herald with in != out)"""
    n = c.n_modes - len(c._internal_modes)
    vis = [m for m in range(n)]
    own = len(c._external_heralds["input"])
    if n - own < 3:
        return []
    return [("setup", lambda: c.herald(1, 0, 2), None),
            ("duplicate input", lambda: c.herald(0, 0, 1), ("ValueError",)),
            ("duplicate output, free input", lambda: c.herald(1, 1, 2), ("ValueError",)),
            ("duplicate both", lambda: c.herald(1, 0, 2), ("ValueError",))]


def check_rejected():
    fails, n = [], 0
    for plabel, _ in parents():
        for idx in range(len(rejected_calls(next(p for l, p in parents() if l == plabel)))):
            c = next(p for l, p in parents() if l == plabel)
            label, call, excs = rejected_calls(c)[idx]
            before = snap(c)
            n += 1
            raised = False
            try:
                call()
                if "optional" not in excs:
                    fails.append((dict(parent=plabel, call=label), "no exception raised"))
            except Exception as e:  # noqa: BLE001
                raised = True
                if type(e).__name__ not in excs:
                    fails.append((dict(parent=plabel, call=label), f"raised {type(e).__name__} instead of {excs}"))
            if (raised or "optional" not in excs) and snap(c) != before:
                fails.append((dict(parent=plabel, call=label), "a rejected call changed the circuit"))
        c = next(p for l, p in parents() if l == plabel)
        before = None
        for label, call, excs in duplicate_herald_calls(c):
            if excs is None:
                call()
                before = snap(c)
                continue
            n += 1
            try:
                call()
                fails.append((dict(parent=plabel, call=label), "no exception raised"))
            except Exception as e:  # noqa: BLE001
                if type(e).__name__ not in excs:
                    fails.append((dict(parent=plabel, call=label), f"raised {type(e).__name__} instead of {excs}"))
            if snap(c) != before:
                fails.append((dict(parent=plabel, call=label), "a rejected herald() call changed the circuit"))
    return _obl("lightworks/sdk/circuit/circuit.py:Circuit#bnd.rejected-call-changes-nothing", n, fails,
                "every rejected construction call raises its documented error and leaves the circuit exactly as it was")


def check_arguments():
    import matplotlib
    matplotlib.use("Agg")
    import matplotlib.pyplot as plt
    import lightworks as lw
    from lightworks import emulator, interferometers, qubit, tomography
    fails, n = [], 0

    def subs():
        s = lw.Unitary(lw.random_unitary(3, seed=7))
        yield "unitary", s
        s = lw.Unitary(lw.random_unitary(3, seed=8))
        s.herald(1, 0, 2)
        yield "heralded in!=out", s
        g = lw.Circuit(3)
        inner = lw.Unitary(lw.random_unitary(3, seed=9))
        inner.herald(0, 1, 1)
        g.add(inner, 0)
        yield "wrapper of a heralded group", g
        w = lw.Circuit(3)
        inn = lw.Circuit(3)
        inn.bs(0)
        inn.mode_swaps({0: 2, 2: 0})
        w.add(inn, 0, group=True)
        w.herald(1, 0, 2)
        yield "single group + herald in!=out", w
        p = lw.Circuit(2)
        p.bs(0, reflectivity=lw.Parameter(0.3))
        yield "with parameter", p
    # add / + / copy on every parent, grouped or not, twice (reuse)
    for (plabel, _), (slabel, _), group in itertools.product(parents(), subs(), (False, True)):
        P = next(p for l, p in parents() if l == plabel)
        S = next(s for l, s in subs() if l == slabel)
        before = snap(S)
        n += 1
        try:
            P.add(S, 0, group=group)
            mid = snap(P)
            P2 = next(p for l, p in parents() if l == plabel)
            P2.add(S, 0, group=group)
            if snap(P2) != mid:
                fails.append((dict(parent=plabel, sub=slabel, group=group), "adding the same circuit object a second time gives a different result"))
        except lw.ModeRangeError:
            pass
        if snap(S) != before:
            fails.append((dict(parent=plabel, sub=slabel, group=group), "add() changed the circuit passed in"))
        # later edits of the sub-circuit do not reach the parent
        pb = snap(P)
        try:
            S.ps(0, 0.77)
            S.bs(0)
        except Exception:  # noqa: BLE001
            pass
        if snap(P) != pb:
            fails.append((dict(parent=plabel, sub=slabel, group=group), "editing the sub-circuit afterwards changed the parent"))
        c2 = S.copy()
        sb = snap(S)
        c2.ps(0, 0.5)
        c2.unpack_groups()
        try:
            c2.bs(0)
        except Exception:  # noqa: BLE001
            pass
        if snap(S) != sb:
            fails.append((dict(sub=slabel), "editing / unpacking a copy changed the original"))
    a, b = lw.Circuit(3), lw.Circuit(3)
    a.bs(0)
    b.ps(1, 2)
    sa, sb = snap(a), snap(b)
    n += 1
    s = a + b
    s.bs(1)
    if snap(a) != sa or snap(b) != sb:
        fails.append((dict(op="+"), "summing circuits changed an operand"))
    # copies and sums made EARLIER are independent of what is done to the original LATER (and the other way round) - also when the later operation is one
    # that re-indexes existing components: a heralded sub-circuit added at or below them, swap compression, unpacking
    def heralded_block():
        h = lw.Unitary(lw.random_unitary(3, seed=21))
        h.herald(1, 0, 2)
        return h
    later_ops = [("add heralded block at 0", lambda c: c.add(heralded_block(), 0)), ("add heralded block at 1", lambda c: c.add(heralded_block(), 1)),
                 ("compress_mode_swaps", lambda c: c.compress_mode_swaps()), ("remove_non_adjacent_bs", lambda c: c.remove_non_adjacent_bs()),
                 ("unpack_groups", lambda c: c.unpack_groups()), ("herald(0, 0)", lambda c: c.herald(0, 0))]

    def original():
        c = lw.Circuit(4)
        c.bs(0, 2)
        c.mode_swaps({1: 3, 3: 1})
        c.mode_swaps({0: 1, 1: 0})
        g = lw.Circuit(2)
        g.ps(1, 0.4)
        c.add(g, 2, group=True)
        c.add(lw.Unitary(lw.random_unitary(2, seed=8)), 1)
        return c
    for olabel, op in later_ops:
        for who in ("copy edited, original watched", "original edited, copy watched", "sum edited, operand watched", "operand edited, sum watched"):
            n += 1
            o1 = original()
            if who.startswith("copy") or who.startswith("original"):
                other = o1.copy()
                edited, watched = (other, o1) if who.startswith("copy") else (o1, other)
            else:
                o2 = lw.Circuit(4)
                o2.ps(3, 1.0)
                tot = o1 + o2
                edited, watched = (tot, o1) if who.startswith("sum") else (o1, tot)
            before = snap(watched)
            try:
                op(edited)
            except Exception:  # noqa: BLE001
                continue
            try:
                after = snap(watched)
            except Exception as e:  # noqa: BLE001
                after = f"snapshot raised {type(e).__name__}"
            if after != before:
                fails.append((dict(later_operation=olabel, case=who), "a circuit changed although only its copy / sum partner was operated on"))
    # emulator / interferometer / display / tomography / converter
    for plabel, _ in parents():
        c = next(p for l, p in parents() if l == plabel)
        before = snap(c)
        st = lw.State([1] + [0] * (c.input_modes - 1))
        st_before = st.s
        n += 1
        try:
            emulator.Simulator(c).simulate(st)
            smp = emulator.Sampler(c, st)
            smp.probability_distribution
            smp.sample_N_inputs(20, seed=1)
            smp.sample_N_outputs(20, seed=1)
            emulator.QuickSampler(c, st).sample_N_outputs(10, seed=1)
            emulator.Analyzer(c).analyze(st)
            interferometers.Reck().map(c)
            lw.Display(c, display_type="svg")
            f, _ax = lw.Display(c, display_type="mpl")
            plt.close(f)
        except Exception as e:  # noqa: BLE001
            fails.append((dict(parent=plabel), f"an emulator / mapping / display call raised {type(e).__name__}: {e}"))
        if snap(c) != before or st.s != st_before:
            fails.append((dict(parent=plabel), "simulate / sample / analyse / map / display changed a circuit or state argument"))
    # shared module-level gate instances (converter, tomography) - used with parents that hold ancillas
    from lightworks.qubit.converter import qiskit_convert as qc_mod
    from lightworks.tomography import mappings
    shared = {}
    for k, g in qc_mod.SINGLE_QUBIT_GATES_MAP.items():
        shared[f"SINGLE_QUBIT_GATES_MAP[{k}]"] = g
    for k, g in mappings.MEASUREMENT_MAPPING.items():
        shared[f"MEASUREMENT_MAPPING[{k}]"] = g
    for k, (_s, g) in mappings.INPUT_MAPPING.items():
        shared[f"INPUT_MAPPING[{k}]"] = g
    before = {k: snap(g) for k, g in shared.items()}
    n += 1
    try:
        from qiskit import QuantumCircuit
        q = QuantumCircuit(3)
        q.cx(0, 1)
        q.h(0)
        q.s(1)
        q.cx(1, 2)
        q.h(1)
        q.x(2)
        q.t(0)
        q.cz(0, 1)
        q.sx(2)
        q.y(1)
        q.z(0)
        q.sdg(1)
        q.tdg(2)
        qubit.qiskit_converter(q)
        qubit.qiskit_converter(q, allow_post_selection=True)
    except Exception as e:  # noqa: BLE001
        fails.append((dict(op="qiskit_converter"), f"raised {type(e).__name__}: {e}"))
    base = lw.Circuit(4)
    base.add(qubit.H(), 0)
    base.add(qubit.CNOT_Heralded(), 0)
    bb = snap(base)

    def exp(circuits, *a):
        return [{lw.State([1, 0, 1, 0]): 10, lw.State([0, 1, 0, 1]): 10} for _ in circuits]
    try:
        tomography.StateTomography(2, base, exp).process()
        tomography.LIProcessTomography(2, base, exp).process()
    except Exception as e:  # noqa: BLE001
        fails.append((dict(op="tomography"), f"raised {type(e).__name__}: {e}"))
    if snap(base) != bb:
        fails.append((dict(op="tomography"), "tomography changed its base circuit"))
    for k, g in shared.items():
        if snap(g) != before[k]:
            fails.append((dict(shared=k), "a module-level gate instance was modified by conversion / tomography"))
    return _obl("lightworks/sdk/circuit/circuit.py:Circuit#bnd.arguments-unchanged", n, fails,
                "add / + / copy / simulate / sample / analyse / map / display / tomography / conversion never change their arguments; sub-circuit edits do not reach the parent")


def _obl(name, n, fails, note):
    o = dict(name=name, kind="bnd", cases=n, result="bounded-fail" if fails else "bounded-pass", backend="native snapshots", ms=0, note=note, sample=None)
    if fails:
        o["failing_cases"] = [json.dumps(f[0], default=str) for f in fails]
        o["model"] = dict(case=fails[0][0], observed=fails[0][1], n_failing=len(fails))
        o["replayed"] = f"{len(fails)} failures in {n} cases; first {fails[0][0]}: {fails[0][1]}"
    return o


def unit(tier="quick", seed=0, which="rejected"):
    o = (check_rejected if which == "rejected" else check_arguments)()
    if o["result"] == "bounded-fail":
        o["replay_spec"] = dict(module="vf.tasks.t_frames", func="replay", args=[which])
    return dict(status="ok", obligations=[o], summary=f"{which}: {o['cases']} cases")


def replay(which):
    return unit(which=which)["obligations"][0].get("replayed")


if __name__ == "__main__":
    for w in ("rejected", "arguments"):
        r = unit(which=w)
        print(r["summary"], r["obligations"][0]["result"], (r["obligations"][0].get("replayed") or "")[:900])
        for c in r["obligations"][0].get("failing_cases", [])[:20]:
            print("   ", c)
