"""C14 bounded stand-in (native floats - the property itself is stated "to numerical precision"):
Reck mapping of structured unitaries (identity, every permutation, phased permutations, block-diagonal, sparse, DFT,
near-degenerate, Haar) reproduces the unitary to 1e-12, keeps the heralds, uses adjacent beam splitters and phase shifters only,
all phases in [0, 2 pi); with an error model every drawn value stays inside its declared bounds, equal seeds give equal circuits.
"""
from __future__ import annotations

import itertools
import json

import numpy as np


TOL = 1e-12      # 'to numerical precision': the unchanged tree reproduces every member of the family to better than 1e-15


def haar(n, k):
    rng = np.random.default_rng(500 + 10 * n + k)
    a = rng.normal(size=(n, n)) + 1j * rng.normal(size=(n, n))
    q, r = np.linalg.qr(a)
    return q * (np.diag(r) / np.abs(np.diag(r)))


def family(tier):
    out = []
    for n in (1, 2, 3, 4):
        out.append((f"identity{n}", np.identity(n, dtype=complex)))
        for p in itertools.permutations(range(n)):
            P = np.zeros((n, n), dtype=complex)
            for i, j in enumerate(p):
                P[j, i] = 1
            out.append((f"perm{p}", P))
            if n == 3:
                D = np.diag(np.exp(1j * np.array([0.3, 1.7, 4.0])))
                out.append((f"phased-perm{p}", D @ P))
    # block diagonal / sparse
    B = np.identity(4, dtype=complex)
    B[1:3, 1:3] = haar(2, 1)
    out.append(("block(1,2)", B))
    B = np.identity(4, dtype=complex)
    B[0:2, 0:2] = haar(2, 2)
    B[2:4, 2:4] = np.array([[0, 1], [1, 0]])
    out.append(("block(0,1)+swap(2,3)", B))
    B = np.identity(5, dtype=complex)
    B[[0, 4]] = B[[4, 0]]
    B[1:4, 1:4] = haar(3, 1)
    out.append(("swap(0,4)+block(1..3)", B))
    for n in (2, 3, 4, 5):
        F = np.array([[np.exp(2j * np.pi * i * j / n) for j in range(n)] for i in range(n)]) / np.sqrt(n)
        out.append((f"dft{n}", F))
    H = np.array([[1, 1], [1, -1]]) / np.sqrt(2)
    out.append(("hadamard(x)hadamard", np.kron(H, H).astype(complex)))
    # near-degenerate: tiny mixing angles
    for eps in (1e-6, 1e-8, 3e-9, -3e-9, 1e-9, -1e-9, 1e-10, 1e-12, -1e-12, 1e-14):
        R = np.identity(3, dtype=complex)
        c, s = np.cos(eps), np.sin(eps)
        R[0, 0], R[0, 1], R[1, 0], R[1, 1] = c, -s, s, c
        out.append((f"near-identity({eps})", R))
        P = np.zeros((3, 3), dtype=complex)
        P[1, 0] = P[2, 1] = P[0, 2] = 1
        out.append((f"near-perm({eps})", R @ P))
        R4 = np.identity(4, dtype=complex)
        R4[1, 1], R4[1, 3], R4[3, 1], R4[3, 3] = c, -s * 1j, -s * 1j, c          # tiny complex coupling between non-adjacent modes
        out.append((f"near-identity4({eps})", R4))
        P4 = np.zeros((4, 4), dtype=complex)
        P4[1, 0] = P4[2, 1] = P4[3, 2] = P4[0, 3] = 1
        out.append((f"near-cycle4({eps})", P4 @ R4))
    for n in (2, 3, 4, 5, 6):
        for k in range(2 if tier == "quick" else 6):
            out.append((f"haar{n}.{k}", haar(n, k)))
    return out


def components_ok(circ):
    from lightworks.sdk.circuit.components import Barrier, BeamSplitter, Loss, PhaseShifter
    bad = []
    for s in circ._get_circuit_spec():
        if isinstance(s, BeamSplitter):
            if abs(s.mode_1 - s.mode_2) != 1:
                bad.append(f"beam splitter on non-adjacent modes {s.mode_1},{s.mode_2}")
        elif isinstance(s, PhaseShifter):
            if not (0 <= s.phi < 2 * np.pi):
                bad.append(f"phase {s.phi!r} outside [0, 2pi)")
        elif not isinstance(s, (Barrier, Loss)):
            bad.append(f"unexpected component {type(s).__name__}")
    return bad


def check_default():
    import lightworks as lw
    from lightworks import interferometers as inter
    fails, n = [], 0
    for label, Umat in family("quick"):
        n += 1
        c = lw.Unitary(Umat)
        try:
            m = inter.Reck().map(c)
        except Exception as e:  # noqa: BLE001
            fails.append((label, f"map raised {type(e).__name__}: {e}"))
            continue
        err = np.abs(m.U - Umat).max()
        if m.U.shape != Umat.shape or err > TOL:
            fails.append((label, f"mapped unitary differs by {err:.2e}"))
        bad = components_ok(m)
        if bad:
            fails.append((label, bad[0]))
        if not np.allclose(c.U, Umat):
            fails.append((label, "original circuit changed"))
    # heralded circuits: heralds of the mapped circuit are those of the original
    for hs in ([(1, 0, 0)], [(0, 1, 2)], [(1, 0, 3), (0, 2, 1)], [(0, 4, 2), (1, 1, 3)], [(2, 3, 3), (0, 0, 0)]):
        n += 1
        c = lw.Unitary(haar(5, 9))
        for h in hs:
            c.herald(*h)
        try:
            m = inter.Reck().map(c)
        except Exception as e:  # noqa: BLE001
            fails.append((f"heralds{hs}", f"map raised {type(e).__name__}: {e}"))
            continue
        if m.heralds != c.heralds or m.input_modes != c.input_modes or np.abs(m.U_full - c.U_full).max() > TOL:
            fails.append((f"heralds{hs}", f"heralds {m.heralds} vs {c.heralds}"))
    # one Reck object used again after the SAME circuit object was changed in place (component appended, parameter moved, sub-circuit added)
    r = inter.Reck()
    p_ = lw.Parameter(0.3)
    c = lw.Circuit(4)
    c.bs(0)
    c.ps(1, p_)
    c.bs(2, reflectivity=0.3)
    steps = [("first map", lambda: None), ("bs appended", lambda: c.bs(1, reflectivity=0.7)), ("parameter set", lambda: p_.set(1.9)),
             ("unitary added", lambda: c.add(lw.Unitary(haar(2, 3)), 2)), ("unchanged", lambda: None)]
    for what, step in steps:
        n += 1
        step()
        try:
            m = r.map(c)
            err = np.abs(m.U - c.U).max()
            if err > TOL:
                fails.append((f"reused Reck object; {what}", f"mapped unitary differs from the circuit's current unitary by {err:.2e}"))
        except Exception as e:  # noqa: BLE001
            fails.append((f"reused Reck object; {what}", f"map raised {type(e).__name__}: {e}"))
    # lossless circuits built with every component kind the API offers - including loss ELEMENTS whose value is zero (an explicit loss(m, 0), a Parameter
    # at 0 on bs / ps / loss), barriers, swaps, groups, added sub-circuits: a lossless circuit is mapped, whatever it is made of
    def build_zero_loss(kind):
        c = lw.Circuit(4)
        c.bs(0, reflectivity=0.3)
        if kind == "loss(m, 0)":
            c.loss(1, 0)
        elif kind == "loss(m, Parameter(0))":
            c.loss(2, lw.Parameter(0))
        elif kind == "bs(loss=Parameter(0))":
            c.bs(1, reflectivity=0.6, loss=lw.Parameter(0))
        elif kind == "ps(loss=Parameter(0.0))":
            c.ps(3, 0.4, loss=lw.Parameter(0.0))
        elif kind == "zero loss inside an added group":
            g = lw.Circuit(2)
            g.bs(0)
            g.loss(0, 0)
            c.add(g, 1, group=True)
        elif kind == "barrier + swaps + group":
            c.barrier()
            c.mode_swaps({0: 2, 2: 0})
            g = lw.Circuit(2)
            g.ps(1, 0.2)
            c.add(g, 2, group=True)
        c.bs(2, reflectivity=0.5)
        c.ps(0, 1.1)
        return c
    for kind in ("loss(m, 0)", "loss(m, Parameter(0))", "bs(loss=Parameter(0))", "ps(loss=Parameter(0.0))", "zero loss inside an added group", "barrier + swaps + group"):
        n += 1
        c = build_zero_loss(kind)
        try:
            m = inter.Reck().map(c)
            err = np.abs(m.U - c.U).max()
            if err > TOL:
                fails.append((f"lossless circuit with {kind}", f"mapped unitary differs by {err:.2e}"))
        except Exception as e:  # noqa: BLE001
            fails.append((f"lossless circuit with {kind}", f"map raised {type(e).__name__}: {e}"))
    # the smallest circuits: one mode (a phase only), two modes
    for nm in (1, 2):
        n += 1
        c = lw.Circuit(nm)
        c.ps(0, 0.7)
        try:
            m = inter.Reck().map(c)
            if np.abs(m.U - c.U).max() > TOL:
                fails.append((f"{nm}-mode circuit", "mapped unitary differs"))
        except Exception as e:  # noqa: BLE001
            fails.append((f"{nm}-mode circuit", f"map raised {type(e).__name__}: {e}"))
    return _obl("lightworks/interferometers/reck.py:Reck.map#bnd.reproduces-unitary", n, fails,
                "map(c).U = c.U to 1e-12 (observed worst 1e-15), adjacent BS + PS only, phases in [0,2pi), heralds kept; identity, all permutations n<=4, phased permutations, block-diagonal, sparse, DFT, near-degenerate, Haar")


def check_error_model():
    import lightworks as lw
    from lightworks import interferometers as inter
    from lightworks.interferometers import dists
    from lightworks.sdk.circuit.components import BeamSplitter, Loss, PhaseShifter
    fails, n = [], 0
    models = []
    em = inter.ErrorModel()
    em.bs_reflectivity = dists.Gaussian(0.5, 0.05, min_value=0.45, max_value=0.56)
    em.loss = dists.TopHat(0.01, 0.2)
    em.phase_offset = dists.Gaussian(0.0, 0.3, min_value=-0.2, max_value=0.25)
    models.append(("gauss+tophat", em, (0.45, 0.56), (0.01, 0.2)))
    em = inter.ErrorModel()
    em.bs_reflectivity = dists.TopHat(0.3, 0.31)
    em.loss = dists.Constant(0.1)
    em.phase_offset = dists.TopHat(-3.0, 3.0)
    models.append(("tophat+const", em, (0.3, 0.31), (0.1, 0.1)))
    for label, em, rb, lb in models:
        for seed in (0, 1, 5):
            for k in range(2):
                n += 1
                c = lw.Unitary(haar(4, k))
                c.herald(1, 0, 2)
                r = inter.Reck(error_model=em)
                m1, m2 = r.map(c, seed=seed), r.map(c, seed=seed)
                s1, s2 = m1._get_circuit_spec(), m2._get_circuit_spec()
                if [repr(x) for x in s1] != [repr(x) for x in s2]:
                    fails.append((f"{label};seed={seed}", "same seed gives different mapped circuits"))
                for s in s1:
                    if isinstance(s, BeamSplitter) and not (rb[0] <= s.reflectivity <= rb[1]):
                        fails.append((f"{label};seed={seed}", f"reflectivity {s.reflectivity} outside declared bounds {rb}"))
                    if isinstance(s, Loss) and not (lb[0] <= s.loss <= lb[1]):
                        fails.append((f"{label};seed={seed}", f"loss {s.loss} outside declared bounds {lb}"))
                    if isinstance(s, PhaseShifter) and not (0 <= s.phi < 2 * np.pi):
                        fails.append((f"{label};seed={seed}", f"phase {s.phi} outside [0,2pi)"))
                # still a valid (sub-)unitary circuit: compiles, singular values <= 1, U_full unitary
                Ufull, Usub = m1.U_full, m1.U
                if np.abs(Ufull.conj().T @ Ufull - np.identity(Ufull.shape[0])).max() > 1e-8 or np.linalg.svd(Usub, compute_uv=False).max() > 1 + 1e-9:
                    fails.append((f"{label};seed={seed}", "mapped circuit is not a valid sub-unitary circuit"))
                if m1.heralds != c.heralds:
                    fails.append((f"{label};seed={seed}", "heralds differ"))
    # equal seeds give equal circuits also across FRESHLY created, identically configured error models / Reck objects (nothing may depend on object
    # identity or creation order); and a default Reck() is ideal whatever was done to another default Reck's error model before
    def fresh_model():
        e = inter.ErrorModel()
        e.bs_reflectivity = dists.Gaussian(0.5, 0.05, min_value=0.45, max_value=0.56)
        e.loss = dists.TopHat(0.01, 0.2)
        e.phase_offset = dists.Gaussian(0.0, 0.3, min_value=-0.2, max_value=0.25)
        return e
    c = lw.Unitary(haar(4, 2))
    first = [repr(x) for x in inter.Reck(error_model=fresh_model()).map(c, seed=11)._get_circuit_spec()]
    keep = []
    for rep in range(12):
        n += 1
        keep.append(object())                   # vary the allocation pattern between the models
        again = [repr(x) for x in inter.Reck(error_model=fresh_model()).map(c, seed=11)._get_circuit_spec()]
        if again != first:
            fails.append((f"fresh error model #{rep};seed=11", "an identically configured, freshly created error model gives another circuit for the same seed"))
            break
    n += 1
    ideal = [repr(x) for x in inter.Reck().map(c)._get_circuit_spec()]
    r0 = inter.Reck()
    r0.error_model.loss = dists.TopHat(0.1, 0.2)
    r0.error_model.bs_reflectivity = dists.Constant(0.4)
    after = [repr(x) for x in inter.Reck().map(c)._get_circuit_spec()]
    if after != ideal:
        fails.append(("default Reck() after another default Reck's error model was edited", "a default-constructed Reck is no longer ideal (error model object shared between instances)"))
    # distributions alone: values within bounds, seeds reproducible, invalid bounds rejected
    inf = float("inf")
    for d, lo, hi in ((dists.Gaussian(1.0, 5.0, min_value=0.5, max_value=1.2), 0.5, 1.2), (dists.TopHat(-1.0, 2.0), -1.0, 2.0), (dists.Constant(0.3), 0.3, 0.3),
                      (dists.Gaussian(0.0, 0.05, min_value=0), 0.0, inf), (dists.Gaussian(0.0, 0.05, max_value=0), -inf, 0.0), (dists.Gaussian(0.0, 1.0, min_value=0, max_value=0.5), 0.0, 0.5),
                      (dists.Gaussian(0.0, 1.0, min_value=-0.5, max_value=0), -0.5, 0.0), (dists.Gaussian(2.0, 1.0), -inf, inf), (dists.TopHat(0, 0.25), 0.0, 0.25), (dists.TopHat(-0.25, 0), -0.25, 0.0)):
        n += 1
        if hasattr(d, "set_random_seed"):
            d.set_random_seed(3)
        v1 = [d.value() for _ in range(200)]
        if hasattr(d, "set_random_seed"):
            d.set_random_seed(3)
        v2 = [d.value() for _ in range(200)]
        if v1 != v2:
            fails.append((repr(d), "same seed gives different values"))
        if not all(lo <= v <= hi for v in v1):
            fails.append((repr(d), "value outside the declared bounds"))
    for ctor in (lambda: dists.Gaussian(0, 1, min_value=1, max_value=0), lambda: dists.TopHat(2, 1)):
        n += 1
        try:
            ctor()
            fails.append(("invalid bounds", "max < min accepted"))
        except ValueError:
            pass
    return _obl("lightworks/interferometers/reck.py:Reck.map#bnd.error-model", n, fails,
                "drawn values within declared bounds, same seed => same circuit, result a valid sub-unitary circuit with the original heralds")


def _obl(name, n, fails, note):
    o = dict(name=name, kind="bnd", cases=n, result="bounded-fail" if fails else "bounded-pass", backend="native floats (tolerance 1e-12)", ms=0, note=note,
             sample=None)
    if fails:
        o["failing_cases"] = [str(f[0]) for f in fails]
        o["model"] = dict(case=str(fails[0][0]), observed=fails[0][1], n_failing=len(fails))
        o["replayed"] = f"{len(fails)} of {n} cases fail; first {fails[0][0]}: {fails[0][1]}"
    return o


def unit(tier="quick", seed=0, which="default"):
    o = (check_default if which == "default" else check_error_model)()
    if o["result"] == "bounded-fail":
        o["replay_spec"] = dict(module="vf.tasks.t_reck", func="replay", args=[which])
    return dict(status="ok", obligations=[o], summary=f"{which}: {o['cases']} cases")


def replay(which):
    return unit(which=which)["obligations"][0].get("replayed")


if __name__ == "__main__":
    for w in ("default", "error"):
        r = unit(which=w)
        print(r["summary"], r["obligations"][0]["result"], (r["obligations"][0].get("replayed") or "")[:600])
