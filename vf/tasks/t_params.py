"""C10 bounded stand-in (native): the Parameter invariant with values and bounds of numpy scalar types.

pyvc proves the invariant for mathematical reals (A1).  numpy compares a Python float with a float32 AFTER rounding it to float32, so a
value a hair outside a bound can pass a bare `<` / `>`; this unit replays the invariant natively with such values:
after every accepted or rejected update, float(min_bound) <= float(value) <= float(max_bound) (compared in double precision)."""
from __future__ import annotations

import itertools


def unit(tier="quick", seed=0):
    import numpy as np
    import lightworks as lw
    fails, n = [], 0
    f32 = np.float32
    vals = [0.05, 0.1, f32(0.1), f32(0.05), np.float64(0.1), 0.0, f32(0.0), 0.10000000149011612, 1, np.int64(0), f32(0.2), 0.2, -1e-9, f32(-1e-9)]

    def inside(p):
        v = float(p.get())
        lo = None if p.min_bound is None else float(p.min_bound)
        hi = None if p.max_bound is None else float(p.max_bound)
        return (lo is None or lo <= v) and (hi is None or v <= hi)
    for lo, hi in ((0, 0.1), (f32(0.0), f32(0.1)), (0.0, f32(0.1)), (f32(0.05), 0.1), (None, 0.1), (0.05, None)):
        for start in (0.05, f32(0.05), 0.1):
            try:
                p = lw.Parameter(start, bounds=[lo, hi] if lo is not None and hi is not None else None)
                if lo is None:
                    p.max_bound = hi
                if hi is None:
                    p.min_bound = lo
            except Exception:  # noqa: BLE001
                continue
            for ops in itertools.product(range(3), vals[:8] + [float("nan"), f32("nan"), float("inf"), float("-inf")], repeat=1):
                which, v = ops
                n += 1
                try:
                    if which == 0:
                        p.set(v)
                    elif which == 1:
                        p.min_bound = v
                    else:
                        p.max_bound = v
                except Exception:  # noqa: BLE001
                    pass
                if not inside(p):
                    fails.append((dict(bounds=[repr(lo), repr(hi)], start=repr(start), update=["set", "min_bound", "max_bound"][which], value=repr(v)),
                                  f"value {float(p.get())!r} outside [{p.min_bound!r}, {p.max_bound!r}] after the update"))
                    break
            if fails and len(fails) > 20:
                break
    o = dict(name="lightworks/sdk/circuit/parameters.py:Parameter#bnd.invariant-numpy-scalars", kind="bnd", cases=n, result="bounded-fail" if fails else "bounded-pass",
             backend="native (double-precision comparison)", ms=0, note="value within bounds after every accepted / rejected update, values and bounds given as float, float32, float64, int64, NaN and +-inf")
    if fails:
        o["failing_cases"] = [str(f[0]) for f in fails]
        o["model"] = dict(case=fails[0][0], observed=fails[0][1], n_failing=len(fails))
        o["replayed"] = f"{len(fails)} of {n} updates leave the value outside its bounds; first {fails[0][0]}: {fails[0][1]}"
    return dict(status="ok", obligations=[o], summary=f"parameter invariant with numpy scalars: {n} updates")
