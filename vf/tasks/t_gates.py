"""C13: every gate of the library, every target option, rotation angles symbolic.

The REAL constructors run (under xlift in exact mode); the heralded dual-rail amplitude matrix is
computed with the spec permanent (vf/spec/fock.py) from the circuit's own U_full and compared with the
textbook matrix of the named gate.  Discrete domain (gate class x target option) is finite and fully
enumerated; the continuous one (theta) is symbolic => complete proof for the contract
    forall theta.  M(gate(theta)) = s * G(theta),  |s|^2 = p_gate,  leakage = 0 (heralded gates).
"""
import itertools

import numpy as real_np

from vf.spec import fock
from vf.xlift.env import Env


def ref_matrices(env, theta_c, theta_s, full_c, full_s):
    """textbook gate matrices; (theta_c, theta_s) = cos/sin of theta/2, (full_c, full_s) of theta"""
    i = env.I()
    one, zero = env.const(1), env.const(0)
    r2 = env.sqrt(2)
    return {
        "I": [[one, zero], [zero, one]],
        "H": [[one / r2, one / r2], [one / r2, -one / r2]],
        "X": [[zero, one], [one, zero]],
        "Y": [[zero, -i], [i, zero]],
        "Z": [[one, zero], [zero, -one]],
        "S": [[one, zero], [zero, i]],
        "Sadj": [[one, zero], [zero, -i]],
        "T": [[one, zero], [zero, (one + i) / r2]],
        "Tadj": [[one, zero], [zero, (one - i) / r2]],
        "SX": [[(one + i) / 2, (one - i) / 2], [(one - i) / 2, (one + i) / 2]],
        "P": [[one, zero], [zero, full_c + i * full_s]],
        "Rx": [[theta_c, -i * theta_s], [-i * theta_s, theta_c]],
        "Ry": [[theta_c, -theta_s], [theta_s, theta_c]],
        "Rz": [[theta_c - i * theta_s, zero], [zero, theta_c + i * theta_s]],
    }


def basis(n):
    return list(itertools.product([0, 1], repeat=n))


def gate_matrix(env, circ, n_qubits):
    U = circ.U_full
    M = {}
    for bi in basis(n_qubits):
        for bo in basis(n_qubits):
            M[(bo, bi)] = fock.heralded_amp(env, circ, U, fock.dual_rail(bi), fock.dual_rail(bo))
    return M, U


def check_gate(env, name, circ, n_qubits, action, p_expected, leakage):
    """action: dict (out_bits, in_bits) -> expected matrix entry (field element)"""
    M, U = gate_matrix(env, circ, n_qubits)
    # common scalar from the first non-zero reference entry
    key0 = next(k for k in sorted(action) if not _is_zero(env, action[k]))
    s = M[key0] / action[key0]
    env.check_all_zero(f"lightworks/qubit/gates:{name}#xsym.matrix", [((k), M[k] - s * action[k]) for k in sorted(M)],
                       note=f"heralded dual-rail amplitudes of {name} = common scalar x named gate matrix (all {len(M)} entries)")
    sc = s.conjugate() if hasattr(s, "conjugate") else s
    env.check_zero(f"lightworks/qubit/gates:{name}#xsym.scalar", s * sc - p_expected, note=f"|scalar|^2 = {p_expected}")
    env.check_true(f"lightworks/qubit/gates:{name}#xsym.visible-modes", circ.input_modes == 2 * n_qubits,
                   note="gate acts on 2 modes per qubit", model={"input_modes": circ.input_modes})
    if leakage:
        vals = []
        for vis in fock.fock(2 * n_qubits, n_qubits):
            if any(vis == fock.dual_rail(b) for b in basis(n_qubits)):
                continue
            for bi in basis(n_qubits):
                vals.append(((tuple(vis), bi), fock.heralded_amp(env, circ, U, fock.dual_rail(bi), vis)))
        env.check_all_zero(f"lightworks/qubit/gates:{name}#xsym.no-leakage", vals,
                           note="heralds satisfied => no amplitude outside the qubit subspace")


def _is_zero(env, v):
    if env.mode == "native":
        return abs(complex(v)) < 1e-12
    return v.simp().n.is_zero()


def controlled(n, controls, target, kind, env):
    """reference action of C..C-Z / C..C-NOT on n qubits"""
    act = {}
    for bi in basis(n):
        for bo in basis(n):
            act[(bo, bi)] = env.const(0)
    for bi in basis(n):
        on = all(bi[c] == 1 for c in controls)
        if kind == "z":
            bo = bi
            act[(bo, bi)] = env.const(-1) if (on and bi[target] == 1) else env.const(1)
        else:
            bo = list(bi)
            if on:
                bo[target] ^= 1
            act[(tuple(bo), bi)] = env.const(1)
    return act


def gate_list():
    out = []
    for nm in ["I", "H", "X", "Y", "Z", "S", "Sadj", "T", "Tadj", "SX"]:
        out.append((nm, {}))
    for nm in ["P", "Rx", "Ry", "Rz"]:
        out.append((nm, {"theta": True}))
    out += [("CZ", {}), ("CNOT", {"target_qubit": 0}), ("CNOT", {"target_qubit": 1}), ("CZ_Heralded", {}),
            ("CNOT_Heralded", {"target_qubit": 0}), ("CNOT_Heralded", {"target_qubit": 1}),
            ("CCZ", {}), ("CCNOT", {"target_qubit": 0}), ("CCNOT", {"target_qubit": 1}), ("CCNOT", {"target_qubit": 2}),
            # the documented defaults when no target is named: the last qubit (CNOT, CNOT_Heralded: qubit 1; CCNOT: qubit 2)
            ("CNOT", {}), ("CNOT_Heralded", {}), ("CCNOT", {})]
    return out


def run_one(env, nm, opts):
    from lightworks import qubit
    from fractions import Fraction
    fixed = ",".join(f"{k}={v}" for k, v in opts.items() if k != "theta")
    label = nm + (f"({fixed})" if fixed else "") + ("(theta)" if opts.get("theta") else "") + ("(default target)" if nm in ("CNOT", "CNOT_Heralded", "CCNOT") and not opts else "")
    if nm in ("CZ", "CNOT", "CZ_Heralded", "CNOT_Heralded", "CCZ", "CCNOT"):
        circ = getattr(qubit, nm)(**opts)
        n = 3 if nm.startswith("CC") else 2
        t = opts.get("target_qubit", n - 1)
        controls = [q for q in range(n) if q != t]
        act = controlled(n, controls, t, "z" if nm.endswith("Z") or nm.endswith("Z_Heralded") else "not", env)
        p = {"CZ": Fraction(1, 9), "CNOT": Fraction(1, 9), "CZ_Heralded": Fraction(1, 16), "CNOT_Heralded": Fraction(1, 16),
             "CCZ": Fraction(1, 72), "CCNOT": Fraction(1, 72)}[nm]
        check_gate(env, label, circ, n, act, env.const(p), leakage=nm.endswith("Heralded"))
        return
    if opts.get("theta"):
        theta = env.sym("theta")
        circ = getattr(qubit, nm)(theta)
        c2, s2 = env.cos_sin(theta / 2)
        c1, s1 = env.cos_sin(theta)
    else:
        circ = getattr(qubit, nm)()
        c2 = s2 = c1 = s1 = env.const(0)
    G = ref_matrices(env, c2, s2, c1, s1)[nm]
    act = {((o,), (i,)): G[o][i] for o in (0, 1) for i in (0, 1)}
    check_gate(env, label, circ, 1, act, env.const(1), leakage=False)


def swap_cases():
    cases = []
    for modes in itertools.permutations(range(5), 4):
        cases.append(((modes[0], modes[1]), (modes[2], modes[3])))
    return cases


def run_swap(env, q1, q2):
    """SWAP on arbitrary distinct modes: the circuit exchanges a0<->b0 and a1<->b1 and nothing else"""
    from lightworks import qubit
    circ = qubit.SWAP(q1, q2)
    n = circ.n_modes
    U = circ.U_full
    exp = {q1[0]: q2[0], q2[0]: q1[0], q1[1]: q2[1], q2[1]: q1[1]}
    vals = []
    for i in range(n):
        for j in range(n):
            want = 1 if exp.get(j, j) == i else 0
            vals.append(((i, j), U[i, j] - want))
    env.check_all_zero(f"lightworks/qubit/gates:SWAP{q1}{q2}#xsym.permutation", vals,
                       note="SWAP = transposition of the two qubits' 0-modes and 1-modes, scalar 1")


def unit(mode="exact", tier="quick", seed=0, which=None, assignment=None):
    """all gates; in exact mode every symbolic path is explored and path coverage is part of the result"""
    obligations = []
    functions = []
    todo = gate_list() if which is None else [g for g in gate_list() if g[0] == which[0] and {k: v for k, v in g[1].items()} == which[1]]
    if mode == "exact":
        from vf.xlift import hook
        for nm, opts in todo:
            npaths = 0
            from vf.xlift.field import Undecided
            try:
                for path, log, res in hook.run_paths(lambda: _one(nm, opts, mode, None)):
                    npaths += 1
                    if res[0] == "exc":
                        obligations.append(dict(name=f"lightworks/qubit/gates:{nm}{opts}#xsym.runs", kind="xsym", result="refuted",
                                                backend="xlift", ms=0, note=f"constructor/compile raised {type(res[1]).__name__}: {res[1]}",
                                                model={"gate": nm, "opts": opts}))
                    else:
                        obligations += res[1]
            except Undecided as e:
                # the gate's code takes a decision that the symbolic angle cannot settle (rounding / floor of theta): this variant is undecided for all
                # angles at once - the concrete-angle unit (special and generic angles of both signs) still covers it
                obligations.append(dict(name=f"lightworks/qubit/gates:{nm}{opts}#xsym.matrix", kind="xsym", result="unknown", backend="xlift", ms=0,
                                        reason=f"symbolic run undecided: {e}", note="named gate matrix for every angle"))
            functions.append(dict(function=f"lightworks/qubit/gates:{nm}", mechanism="xlift", paths=npaths))
        swaps = swap_cases() if tier == "thorough" else swap_cases()[::7]
        for q1, q2 in swaps:
            for path, log, res in hook.run_paths(lambda: _swap(q1, q2, mode)):
                obligations += res[1] if res[0] == "ok" else [dict(name=f"lightworks/qubit/gates:SWAP{q1}{q2}#xsym.runs", kind="xsym", result="refuted",
                                                                   backend="xlift", ms=0, note=repr(res[1]), model={"q1": q1, "q2": q2})]
        functions.append(dict(function="lightworks/qubit/gates/two_qubit_gates.py:SWAP", mechanism="xlift", cases=len(swaps)))
    else:
        for nm, opts in todo:
            obligations += _one(nm, opts, mode, assignment)
    for o in obligations:
        if o["result"] == "refuted":
            o["replay_spec"] = dict(module="vf.tasks.t_gates", func="replay", args=[o["name"], o.get("model")])
    return dict(status="ok", obligations=obligations, functions=functions,
                assumptions=["A1: IEEE doubles treated as exact reals (xlift lifting)", "A3: numpy object-dtype proxy (validated by vf.xlift.selfcheck)"],
                summary=f"{len(todo)} gate variants + SWAP placements; {len(obligations)} identities")


def _one(nm, opts, mode, assignment):
    env = Env(mode, assignment)
    run_one(env, nm, opts)
    return env.obligations


def _swap(q1, q2, mode):
    env = Env(mode)
    run_swap(env, q1, q2)
    return env.obligations


def replay(name, model):
    """native float replay of a failed gate identity on the unmodified package"""
    import re
    import random
    m = re.match(r"lightworks/qubit/gates:([A-Za-z_]+)(?:\(([^)]*)\))?", name)
    nm = m.group(1)
    if nm == "SWAP":
        return None
    cands = [g for g in gate_list() if g[0] == nm and (("target_qubit=" + str(g[1].get("target_qubit"))) in name or "target_qubit" not in g[1])]
    msgs = []
    for g in cands:
        for trial in range(3):
            assignment = {"theta": random.Random(trial).uniform(-3, 3)}
            if isinstance(model, dict) and isinstance(model.get("witness"), dict) and "theta" in model["witness"] and trial == 0:
                try:
                    assignment["theta"] = float(model["witness"]["theta"])
                except (TypeError, ValueError):
                    pass
            for o in _one(g[0], g[1], "native", assignment):
                if o["result"] == "refuted":
                    msgs.append(f"{o['name']} fails natively (theta={assignment['theta']:.4f}): {o.get('model')}")
            if msgs:
                return "; ".join(msgs[:3])
    return None


def unit_sequences(tier="quick", seed=0):
    """history independence of the gate constructors (native): gates built one after another in one process - angles that differ
    slightly, repeated constructions - each still equals its own textbook matrix"""
    import numpy as np
    from lightworks import qubit
    fails, n = [], 0
    env = Env("native")
    angles = [np.pi / 4, 0.785, 0.7853, 0.0, 4e-4, 1.0, 1.0004, -2.5, -2.5003]
    for nm in ("Rx", "Ry", "Rz", "P"):
        for th in angles + angles[::-1]:
            n += 1
            circ = getattr(qubit, nm)(th)
            c2, s2, c1, s1 = np.cos(th / 2), np.sin(th / 2), np.cos(th), np.sin(th)
            G = np.array(ref_matrices(env, c2, s2, c1, s1)[nm], dtype=complex)
            M, _ = gate_matrix(env, circ, 1)
            Mm = np.array([[M[((o,), (i,))] for i in (0, 1)] for o in (0, 1)], dtype=complex)
            k = np.argmax(np.abs(G))
            sc = Mm.flat[k] / G.flat[k]
            if abs(abs(sc) - 1) > 1e-9 or np.abs(Mm - sc * G).max() > 1e-9:
                fails.append((dict(gate=nm, theta=float(th)), f"gate built after other gates deviates from its matrix by {np.abs(Mm - sc * G).max():.2e}"))
    o = dict(name="lightworks/qubit/gates/single_qubit_gates.py:rotation-gates#bnd.history-independent", kind="bnd", cases=n, result="bounded-fail" if fails else "bounded-pass",
             backend="native floats", ms=0, note="rotation gates constructed in sequence (close and repeated angles) each implement their own angle")
    if fails:
        o["failing_cases"] = [str(f[0]) for f in fails]
        o["model"] = dict(case=fails[0][0], observed=fails[0][1], n_failing=len(fails))
        o["replayed"] = f"{len(fails)} of {n} constructions fail; first {fails[0][0]}: {fails[0][1]}"
    return dict(status="ok", obligations=[o], summary=f"{n} gate constructions in sequence")



def unit_angles(tier="quick", seed=0):
    """C13, native floats: the rotation gates at concrete angles - every multiple of pi/4 from -4 pi to 4 pi (where special-casing would sit), angles a hair
    beside them, and generic angles of both signs: the dual-rail action is one unit-modulus scalar times the named matrix (1e-10)."""
    import cmath
    import math
    import numpy as np
    import lightworks as lw
    from lightworks import emulator, qubit
    fails, n = [], 0

    def ref(nm, th):
        c, s_ = math.cos(th / 2), math.sin(th / 2)
        return {"P": np.array([[1, 0], [0, cmath.exp(1j * th)]]), "Rz": np.array([[cmath.exp(-1j * th / 2), 0], [0, cmath.exp(1j * th / 2)]]),
                "Rx": np.array([[c, -1j * s_], [-1j * s_, c]]), "Ry": np.array([[c, -s_], [s_, c]])}[nm]
    angles = [k * math.pi / 4 for k in range(-16, 17)]
    angles += [a + d for a in (math.pi, -math.pi, math.pi / 2, -math.pi / 2, 2 * math.pi, -math.pi / 4) for d in (1e-7, -1e-7, 3e-6, -3e-6)]
    angles += [0.3, -0.3, 1.234, -2.2, 5.9, -7.7, 11 * math.pi / 2, -15 * math.pi / 2]
    for nm in ("P", "Rx", "Ry", "Rz"):
        for th in angles:
            n += 1
            try:
                g = getattr(qubit, nm)(th)
                sim = emulator.Simulator(g)
                A = np.array(sim.simulate([lw.State([1, 0]), lw.State([0, 1])], [lw.State([1, 0]), lw.State([0, 1])]).array).T      # A[out, in]
            except Exception as e:  # noqa: BLE001
                fails.append((dict(gate=nm, theta=th), f"raised {type(e).__name__}: {e}"))
                continue
            R = ref(nm, th)
            i, j = np.unravel_index(np.argmax(np.abs(R)), R.shape)
            sc = A[i, j] / R[i, j]
            if abs(abs(sc) - 1) > 1e-10 or np.abs(A - sc * R).max() > 1e-10:
                fails.append((dict(gate=nm, theta=th), f"{nm}({th}) acts as {np.round(A, 6).tolist()}, not a unit scalar times {np.round(R, 6).tolist()}"))
    o = dict(name="lightworks/qubit/gates:rotation-gates#bnd.concrete-angles", kind="bnd", cases=n, result="bounded-fail" if fails else "bounded-pass",
             backend="native floats (1e-10)", ms=0, note="P, Rx, Ry, Rz at all multiples of pi/4 in [-4pi, 4pi], neighbours of special angles, generic angles of both signs")
    if fails:
        o["failing_cases"] = [str(f[0]) for f in fails[:20]]
        o["model"] = dict(case=fails[0][0], observed=fails[0][1], n_failing=len(fails))
        o["replayed"] = f"{len(fails)} of {n} angles fail; first {fails[0][0]}: {fails[0][1]}"
    return dict(status="ok", obligations=[o], summary=f"rotation gates at {n} concrete angles")


def unit_composed(tier="quick", seed=0):
    """C13, native floats: gates placed one after another on a larger register with Circuit.add (heralded gates leave ancilla modes behind that later
    placements must step over; the converter builds its circuits the same way): the dual-rail action of the whole is one scalar times the product of the
    named matrices, each on the qubits it was placed on."""
    import numpy as np
    import lightworks as lw
    from lightworks import qubit
    env = Env("native")
    fails, n = [], 0
    I2 = np.identity(2)
    X = np.array([[0, 1], [1, 0]], dtype=complex)
    H = np.array([[1, 1], [1, -1]], dtype=complex) / np.sqrt(2)

    def rx(t):
        return np.array([[np.cos(t / 2), -1j * np.sin(t / 2)], [-1j * np.sin(t / 2), np.cos(t / 2)]])

    def on(nq, q, G):           # single-qubit matrix on qubit q of nq (qubit 0 = most significant bit of the basis index, as in basis())
        out = np.array([[1]], dtype=complex)
        for k in range(nq):
            out = np.kron(out, G if k == q else I2)
        return out

    def cnot(nq, ctrl, tgt):
        d = 2 ** nq
        M = np.zeros((d, d), dtype=complex)
        for i, bits in enumerate(basis(nq)):
            b = list(bits)
            if b[ctrl]:
                b[tgt] ^= 1
            M[list(basis(nq)).index(tuple(b)), i] = 1
        return M

    def cz(nq, a, b_):
        d = 2 ** nq
        M = np.identity(d, dtype=complex)
        for i, bits in enumerate(basis(nq)):
            if bits[a] and bits[b_]:
                M[i, i] = -1
        return M
    cases = [
        ("CNOT_Heralded@0, CNOT_Heralded@2, Rx(0.9)@4", 3, [(lambda: qubit.CNOT_Heralded(), 0), (lambda: qubit.CNOT_Heralded(), 2), (lambda: qubit.Rx(0.9), 4)],
         lambda: on(3, 2, rx(0.9)) @ cnot(3, 1, 2) @ cnot(3, 0, 1)),
        ("CNOT_Heralded@2, CNOT_Heralded@0, X@2", 3, [(lambda: qubit.CNOT_Heralded(), 2), (lambda: qubit.CNOT_Heralded(), 0), (lambda: qubit.X(), 2)],
         lambda: on(3, 1, X) @ cnot(3, 0, 1) @ cnot(3, 1, 2)),
        ("CZ_Heralded@0, H@2, CZ_Heralded@0, H@0", 2, [(lambda: qubit.CZ_Heralded(), 0), (lambda: qubit.H(), 2), (lambda: qubit.CZ_Heralded(), 0), (lambda: qubit.H(), 0)],
         lambda: on(2, 0, H) @ cz(2, 0, 1) @ on(2, 1, H) @ cz(2, 0, 1)),
        ("CNOT_Heralded(target 0)@2, H@4, CNOT_Heralded@0, Rx(0.4)@2", 3,
         [(lambda: qubit.CNOT_Heralded(target_qubit=0), 2), (lambda: qubit.H(), 4), (lambda: qubit.CNOT_Heralded(), 0), (lambda: qubit.Rx(0.4), 2)],
         lambda: on(3, 1, rx(0.4)) @ cnot(3, 0, 1) @ on(3, 2, H) @ cnot(3, 2, 1)),
    ]
    for label, nq, placements, ref in cases:
        n += 1
        try:
            c = lw.Circuit(2 * nq)
            for mk, mode in placements:
                c.add(mk(), mode)
            M, _ = gate_matrix(env, c, nq)
            B = list(basis(nq))
            A = np.array([[M[(bo, bi)] for bi in B] for bo in B], dtype=complex)
            R = ref()
            i, j = np.unravel_index(np.argmax(np.abs(R)), R.shape)
            sc = A[i, j] / R[i, j]
            if abs(sc) < 1e-9 or np.abs(A - sc * R).max() > 1e-9:
                fails.append((dict(sequence=label), f"the composed circuit does not act as a scalar times the product of the named gates (max deviation {np.abs(A - sc * R).max():.3f}, scalar {abs(sc):.4f})"))
        except Exception as e:  # noqa: BLE001
            fails.append((dict(sequence=label), f"raised {type(e).__name__}: {e}"))
    # the three-qubit gates reached through the qiskit converter: every control / target order of ccx (the target is the LAST argument) and ccz; a refusal is
    # allowed, a circuit for another target is not
    try:
        import itertools
        from vf.tasks.t_qiskit import check_program
        for perm_ in itertools.permutations(range(3)):
            for g in ("ccx", "ccz"):
                n += 1
                prog = [("h", (perm_[0],), ()), ("ry", (perm_[1],), (0.7,)), (g, tuple(perm_), ()), ("t", (perm_[2],), ())]
                try:
                    msg, status = check_program(prog, 3, True)
                except Exception as e:  # noqa: BLE001
                    msg = f"raised {type(e).__name__}: {e}"
                if msg:
                    fails.append((dict(sequence=f"qiskit {g}{perm_}"), msg))
    except ImportError:
        pass
    o = dict(name="lightworks/qubit/gates:composed-gates#bnd.product-of-named-matrices", kind="bnd", cases=n, result="bounded-fail" if fails else "bounded-pass",
             backend="native floats (1e-9)", ms=0, note="2-3 heralded two-qubit gates and single-qubit gates placed with Circuit.add on 2-3 qubits: the whole acts as the product of the named matrices")
    if fails:
        o["failing_cases"] = [str(f[0]) for f in fails]
        o["model"] = dict(case=fails[0][0], observed=fails[0][1], n_failing=len(fails))
        o["replayed"] = f"{len(fails)} of {n} sequences fail; first {fails[0][0]}: {fails[0][1]}"
    return dict(status="ok", obligations=[o], summary=f"composed gates: {n} sequences")
