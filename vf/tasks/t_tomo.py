"""C15 / C16: tomography on noiseless data.

The experiment callback computes EXACT outcome frequencies of the circuits it is handed (spec permanent on their U_full,
heralds inserted, restricted to dual-rail outcomes and renormalised), so the tomography code is exercised on noiseless data.
 exact mode (xlift): symbolic preparation angles => identities hold for every prepared state / every unitary of the family;
 native mode: floats, larger systems, and the float-only routines (scipy sqrtm fidelity, MLE iteration).
"""
from __future__ import annotations

import itertools
from fractions import Fraction as F

import numpy as real_np

from vf.spec import fock
from vf.xlift.env import Env


def basis(n):
    return list(itertools.product([0, 1], repeat=n))


def dual_amplitudes(env, circ, in_vis, n_qubits):
    """amplitudes onto every dual-rail output, heralds satisfied (unnormalised)"""
    U = circ.U_full
    return [fock.heralded_amp(env, circ, U, list(in_vis), fock.dual_rail(b)) for b in basis(n_qubits)]


def noiseless_result(env, circ, in_vis, n_qubits):
    import lightworks as lw
    amps = dual_amplitudes(env, circ, in_vis, n_qubits)
    probs = [a * (a.conjugate() if hasattr(a, "conjugate") else a) for a in amps]
    if env.mode == "native":
        probs = [float(real_np.real(p)) for p in probs]
    return {lw.State(fock.dual_rail(b)): p for b, p in zip(basis(n_qubits), probs)}


def conj(v):
    return v.conjugate() if hasattr(v, "conjugate") else v


# ------------------------------------------------------------------------------------------------ base circuits
def state_bases(env, n, tier):
    """(label, base circuit) preparing a state from |0..0>"""
    import lightworks as lw
    from lightworks import qubit
    if n == 1:
        th, ph = env.sym("theta"), env.sym("phi")
        c = lw.Circuit(2)
        c.add(qubit.Ry(th))
        c.add(qubit.Rz(ph))
        yield "Rz(phi)Ry(theta)|0>", c
    elif n == 2:
        th, ph = env.sym("theta"), env.sym("phi")
        c = lw.Circuit(4)
        c.add(qubit.Ry(th), 0)
        c.add(qubit.H(), 2)
        c.add(qubit.CNOT(), 0)                     # post-selected entangling gate
        c.add(qubit.Rz(ph), 2)
        c.add(qubit.S(), 0)
        yield "S.Rz(phi).CNOT.(Ry(theta) x H)|00>", c
        if tier == "thorough" or env.mode == "native":
            c = lw.Circuit(4)
            c.add(qubit.H(), 0)
            c.add(qubit.CNOT_Heralded(), 0)        # heralded entangling gate (photon-carrying ancillas)
            c.add(qubit.T(), 2)
            c.add(qubit.SX(), 0)
            yield "SX.T.CNOT_Heralded.(H x I)|00>", c
    else:
        c = lw.Circuit(6)
        c.add(qubit.H(), 0)
        c.add(qubit.CNOT_Heralded(), 0)
        c.add(qubit.CNOT_Heralded(), 2)
        c.add(qubit.S(), 4)
        c.add(qubit.T(), 0)
        yield "T.S.GHZ", c
    if env.mode == "native" and n <= 2:
        # base circuits whose heralds were declared DIRECTLY on them (Circuit.herald), below / between / above the qubit modes
        from vf.tasks.t_history import U as _haar
        for hm, ph in ((0, 0), (n, 0), (2 * n, 0), (1, 1)):
            c = lw.Unitary(_haar(2 * n + 1, 3 + hm))
            c.herald(ph, hm)
            yield f"generic {2 * n + 1}-mode unitary with herald({ph}, {hm}) set on the base circuit", c
    if env.mode == "native" and n <= 2:
        # heralds declared on the base circuit whose photon enters on one mode and leaves on ANOTHER (also two of them crossing)
        from vf.tasks.t_history import U as _haar2
        for hs in ([(0, 0, 2 * n)], [(1, 2 * n, 0)], [(1, n, 2 * n)], [(0, 0, 2 * n + 1), (1, 2 * n + 1, 0)]):
            c = lw.Unitary(_haar2(2 * n + len(hs), 13 + len(hs) + hs[0][1]))
            for h in hs:
                c.herald(*h)
            yield f"generic {2 * n + len(hs)}-mode unitary with heralds (photons, in, out) = {hs} declared on the base circuit", c
    if env.mode == "native" and n <= 2:
        # two (or three) ancilla modes BETWEEN the two rails of one qubit: heralds declared on the base circuit itself, and ancillas that come
        # from a heralded sub-circuit (internal modes of the base circuit)
        from vf.tasks.t_history import U as _haar
        for gap_at, photons in ((0, (0, 0)), (0, (1, 0)), (n - 1, (0, 1)), (0, (0, 0, 1))):
            g = len(photons)
            m = 2 * n + g
            first = 2 * gap_at + 1
            c = lw.Unitary(_haar(m, 5 + g + gap_at))
            for j, k in enumerate(photons):
                c.herald(k, first + j)
            yield f"generic {m}-mode unitary, own heralds {photons} on modes {first}..{first + g - 1} (between the rails of qubit {gap_at})", c
            sub = lw.Unitary(_haar(m, 9 + g + gap_at))
            for j, k in enumerate(photons):
                sub.herald(k, first + j)
            c = lw.Circuit(2 * n)
            c.add(sub, 0)
            yield f"heralded {m}-mode sub-circuit added: ancillas {photons} between the rails of qubit {gap_at}", c
    if env.mode == "native":
        # states with tiny but non-zero Pauli expectations / populations (1e-3 ... 1e-7): nothing may be rounded away
        for eps in (6e-4, 3e-5, 1e-7):
            c = lw.Circuit(2 * n)
            c.add(qubit.Ry(eps), 0)
            if n >= 2:
                c.add(qubit.CNOT_Heralded(), 0)          # cos|00..> + sin|11..>
            if n >= 3:
                c.add(qubit.CNOT_Heralded(), 2)
            yield f"Ry({eps})|0> entangled over {n} qubit(s)", c
            c = lw.Circuit(2 * n)
            c.add(qubit.H(), 0)
            c.add(qubit.Ry(eps), 0)
            c.add(qubit.S(), 2 * (n - 1))
            yield f"Ry({eps}).H|0> (nearly |+>), n={n}", c


# ------------------------------------------------------------------------------------------------ C15
def measurement_unitaries(env):
    """textbook basis changes: X: H ; Y: H S^dagger ; Z / I: identity  (measure <P> through a Z readout)"""
    one, zero, i = env.const(1), env.const(0), env.I()
    r2 = env.sqrt(2)
    H = [[one / r2, one / r2], [one / r2, -one / r2]]
    Sd = [[one, zero], [zero, -i]]
    HSd = [[sum((H[a][k] * Sd[k][b] for k in range(2)), zero) for b in range(2)] for a in range(2)]
    Id = [[one, zero], [zero, one]]
    return {"X": H, "Y": HSd, "Z": Id}


def check_state_tomography(env, n, tier):
    import lightworks as lw
    from lightworks import tomography
    name = "lightworks/tomography/state_tomography.py:StateTomography.process#xsym"
    in_vis = fock.dual_rail([0] * n)
    for label, base in state_bases(env, n, tier):
        U0 = base.U_full
        h0, n0 = base.heralds, base.n_modes
        spec0 = len(base._get_circuit_spec())
        received = []

        def experiment(circuits):
            received.extend(circuits)
            out = []
            for k_, c in enumerate(circuits):
                # frequencies, not probabilities: every measurement setting comes with its own total (another number of shots per setting)
                scale = env.const(F(k_ % 3 + 1, 2)) if env.mode == "exact" else float(500 * (k_ % 3 + 1))
                out.append({st: p * scale for st, p in noiseless_result(env, c, in_vis, n).items()})
            return out
        tomo = tomography.StateTomography(n, base, experiment)
        rho = tomo.process()
        # expected: outer product of the dual-rail state vector the base circuit prepares
        amps = dual_amplitudes(env, base, in_vis, n)
        norm = env.const(0)
        for a in amps:
            norm = norm + a * conj(a)
        d = 2 ** n
        vals = []
        tr = env.const(0)
        for a in range(d):
            tr = tr + rho[a, a]
            for b in range(d):
                vals.append((("rho", a, b), rho[a, b] * norm - amps[a] * conj(amps[b])))
                vals.append((("hermitian", a, b), rho[a, b] - conj(rho[b, a])))
        vals.append((("trace",), tr - 1))
        env.check_all_zero(f"{name}.density-matrix[n={n};{label}]", vals, note="rho = |psi><psi| of the prepared dual-rail state, Hermitian, unit trace")
        # callback: exactly one circuit per setting in {X,Y,Z}^n, each = base followed by the basis changes
        M = measurement_unitaries(env)
        settings = list(itertools.product("XYZ", repeat=n))
        ok_count = len(received) == len(settings)
        matched = {}
        for k, c in enumerate(received):
            for s in settings:
                if _is_base_then(env, c, base, U0, [M[g] for g in s], n, in_vis):
                    matched.setdefault(s, []).append(k)
        env.check_true(f"{name}.requested-circuits[n={n};{label}]", ok_count and all(len(matched.get(s, [])) == 1 for s in settings),
                       note="the callback receives exactly one circuit per measurement setting, each being the base circuit followed by the single-qubit basis changes (up to a phase per qubit)",
                       model=dict(received=len(received), matched={"".join(s): v for s, v in matched.items()}))
        same = base.n_modes == n0 and base.heralds == h0 and len(base._get_circuit_spec()) == spec0 and _eqmat(env, base.U_full, U0)
        env.check_true(f"{name}.base-unchanged[n={n};{label}]", same, note="the base circuit is left unchanged", model=dict(label=label))
        # the same tomography object used again after the base circuit was extended in place: results describe the NEW state
        from lightworks import qubit as _q
        base.add(_q.H(), 0)
        base.add(_q.T(), 0)
        rho2 = tomo.process()
        amps2 = dual_amplitudes(env, base, in_vis, n)
        norm2 = env.const(0)
        for a in amps2:
            norm2 = norm2 + a * conj(a)
        env.check_all_zero(f"{name}.second-run[n={n};{label}]", [(("rho2", a, b), rho2[a, b] * norm2 - amps2[a] * conj(amps2[b])) for a in range(d) for b in range(d)],
                           note="a second process() call after the base circuit was extended reconstructs the new state")
        if env.mode == "native":
            want = real_np.outer(amps2, real_np.conj(amps2)) / norm2
            fid = _fid(tomo, want)
            env.check_true(f"{name}.fidelity[n={n};{label}]", abs(fid - 1) < 1e-6, note="fidelity one against the expected matrix", model=dict(fidelity=float(fid)))


def check_live_parameters(env, n):
    """the circuits handed to the callback are bound to the base circuit's Parameter objects: a callback that applies its own settings to them before
    measuring (e.g. from experiment_args) measures the state for THOSE settings"""
    import lightworks as lw
    from lightworks import qubit, tomography
    name = "lightworks/tomography/state_tomography.py:StateTomography.process#xsym"
    p = lw.Parameter(0.3)
    base = lw.Circuit(2 * n)
    base.add(qubit.H(), 0)
    base.ps(1, p)
    if n == 2:
        base.add(qubit.CNOT(), 0)
    in_vis = fock.dual_rail((0,) * n)

    def experiment(circuits):
        p.set(1.1)                      # the experimenter's setting, applied when the measurement is done
        return [noiseless_result(env, c, in_vis, n) for c in circuits]
    rho = tomography.StateTomography(n, base, experiment).process()
    amps = dual_amplitudes(env, base, in_vis, n)        # base circuit with the parameter at 1.1
    norm = sum((a * conj(a) for a in amps), env.const(0))
    d = 2 ** n
    env.check_all_zero(f"{name}.density-matrix[n={n};parameter set by the callback]",
                       [((a, b), rho[a, b] * norm - amps[a] * conj(amps[b])) for a in range(d) for b in range(d)],
                       note="the measured circuits follow the base circuit's Parameter objects (they are not frozen copies)")


def _fid(tomo, ref):
    """the reported fidelity; a refusal of the (valid, computed) reference matrix counts as a wrong report, not as a crash of the check"""
    try:
        return tomo.fidelity(ref)
    except Exception as e:  # noqa: BLE001
        return float("nan") if not isinstance(e, (KeyboardInterrupt,)) else None


def _eqmat(env, A, B):
    if A.shape != B.shape:
        return False
    for i in range(A.shape[0]):
        for j in range(A.shape[1]):
            d = A[i, j] - B[i, j]
            z = d.simp().n.is_zero() if env.mode == "exact" else abs(d) < 1e-9
            if not z:
                res, _ = env.is_zero(d) if env.mode == "exact" else ("refuted", None)
                if res != "proved":
                    return False
    return True


def _is_base_then(env, c, base, U0, ops, n, in_vis=None):
    """c.U_full == (ops on the qubit modes, identity on ancillas) @ base.U_full, allowing one phase per qubit operator"""
    if c.n_modes == base.n_modes and c.heralds != base.heralds and in_vis is not None and c.input_modes == base.input_modes and \
            sorted(c.heralds["input"].values()) == sorted(base.heralds["input"].values()):
        # a herald that leaves the base circuit on another mode than it entered is re-routed when the base circuit is placed in the measurement circuit (its
        # photon ends on the entry mode): the mode layout differs, so "base followed by the basis changes" is judged on what it means - the heralded dual-rail
        # amplitudes are those of the base circuit transformed by the tensor product of the single-qubit operators (one photon per rail pair is conserved by them)
        ab = dual_amplitudes(env, base, in_vis, n)
        ac = dual_amplitudes(env, c, in_vis, n)
        B = list(basis(n))
        want = []
        for bo in B:
            acc = env.const(0)
            for k_, bi in enumerate(B):
                w = env.const(1)
                for q in range(n):
                    w = w * ops[q][bo[q]][bi[q]]
                acc = acc + w * ab[k_]
            want.append(acc)
        ref = None
        for x, y in zip(ac, want):
            yz = y.simp().n.is_zero() if env.mode == "exact" else abs(y) < 1e-9
            if not yz:
                ref = x / y
                break
        if ref is None:
            return False
        if env.mode != "exact" and abs(abs(ref) - 1) > 1e-9:
            return False
        return all((x - ref * y).simp().n.is_zero() if env.mode == "exact" else abs(x - ref * y) < 1e-9 for x, y in zip(ac, want))
    if c.n_modes != base.n_modes or c.heralds != base.heralds:
        return False
    N = base.n_modes
    vis = [m for m in range(N) if m not in base._internal_modes and m not in base.heralds["input"]]
    # visible output modes of the base circuit = modes not heralded at the output
    vis = [m for m in range(N) if m not in base.heralds["output"]]
    E = real_np.empty((N, N), dtype=object)
    for i in range(N):
        for j in range(N):
            E[i, j] = env.const(1 if i == j else 0)
    for q, op in enumerate(ops):
        a, b = vis[2 * q], vis[2 * q + 1]
        E[a, a], E[a, b], E[b, a], E[b, b] = op[0][0], op[0][1], op[1][0], op[1][1]
    W = E @ U0
    Uc = c.U_full
    # compare up to a phase per qubit block: test |Uc| rows ... simpler: exact equality, or equality after multiplying rows of a qubit by a unit phase
    if _eqmat(env, Uc, W):
        return True
    # phase freedom: find ratio on each qubit's rows
    for q in range(len(ops)):
        a, b = vis[2 * q], vis[2 * q + 1]
        ratio = None
        for j in range(N):
            for r in (a, b):
                wz = W[r, j].simp().n.is_zero() if env.mode == "exact" else abs(W[r, j]) < 1e-9
                if not wz:
                    ratio = Uc[r, j] / W[r, j]
                    break
            if ratio is not None:
                break
        if ratio is None:
            return False
        for j in range(N):
            for r in (a, b):
                W[r, j] = W[r, j] * ratio
    return _eqmat(env, Uc, W)


# ------------------------------------------------------------------------------------------------ C16
def process_bases(env, n, tier):
    import lightworks as lw
    from lightworks import qubit
    if n == 1:
        a, b, c_ = env.sym("alpha"), env.sym("beta"), env.sym("gamma")
        c = lw.Circuit(2)
        c.add(qubit.Rz(a))
        c.add(qubit.Ry(b))
        c.add(qubit.Rz(c_))
        yield "Rz(gamma)Ry(beta)Rz(alpha)", c
    else:
        for label, build in (("CNOT", lambda q: [q.CNOT()]), ("S x T then CZ", lambda q: None)):
            c = lw.Circuit(4)
            if label == "CNOT":
                c.add(qubit.CNOT(), 0)
            else:
                c.add(qubit.S(), 0)
                c.add(qubit.T(), 2)
                c.add(qubit.CZ(), 0)
                c.add(qubit.Ry(0.7), 2)
            yield label, c
        if env.mode == "native":
            # base circuits whose heralds are their OWN (groups unpacked, or declared with Circuit.herald): the qubit modes are then not 2i, 2i+1
            # of the full mode list
            c = lw.Circuit(4)
            c.add(qubit.S(), 0)
            c.add(qubit.Ry(0.4), 2)
            c.add(qubit.CNOT(target_qubit=0), 0)
            c.unpack_groups()
            yield "CNOT(target 0).(S x Ry(0.4)), groups unpacked", c
            c = lw.Circuit(4)
            c.add(qubit.H(), 0)
            c.add(qubit.CZ_Heralded(), 0)
            c.add(qubit.T(), 2)
            c.unpack_groups()
            yield "T.CZ_Heralded.(H x I), groups unpacked", c
    if n == 1 and env.mode == "native":
        # a one-qubit process whose circuit has an own zero-photon herald between the rails
        c = lw.Circuit(3)
        c.mode_swaps({1: 2, 2: 1})
        c.add(qubit.Ry(0.9), 0)
        c.add(qubit.Rz(0.3), 0)
        c.mode_swaps({1: 2, 2: 1})
        c.herald(0, 1)
        yield "Rz(0.3)Ry(0.9) on rails (0,2), own herald on mode 1", c


def gate_matrix_of(env, base, n):
    """V[out,in] on the dual-rail basis, normalised by the common success amplitude scale (sum_out |V[out,in]|^2 = 1)"""
    V = real_np.empty((2 ** n, 2 ** n), dtype=object)
    for bi, bits in enumerate(basis(n)):
        amps = dual_amplitudes(env, base, fock.dual_rail(bits), n)
        norm = env.const(0)
        for a in amps:
            norm = norm + a * conj(a)
        if env.mode == "exact":
            nr = env.ctx.root(norm.simp(), 2)
        else:
            nr = abs(norm) ** 0.5
        for bo in range(2 ** n):
            V[bo, bi] = amps[bo] / nr
    return V


def experiment_factory(env, n):
    def experiment(circuits, inputs):
        return [noiseless_result(env, c, s.s, n) for c, s in zip(circuits, inputs)]
    return experiment


def check_li(env, n, tier):
    from lightworks import tomography
    from lightworks.tomography import choi_from_unitary
    name = "lightworks/tomography/process_tomography_li.py:LIProcessTomography.process#xsym"
    for label, base in process_bases(env, n, tier):
        V = gate_matrix_of(env, base, n)
        tomo = tomography.LIProcessTomography(n, base, experiment_factory(env, n))
        choi = tomo.process()
        ref = choi_from_unitary(V)
        d = ref.shape[0]
        vals = [((a, b), choi[a, b] - ref[a, b]) for a in range(d) for b in range(d)]
        env.check_all_zero(f"{name}.choi[n={n};{label}]", vals, note="linear inversion on noiseless data returns exactly choi_from_unitary(V)")
        if env.mode == "native":
            fid = _fid(tomo, real_np.array(ref, dtype=complex))
            env.check_true(f"{name}.fidelity[n={n};{label}]", abs(fid - 1) < 1e-6, note="fidelity one against the reference", model=dict(fidelity=float(fid)))
        # the same tomography object used again after its circuit was extended in place: the result describes the NEW process
        from lightworks import qubit as _q
        if base._external_heralds["input"]:
            continue            # heralds declared on the base circuit itself: mode 0/1 of add() are not the rails of qubit 0 (the extension below would not be a qubit gate)
        base.add(_q.S(), 0)
        base.add(_q.H(), 0)
        V2 = gate_matrix_of(env, base, n)
        choi2 = tomo.process()
        ref2 = choi_from_unitary(V2)
        env.check_all_zero(f"{name}.second-run[n={n};{label}]", [((a, b), choi2[a, b] - ref2[a, b]) for a in range(d) for b in range(d)],
                           note="a second process() on the same object after the circuit was extended returns the Choi matrix of the extended circuit (no stale experiment data)")


def check_gate_fidelity(env, n, tier):
    from lightworks import tomography
    name = "lightworks/tomography/gate_fidelity.py:GateFidelity.process#xsym"
    for label, base in process_bases(env, n, tier):
        V = gate_matrix_of(env, base, n)
        gf = tomography.GateFidelity(n, base, experiment_factory(env, n))
        d = 2 ** n
        # targets: V itself, and fixed other unitaries
        one, zero, i = env.const(1), env.const(0), env.I()
        r2 = env.sqrt(2)
        others = {"X": [[zero, one], [one, zero]], "H": [[one / r2, one / r2], [one / r2, -one / r2]], "S": [[one, zero], [zero, i]]} if n == 1 else {}
        targets = [("V", V)] + [(k, real_np.array(v, dtype=object)) for k, v in others.items()]
        for tl, T in targets:
            got = gf.process(T)
            tr = env.const(0)
            for a in range(d):
                for b in range(d):
                    tr = tr + conj(T[b, a]) * V[b, a]
            want = (tr * conj(tr) + d) / (d * (d + 1))
            if env.mode == "exact":
                from vf.xlift.field import X
                if not isinstance(got, X):
                    # the code returns np.real(...).item(): a python float after the exact computation
                    env.check_true(f"{name}.formula[n={n};{label};target={tl}]", abs(complex(got) - complex(want)) < 1e-12,
                                   note="average gate fidelity (|tr U^dag V|^2 + d)/(d(d+1)); one when the target equals V", model=dict(got=str(got), want=str(complex(want))))
                    continue
            env.check_zero(f"{name}.formula[n={n};{label};target={tl}]", got - want, note="average gate fidelity (|tr U^dag V|^2 + d)/(d(d+1)); one when the target equals V")
        # same object after the circuit was extended in place: fidelity one against the NEW gate matrix
        from lightworks import qubit as _q
        base.add(_q.S(), 0)
        V2 = gate_matrix_of(env, base, n)
        got2 = gf.process(V2)
        env.check_true(f"{name}.second-run[n={n};{label}]", abs(complex(got2) - 1) < 1e-9,
                       note="a second process() on the same object after the circuit was extended measures the extended circuit (fidelity one against its own matrix)", model=dict(got=str(got2)))


def mle_family(n, tier="quick"):
    import lightworks as lw
    from lightworks import qubit
    extra = []
    if tier == "thorough":
        import random
        rnd = random.Random(16)
        if n == 1:
            for k in range(12):
                a, b, c_ = (round(rnd.uniform(-3.1, 3.1), 3) for _ in range(3))
                extra.append((f"Rz({c_})Ry({b})Rz({a})", [(qubit.Rz(a), 0), (qubit.Ry(b), 0), (qubit.Rz(c_), 0)]))
        else:
            extra = [("CZ.(H x T)", [(qubit.H(), 0), (qubit.T(), 2), (qubit.CZ(), 0)]), ("CNOT.SWAP.(S x Ry(1.1))", [(qubit.S(), 0), (qubit.Ry(1.1), 2), (qubit.SWAP((0, 1), (2, 3)), 0), (qubit.CNOT(), 0)]),
                     ("(Rx(0.4) x Rz(2.0)).CNOT(0)", [(qubit.CNOT(0), 0), (qubit.Rx(0.4), 0), (qubit.Rz(2.0), 2)])]

    def mk(n_, *adds):
        c = lw.Circuit(2 * n_)
        for g, m in adds:
            c.add(g, m)
        return c
    if n == 1:
        return [("H", mk(1, (qubit.H(), 0))), ("S", mk(1, (qubit.S(), 0))), ("T", mk(1, (qubit.T(), 0))), ("Ry(0.7)", mk(1, (qubit.Ry(0.7), 0))),
                ("Rx(0.7)", mk(1, (qubit.Rx(0.7), 0))), ("T.Ry(0.7)", mk(1, (qubit.Ry(0.7), 0), (qubit.T(), 0))), ("SX", mk(1, (qubit.SX(), 0))),
                ("Rz(1.3)Ry(0.7)Rz(0.4)", mk(1, (qubit.Rz(0.4), 0), (qubit.Ry(0.7), 0), (qubit.Rz(1.3), 0)))] + [(lab, mk(1, *adds)) for lab, adds in extra]
    return [("CNOT", mk(2, (qubit.CNOT(), 0))), ("CNOT(0)", mk(2, (qubit.CNOT(0), 0))), ("SWAP", mk(2, (qubit.SWAP((0, 1), (2, 3)), 0))),
            ("Ry(0.7).CZ.(S x T)", mk(2, (qubit.S(), 0), (qubit.T(), 2), (qubit.CZ(), 0), (qubit.Ry(0.7), 2)))] + [(lab, mk(2, *adds)) for lab, adds in extra]


def check_mle(env, n, tier):
    from lightworks import tomography
    from lightworks.tomography import choi_from_unitary
    name = "lightworks/tomography/process_tomography_mle.py:MLEProcessTomography.process#bnd"
    first_label = None
    for label, base in mle_family(n, tier):
        V = real_np.array(gate_matrix_of(env, base, n), dtype=complex)
        tomo = tomography.MLEProcessTomography(n, base, experiment_factory(env, n))
        choi = tomo.process()
        ref = choi_from_unitary(V)
        fid = _fid(tomo, ref)
        ev = real_np.linalg.eigvalsh((choi + choi.conj().T) / 2)
        d = 2 ** n
        t4 = choi.reshape(d, d, d, d)
        ptr = real_np.einsum("ijkj->ik", t4)
        env.check_true(f"{name}.mle-fidelity[n={n};{label}]", bool(fid >= 0.99), note="MLE estimate has fidelity >= 0.99 to choi_from_unitary(V) on noiseless data",
                       model=dict(label=label, fidelity=float(fid)))
        env.check_true(f"{name}.mle-cptp[n={n};{label}]", bool(ev.min() > -1e-6 and real_np.allclose(ptr, real_np.identity(d), atol=1e-4)),
                       note="MLE estimate is positive and trace preserving", model=dict(label=label, min_eig=float(ev.min()), partial_trace_dev=float(abs(ptr - real_np.identity(d)).max())))
        # the same object used again after the circuit was extended: the new estimate describes the new process, and the estimate handed out by the
        # earlier call is still what it was (results are not overwritten by later calls)
        if (n == 1 or first_label is None) and not base._external_heralds["input"]:
            first_label = label
            from lightworks import qubit as _q
            kept = real_np.array(choi, dtype=complex).copy()
            base.add(_q.S(), 0)
            base.add(_q.H(), 0)
            V2 = real_np.array(gate_matrix_of(env, base, n), dtype=complex)
            choi2 = tomo.process()
            fid2 = _fid(tomo, choi_from_unitary(V2))
            env.check_true(f"{name}.mle-second-run[n={n};{label}]", bool(fid2 >= 0.99), note="a second process() after the circuit was extended estimates the extended process",
                           model=dict(label=label, fidelity=float(fid2)))
            env.check_true(f"{name}.mle-earlier-result-kept[n={n};{label}]", choi2 is not choi and bool(real_np.abs(real_np.array(choi) - kept).max() < 1e-12),
                           note="the matrix returned by the first call is not changed by the second call", model=dict(label=label))


# ------------------------------------------------------------------------------------------------ units
def _run(mode, which, n, tier, assignment=None):
    env = Env(mode, assignment)
    {"state": check_state_tomography, "li": check_li, "gate": check_gate_fidelity, "mle": check_mle}[which](env, n, tier)
    if which == "state" and mode == "native" and n <= 2:
        check_live_parameters(env, n)
    return env.obligations


def unit(mode="exact", tier="quick", seed=0, which="state", n=1):
    from collections import OrderedDict
    agg = OrderedDict()
    if mode == "exact":
        from vf.xlift import hook
        for path, log, res in _capped_paths(hook, lambda: _run(mode, which, n, tier)):
            obs = res[1] if res[0] == "ok" else [dict(name=f"vf/tasks/t_tomo.py:{which}#xsym.runs[n={n}]", kind="xsym", result="refuted", backend="xlift", ms=0,
                                                      note=f"raised {type(res[1]).__name__}: {res[1]}", model=dict(which=which, n=n))]
            for o in obs:
                prev = agg.get(o["name"])
                if prev is None or (prev["result"] == "proved" and o["result"] != "proved"):
                    agg[o["name"]] = o
    else:
        for o in _run(mode, which, n, tier):
            o["kind"] = "bnd"
            o["result"] = {"proved": "bounded-pass", "refuted": "bounded-fail"}.get(o["result"], o["result"])
            o["cases"] = 1
            agg[o["name"]] = o
    obligations = list(agg.values())
    for o in obligations:
        if o["result"] in ("refuted", "bounded-fail"):
            o["replay_spec"] = dict(module="vf.tasks.t_tomo", func="replay", args=[which, n, o["name"], o.get("model")])
    return dict(status="ok", obligations=obligations, summary=f"{which}[n={n},{mode}]: {len(obligations)} obligations")


def _capped_paths(hook, task, cap=24):
    """symbolic paths with a cap: code under test that branches on the symbolic values more often than that is undecided (never a violation)"""
    from vf.xlift.field import Undecided
    try:
        yield from hook.run_paths(task, max_paths=cap)
    except Undecided as e:
        yield [], [], ("ok", [dict(name="vf/tasks/t_tomo.py#xsym.paths", kind="xsym", result="unknown", backend="xlift", ms=0, note=str(e), reason=f"more than {cap} symbolic paths: {e}")])


def replay(which, n, name, model):
    assignment = {}
    w = model or {}
    if isinstance(w, dict):
        w = w.get("witness", w)
    if isinstance(w, dict):
        for k, v in w.items():
            try:
                assignment[k] = float(v)
            except (TypeError, ValueError):
                pass
    obs = _run("native", which, n, "quick", assignment)
    bad = [o for o in obs if o["result"] == "refuted" and o["name"].split("[")[0] == name.split("[")[0]]
    return (f"parameters {assignment or 'generic'}: " + "; ".join(f"{o['name']}: {o.get('model')}" for o in bad[:2])) if bad else None


# ------------------------------------------------------------------------------------------------ C16: one object used over a fine scan / after a failed experiment
def unit_scans(tier="quick", seed=0):
    """native: one tomography object (LI, MLE, GateFidelity) used again and again while a circuit Parameter moves in steps of 0.004 rad (and once by a large step),
    and once after an experiment call that failed: every result describes the circuit as it is at that call (compared with choi_from_unitary / the fidelity formula
    of the current gate matrix)."""
    import lightworks as lw
    from lightworks import qubit, tomography
    from lightworks.tomography import choi_from_unitary
    env = Env("native")
    fails, n = [], 0

    def build():
        p = lw.Parameter(0.4)
        c = lw.Circuit(2)
        c.add(qubit.H(), 0)
        c.ps(1, p)
        return c, p

    def V_of(c):
        return real_np.array(gate_matrix_of(env, c, 1), dtype=complex)

    def formula(T, V):
        d = 2
        tr = real_np.trace(T.conj().T @ V)
        return float((abs(tr) ** 2 + d) / (d * (d + 1)))
    T_fixed = real_np.array([[1, 0], [0, 1j]], dtype=complex)
    steps = [0.004, 0.004, 0.004, 0.9, 0.004, -0.004]
    # fine scan
    for cls in ("LI", "MLE", "GateFidelity"):
        c, p = build()
        obj = {"LI": tomography.LIProcessTomography, "MLE": tomography.MLEProcessTomography, "GateFidelity": tomography.GateFidelity}[cls](1, c, experiment_factory(env, 1))
        for k, dth in enumerate([0.0] + steps):
            p.set(p.get() + dth)
            n += 1
            V = V_of(c)
            try:
                if cls == "GateFidelity":
                    got, want = obj.process(T_fixed), formula(T_fixed, V)
                    got_v = obj.process(V)
                    ok = abs(got - want) < 1e-7 and abs(got_v - 1) < 1e-7
                    detail = f"fidelity to a fixed target {got:.7f} (formula {want:.7f}), to its own matrix {got_v:.7f}"
                else:
                    choi = real_np.array(obj.process(), dtype=complex)
                    ref = real_np.array(choi_from_unitary(V), dtype=complex)
                    dev = float(real_np.abs(choi - ref).max())
                    ok = dev < (1e-7 if cls == "LI" else 0.1) and (cls == "LI" or _fid(obj, ref) >= 0.99)
                    detail = f"Choi matrix off the reference of the current circuit by {dev:.2e}"
            except Exception as e:  # noqa: BLE001
                ok, detail = False, f"raised {type(e).__name__}: {e}"
            if not ok:
                fails.append((dict(object=cls, step=k, parameter=round(p.get(), 4)), detail))
                break
    # a failed experiment in between: process() ok, circuit changes, process() fails inside the experiment, process() again
    for cls in ("LI", "GateFidelity"):
        c, p = build()
        state = {"fail": False}
        inner = experiment_factory(env, 1)

        def exp(circuits, inputs, inner=inner, state=state):
            if state["fail"]:
                raise RuntimeError("transient backend failure")
            return inner(circuits, inputs)
        obj = {"LI": tomography.LIProcessTomography, "GateFidelity": tomography.GateFidelity}[cls](1, c, exp)
        n += 1
        try:
            (obj.process() if cls == "LI" else obj.process(T_fixed))
            p.set(1.7)
            state["fail"] = True
            try:
                (obj.process() if cls == "LI" else obj.process(T_fixed))
            except RuntimeError:
                pass
            state["fail"] = False
            V = V_of(c)
            if cls == "LI":
                dev = float(real_np.abs(real_np.array(obj.process(), dtype=complex) - real_np.array(choi_from_unitary(V), dtype=complex)).max())
                if dev > 1e-7:
                    fails.append((dict(object=cls, history="ok, change, failed experiment, retry"), f"the retry returns a Choi matrix off the current circuit's by {dev:.3f}"))
            else:
                got, want = obj.process(T_fixed), formula(T_fixed, V)
                if abs(got - want) > 1e-7:
                    fails.append((dict(object=cls, history="ok, change, failed experiment, retry"), f"the retry returns fidelity {got:.6f}, the formula for the current circuit gives {want:.6f}"))
        except Exception as e:  # noqa: BLE001
            fails.append((dict(object=cls, history="ok, change, failed experiment, retry"), f"raised {type(e).__name__}: {e}"))
    o = dict(name="lightworks/tomography/process_tomography.py:ProcessTomography#bnd.scans-and-retries", kind="bnd", cases=n, result="bounded-fail" if fails else "bounded-pass",
             backend="native floats", ms=0, note="LI / MLE / GateFidelity objects reused over parameter steps of 0.004 rad and 0.9 rad and after a failed experiment: each result is that of the current circuit")
    if fails:
        o["failing_cases"] = [str(f[0]) for f in fails]
        o["model"] = dict(case=fails[0][0], observed=fails[0][1], n_failing=len(fails))
        o["replayed"] = f"{len(fails)} of {n} cases fail; first {fails[0][0]}: {fails[0][1]}"
    return dict(status="ok", obligations=[o], summary=f"tomography scans: {n} cases")
