"""C07 bounded stand-ins (native).  Randomness is replaced by a scripted oracle, so every check is deterministic:

 detector kernel   Detector._get_output with random() scripted: for every small state and EVERY boolean outcome sequence the
                   output equals the documented three-stage kernel (one efficiency draw per photon in mode order, then one dark
                   draw per mode, then the threshold cap), consuming exactly those draws.
 categorical law   np.random.default_rng is replaced inside the sampler modules by a recorder: the (values, p) handed to
                   Generator.choice are compared with the push-forward of the exact distribution through
                   threshold -> herald check -> herald removal -> post-selection / min-detection -> renormalisation.
 filters           sample_N_inputs with scripted draws: the returned counts equal the documented filter applied to the drawn
                   states; sample_N_outputs returns exactly N; equal seeds give equal results (real RNG).
The probabilistic conclusion (frequencies converge) rests on the assumed contracts of random.random / Generator.choice (A4).
"""
from __future__ import annotations

import itertools
import json
from collections import Counter

import numpy as np


# ------------------------------------------------------------------------------------------------ detector kernel
def spec_kernel(state, eff_outcomes, dark_outcomes, counting, eff_stage, dark_stage):
    """documented kernel: each photon detected independently (survives iff its draw says so), then at most one dark count per
    mode, then threshold cap"""
    out = list(state)
    k = 0
    if eff_stage:
        for m, n in enumerate(state):
            for _ in range(n):
                if not eff_outcomes[k]:
                    out[m] -= 1
                k += 1
    if dark_stage:
        for m in range(len(state)):
            if dark_outcomes[m]:
                out[m] += 1
    if not counting:
        out = [1 if c >= 1 else 0 for c in out]
    return out, k


def detector_cases():
    for n in (1, 2, 3):
        for st in itertools.product([0, 1, 2, 3], repeat=n):
            if sum(st) <= 3:
                yield list(st)


def check_detector():
    import lightworks as lw
    from lightworks import emulator
    import lightworks.emulator.components.detector as dmod
    fails, n = [], 0
    real_random = dmod.random
    try:
        for (eff, pd, counting), how in itertools.product(itertools.product((1.0, 0.6), (0.0, 0.2), (True, False)), ("constructor", "setters", "setters-after-use")):
            if how == "constructor":
                det = emulator.Detector(efficiency=eff, p_dark=pd, photon_counting=counting)
            else:
                # the same settings reached through the property setters of an object that was created (and possibly used) as an ideal detector
                det = emulator.Detector()
                if how == "setters-after-use":
                    det._get_output(lw.State([1, 0]))
                det.efficiency, det.p_dark, det.photon_counting = eff, pd, counting
            for st in (list(detector_cases()) if how == "constructor" else list(detector_cases())[::3]):
                k = sum(st) if eff < 1 else 0
                d = len(st) if pd > 0 else 0
                for outcome in itertools.product((False, True), repeat=k + d):
                    n += 1
                    eo, do = outcome[:k], outcome[k:]
                    # efficiency draw "detected" <=> random() <= eff ; dark draw <=> random() < p_dark
                    stream = [0.1 if x else 0.9 for x in eo] + [0.05 if x else 0.95 for x in do]
                    it = iter(stream)
                    used = [0]

                    def fake():
                        used[0] += 1
                        return next(it)
                    dmod.random = fake
                    try:
                        got = det._get_output(lw.State(list(st)))
                        got = list(got.s)
                        err = None
                    except StopIteration:
                        got, err = None, "consumed more random draws than the kernel specifies"
                    want, _ = spec_kernel(st, eo, do if pd > 0 else [False] * len(st), counting, eff < 1, pd > 0)
                    if err or got != want or used[0] != k + d:
                        fails.append((dict(state=st, efficiency=eff, p_dark=pd, photon_counting=counting, configured_by=how, draws=[bool(x) for x in outcome]),
                                      err or f"output {got}, kernel gives {want}; draws used {used[0]} of {k + d}"))
            # boundary values of the draws: detected iff random() <= efficiency, dark count iff random() < p_dark
            if eff < 1:
                dmod.random = lambda: eff
                n += 1
                if list(emulator.Detector(efficiency=eff, p_dark=0.0, photon_counting=True)._get_output(lw.State([1])).s) != [1]:
                    fails.append((dict(efficiency=eff, draw=eff), "a draw equal to the efficiency must still detect the photon"))
    finally:
        dmod.random = real_random
    # perfect detector returns the state
    s = lw.State([2, 0, 1])
    n += 1
    if emulator.Detector()._get_output(s) != s:
        fails.append((dict(state=[2, 0, 1]), "perfect detector changed the state"))
    return _obl("lightworks/emulator/components/detector.py:Detector._get_output#bnd.kernel", n, fails,
                "three-stage detector kernel as a deterministic function of the state and of every random outcome sequence (states <=3 modes, <=3 photons)")


def _obl(name, n, fails, note):
    o = dict(name=name, kind="bnd", cases=n, result="bounded-fail" if fails else "bounded-pass", backend="native, scripted oracle", ms=0, note=note,
             sample=str(fails[0][0]) if fails else None)
    if fails:
        o["failing_cases"] = [json.dumps(f[0], default=str) for f in fails]
        o["model"] = dict(case=fails[0][0], observed=fails[0][1], n_failing=len(fails))
        o["replayed"] = f"{len(fails)} of {n} cases fail; first {fails[0][0]}: {fails[0][1]}"
    return o


# ------------------------------------------------------------------------------------------------ categorical law / filters
class Recorder:
    def __init__(self, mode="record"):
        self.calls = []

    def default_rng(self, seed=None):
        rec = self

        class G:
            def choice(self, vals, p=None, size=None):
                rec.calls.append((list(vals), [float(x) for x in p], size))
                # deterministic draw: cycle through the values so that every one appears
                idx = [i % len(vals) for i in range(size)]
                out = np.zeros(size, dtype=object)
                for j, i in enumerate(idx):
                    out[j] = vals[i]
                return out
        return G()


class NPProxy:
    def __init__(self, rec):
        self.random = rec

    def __getattr__(self, k):
        return getattr(np, k)


def U(n, k):
    rng = np.random.default_rng(300 + 10 * n + k)
    a = rng.normal(size=(n, n)) + 1j * rng.normal(size=(n, n))
    q, _ = np.linalg.qr(a)
    return q


def setups():
    import lightworks as lw
    c = lw.Unitary(U(3, 1))
    yield "U3 in=[1,1,1]", c, [1, 1, 1]
    c = lw.Unitary(U(4, 2))
    c.herald(1, 3, 0)
    yield "U4+h(1,3,0) in=[1,1,0]", c, [1, 1, 0]
    c = lw.Circuit(3)
    c.add(lw.Unitary(U(3, 3)), 0)
    c.loss(0, 0.3)
    c.loss(2, 0.5)
    c.herald(0, 1)
    yield "lossy3+h(0,1,1) in=[2,1]", c, [2, 1]


def ps_variants(m):
    import lightworks as lw
    p = lw.PostSelection()
    p.add(0, (0, 1))
    first = lw.State([1] + [0] * (m - 1))
    # "fn-state": a predicate written for State objects, as documented ("takes a single argument, expected to be a State object")
    import numpy as np
    # "fn-numpy": a predicate whose result is a numpy boolean (np.sum(...) <= 1, np.all(...)); "fn-int": a truthy / falsy integer
    return [("none", None), ("rule", p), ("fn", lambda s: s[m - 1] <= 1), ("fn-state", lambda s: isinstance(s, lw.State) and s != first and s.n_photons >= 0),
            ("fn-numpy", lambda s: np.sum(np.array(list(s))[: max(m - 1, 1)]) <= 1), ("fn-int", lambda s: 1 if s[0] <= 1 else 0)]


def ps_ok(ps, s):
    if ps is None:
        return True
    import lightworks as lw
    if hasattr(ps, "validate"):
        return ps.validate(s)
    return bool(ps(lw.State(list(s))))


def check_categorical(kind):
    """sample_N_outputs of Sampler / QuickSampler: the categorical distribution handed to the RNG"""
    import lightworks as lw
    from lightworks import emulator
    import lightworks.emulator.simulation.sampler as smod
    import lightworks.emulator.simulation.quick_sampler as qmod
    fails, n = [], 0
    mod = smod if kind == "sampler" else qmod
    real_np = mod.np
    try:
        for label, circ, inp in setups():
            hout = circ.heralds["output"]
            m = circ.input_modes
            for (psl, ps), mind, counting in itertools.product(ps_variants(m), (0, 1, 2), (True, False)):
                if kind == "quick" and (mind or "lossy" in label):
                    continue
                n += 1
                rec = Recorder()
                mod.np = NPProxy(rec)
                case = dict(setup=label, post_select=psl, min_detection=mind, photon_counting=counting)
                try:
                    if kind == "sampler":
                        s = emulator.Sampler(circ, lw.State(inp), detector=emulator.Detector(photon_counting=counting))
                        exact = {tuple(k.s): v for k, v in s.probability_distribution.items()}
                        res = s.sample_N_outputs(50, post_select=ps, min_detection=mind, seed=1)
                    else:
                        s = emulator.QuickSampler(circ, lw.State(inp), photon_counting=counting, post_select=ps)
                        ref_s = emulator.Sampler(circ, lw.State(inp))
                        tot_in = sum(inp) + sum(circ.heralds["input"].values())
                        exact = {tuple(k.s): v for k, v in ref_s.probability_distribution.items() if sum(k.s) == tot_in}
                        res = s.sample_N_outputs(50, seed=1)
                    raised = None
                except Exception as e:  # noqa: BLE001
                    raised, res = type(e).__name__, None
                finally:
                    mod.np = real_np
                # push-forward of the exact distribution
                want = {}
                for o, p in exact.items():
                    if kind == "quick" and not counting and max(o) > 1:
                        continue       # quick sampler: at most one photon per mode for threshold detection
                    d = tuple(min(x, 1) for x in o) if (not counting and kind == "sampler") else o
                    if any(d[mm] != hout[mm] for mm in hout):
                        continue
                    v = tuple(x for i, x in enumerate(d) if i not in hout)
                    if not ps_ok(ps, list(v)) or sum(v) < mind:
                        continue
                    want[v] = want.get(v, 0.0) + p
                z = sum(want.values())
                if not want or z <= 0:
                    if raised is None:
                        fails.append((case, "empty accepted distribution but no error was raised"))
                    continue
                if raised:
                    fails.append((case, f"raised {raised}"))
                    continue
                vals, p, size = rec.calls[-1]
                got = {}
                for v, pp in zip(vals, p):
                    got[tuple(v.s)] = got.get(tuple(v.s), 0.0) + pp
                if size != 50 or sum(res.values()) != 50:
                    fails.append((case, f"requested 50 outputs, drew {size}, returned {sum(res.values())}"))
                if set(got) != set(want) or any(abs(got[k] - want[k] / z) > 1e-9 for k in want):
                    worst = max(set(got) | set(want), key=lambda k: abs(got.get(k, 0) - want.get(k, 0) / z))
                    fails.append((case, f"categorical law differs: P{list(worst)} = {got.get(worst, 0):.6f}, exact {want.get(worst, 0) / z:.6f}"))
                for st in res:
                    if len(st) != m or not ps_ok(ps, st.s) or st.n_photons < mind:
                        fails.append((case, f"returned state {st} violates heralds-removed / post-selection / min-detection"))
    finally:
        mod.np = real_np
    # threshold detectors cannot observe a herald of two photons: no output can satisfy it, so nothing may be returned (the Sampler refuses)
    c2 = lw.Unitary(U(4, 6))
    c2.herald(2, 3, 0)
    n += 1
    try:
        if kind == "sampler":
            r2 = emulator.Sampler(c2, lw.State([1, 1, 0]), detector=emulator.Detector(photon_counting=False)).sample_N_outputs(20, seed=1)
        else:
            r2 = emulator.QuickSampler(c2, lw.State([1, 1, 0]), photon_counting=False).sample_N_outputs(20, seed=1)
        fails.append((dict(setup="U4+h(2,3,0) in=[1,1,0]", photon_counting=False), f"returned {sum(r2.values())} samples although a click detector can never report the two herald photons"))
    except Exception:  # noqa: BLE001
        pass
    cls = "Sampler" if kind == "sampler" else "QuickSampler"
    f = "sampler.py" if kind == "sampler" else "quick_sampler.py"
    return _obl(f"lightworks/emulator/simulation/{f}:{cls}.sample_N_outputs#bnd.categorical-law", n, fails,
                "the distribution handed to Generator.choice = exact distribution pushed through threshold, herald check+removal, post-selection, min-detection, renormalised; exactly N returned")


def check_n_inputs():
    """sample_N_inputs with scripted draws: counts = documented filter of the drawn, detected states"""
    import lightworks as lw
    from lightworks import emulator
    import lightworks.emulator.simulation.sampler as smod
    import lightworks.emulator.components.detector as dmod
    fails, n = [], 0
    real_np, real_random = smod.np, dmod.random
    try:
        for label, circ, inp in setups():
            hout = circ.heralds["output"]
            m = circ.input_modes
            for (psl, ps), mind, (eff, pd, counting) in itertools.product(ps_variants(m), (0, 1, 2, 3, 4), ((1.0, 0.0, True), (0.5, 0.0, True), (1.0, 0.0, False), (0.7, 0.3, False), (1.0, 0.3, True))):
                n += 1
                rec = Recorder()
                smod.np = NPProxy(rec)
                # scripted detector oracle: alternate outcomes
                cyc = itertools.cycle([0.1, 0.9, 0.2, 0.95, 0.4, 0.05])
                stream = []

                def fake():
                    v = next(cyc)
                    stream.append(v)
                    return v
                dmod.random = fake
                case = dict(setup=label, post_select=psl, min_detection=mind, detector=[eff, pd, counting])
                try:
                    s = emulator.Sampler(circ, lw.State(inp), detector=emulator.Detector(efficiency=eff, p_dark=pd, photon_counting=counting))
                    pd_exact = s.probability_distribution
                    N = 3 * len(pd_exact)
                    res = s.sample_N_inputs(N, post_select=ps, min_detection=mind, seed=1)
                except Exception as e:  # noqa: BLE001
                    fails.append((case, f"raised {type(e).__name__}: {e}"))
                    continue
                finally:
                    smod.np, dmod.random = real_np, real_random
                if not rec.calls:
                    # returned without drawing: only right when no detected outcome can be accepted - no dark counts (they add photons after the
                    # circuit) and more photons demanded than any output of the distribution carries on the non-heralded modes
                    most = max(sum(x for i, x in enumerate(k.s) if i not in hout) for k in pd_exact)
                    if pd > 0 or mind <= most or sum(res.values()) != 0:
                        fails.append((case, f"returned {sum(res.values())} samples without drawing from the distribution although accepted outcomes exist (dark counts p_dark={pd}, min_detection={mind}, at most {most} photons)"))
                    continue
                vals, p, size = rec.calls[-1]
                exact = [float(v) for v in pd_exact.values()]
                if [tuple(v.s) for v in vals] != [tuple(k.s) for k in pd_exact] or any(abs(a - b) > 1e-12 for a, b in zip(p, exact)) or size != N:
                    fails.append((case, "inputs are not drawn from the sampler's exact distribution"))
                    continue
                # replay the documented pipeline on the same draws with the same oracle values
                drawn = [vals[i % len(vals)] for i in range(N)]
                it = iter(stream)
                want = Counter()
                for st in drawn:
                    st = list(st.s)
                    if not (eff == 1 and pd == 0 and counting):
                        out = list(st)
                        if eff < 1:
                            for mm, k in enumerate(st):
                                for _ in range(k):
                                    if next(it) > eff:
                                        out[mm] -= 1
                        if pd > 0:
                            for mm in range(len(st)):
                                if next(it) < pd:
                                    out[mm] += 1
                        if not counting:
                            out = [1 if c >= 1 else 0 for c in out]
                    else:
                        out = st
                    if any(out[mm] != hout[mm] for mm in hout):
                        continue
                    v = [x for i, x in enumerate(out) if i not in hout]
                    if ps_ok(ps, v) and sum(v) >= mind:
                        want[tuple(v)] += 1
                got = Counter({tuple(k.s): c for k, c in res.items()})
                if got != want:
                    fails.append((case, f"returned counts {dict(got)} differ from the documented filter {dict(want)}"))
    finally:
        smod.np, dmod.random = real_np, real_random
    return _obl("lightworks/emulator/simulation/sampler.py:Sampler.sample_N_inputs#bnd.pipeline", n, fails,
                "draw from the exact distribution -> detector -> herald check (after detection) -> herald removal -> post-selection -> min-detection (>=)")


def check_seeds():
    import lightworks as lw
    from lightworks import emulator
    fails, n = [], 0
    for label, circ, inp in setups():
        for det in (emulator.Detector(), emulator.Detector(efficiency=0.8, p_dark=0.0, photon_counting=False)):
            s = emulator.Sampler(circ, lw.State(inp), detector=det)
            q = emulator.QuickSampler(circ, lw.State(inp)) if "lossy" not in label else None
            import numpy as _np
            for seed in (0, 1, 99, _np.int64(5), 7.0):
                n += 1
                try:
                    a, b = s.sample_N_inputs(300, seed=seed), s.sample_N_inputs(300, seed=seed)
                except Exception as e:  # noqa: BLE001
                    fails.append((dict(setup=label, seed=repr(seed)), f"sample_N_inputs(seed={seed!r}) raised {type(e).__name__}: {str(e)[:120]}"))
                    continue
                if dict(a) != dict(b):
                    fails.append((dict(setup=label, seed=seed), "sample_N_inputs not reproducible for a fixed seed"))
                a, b = s.sample_N_outputs(300, seed=seed), s.sample_N_outputs(300, seed=seed)
                if dict(a) != dict(b) or sum(a.values()) != 300:
                    fails.append((dict(setup=label, seed=seed), "sample_N_outputs not reproducible / not exactly N"))
                if q is not None:
                    a, b = q.sample_N_outputs(300, seed=seed), q.sample_N_outputs(300, seed=seed)
                    if dict(a) != dict(b) or sum(a.values()) != 300:
                        fails.append((dict(setup=label, seed=seed), "QuickSampler.sample_N_outputs not reproducible / not exactly N"))
            # single-shot sampling returns states of the detected distribution's support
            import random
            random.seed(4)
            n += 1
            sup = {tuple(k.s) for k in s.probability_distribution}
            for _ in range(50):
                st = s.sample()
                if det.efficiency == 1 and det.photon_counting and tuple(st.s) not in sup:
                    fails.append((dict(setup=label), f"sample() returned {st} outside the support"))
                    break
    return _obl("lightworks/emulator/simulation/sampler.py:Sampler/QuickSampler#bnd.seeded", n, fails, "fixed seed => identical results; N-outputs methods return exactly N")


def check_single_shot():
    """sample(): the state returned for a uniform draw r is the one whose cumulative-probability interval contains r, the intervals being those of the
    reported distribution normalised to one - also when the package-wide probability threshold has truncated a lossless distribution (total < 1)"""
    import random as _random
    import lightworks as lw
    from lightworks import emulator
    import lightworks.emulator.simulation.sampler as smod
    import lightworks.emulator.simulation.quick_sampler as qmod
    fails, n = [], 0
    old_thr = lw.settings.sampler_probability_threshold
    try:
        for thr in (1e-9, 0.01, 0.03):
            lw.settings.sampler_probability_threshold = thr
            for label, circ, inp in setups():
                for kind in ("sampler", "quick"):
                    if kind == "quick" and "lossy" in label:
                        continue
                    try:
                        obj = emulator.Sampler(circ, lw.State(inp)) if kind == "sampler" else emulator.QuickSampler(circ, lw.State(inp))
                        pd = dict(obj.probability_distribution)
                    except Exception:  # noqa: BLE001
                        continue            # nothing survives the threshold for this configuration
                    if not pd:
                        continue
                    tot = sum(float(v) for v in pd.values())
                    cum, edges = 0.0, []
                    for st, p in pd.items():
                        cum += float(p) / tot
                        edges.append((tuple(st.s), cum))
                    mod = smod if kind == "sampler" else qmod
                    for r in [0.0, 0.999999] + [e - 1e-9 for _, e in edges] + [min(e + 1e-9, 0.9999999) for _, e in edges[:-1]] + [0.37, 0.62]:
                        if r < 0:
                            continue
                        n += 1
                        want = next(s_ for s_, e in edges if r < e) if r < edges[-1][1] else edges[-1][0]
                        # the library draws with random.random(): scripted here
                        real = getattr(mod, "random", None)
                        patched = []
                        for holder in (mod, _random):
                            if hasattr(holder, "random") and callable(getattr(holder, "random")):
                                patched.append((holder, holder.random))
                                holder.random = (lambda r=r: r)
                        try:
                            got = obj.sample()
                        except Exception as e:  # noqa: BLE001
                            fails.append((dict(setup=label, kind=kind, threshold=thr, draw=r), f"sample() raised {type(e).__name__}: {e}"))
                            continue
                        finally:
                            for holder, f_ in patched:
                                holder.random = f_
                        if kind == "sampler":
                            full = tuple(got.s)
                            ok = full == want
                        else:
                            ok = tuple(got.s) == want
                        if not ok:
                            fails.append((dict(setup=label, kind=kind, threshold=thr, draw=r), f"sample() returned {tuple(got.s)} for the uniform draw {r}; the normalised cumulative distribution puts it in {want}"))
                            break
    finally:
        lw.settings.sampler_probability_threshold = old_thr
    return _obl("lightworks/emulator/simulation/sampler.py:Sampler/QuickSampler.sample#bnd.single-shot-law", n, fails,
                "sample() inverts the cumulative distribution of the reported (normalised) distribution, also when the global probability threshold truncated it")


def unit(tier="quick", seed=0, which="detector"):
    f = dict(detector=check_detector, sampler=lambda: check_categorical("sampler"), quick=lambda: check_categorical("quick"), inputs=check_n_inputs, seeds=check_seeds,
             single=check_single_shot)[which]
    o = f()
    if o["result"] == "bounded-fail":
        o["replay_spec"] = dict(module="vf.tasks.t_sampling", func="replay", args=[which])
    return dict(status="ok", obligations=[o], summary=f"{which}: {o['cases']} cases")


def replay(which):
    o = unit(which=which)["obligations"][0]
    return o.get("replayed")


if __name__ == "__main__":
    for w in ("detector", "sampler", "quick", "inputs", "seeds"):
        r = unit(which=w)
        o = r["obligations"][0]
        print(r["summary"], o["result"], (o.get("replayed") or "")[:700])
