"""C18 bounded stand-ins (mechanism C, labelled): runtime contracts evaluated on exhaustive small domains
for functions whose unbounded contract is not (yet) discharged by pyvc."""
import itertools


def _result(name, n, fails, sample, note):
    o = dict(name=name, kind="bnd", cases=n, result="bounded-fail" if fails else "bounded-pass", backend="native enumeration", ms=0, sample=sample, note=note)
    if fails:
        o["model"] = dict(case=fails[0][0], observed=fails[0][1], n_failing=len(fails))
        o["failing_cases"] = [str(f[0]) for f in fails]
        o["replayed"] = f"{len(fails)} of {n} cases fail; first: {fails[0][0]} -> {fails[0][1]}"
    return o


def herald_roundtrip():
    from lightworks.sdk.utils.heralding_utils import add_heralds_to_state, remove_heralds_from_state
    import lightworks as lw
    n, fails, sample = 0, [], None
    for ns in range(0, 4):
        for vals in itertools.product([0, 1, 2], repeat=ns):
            vals = list(vals)
            for nh in range(0, 4):
                for keys in itertools.permutations(range(ns + nh), nh):
                    her = {k: 5 + j for j, k in enumerate(keys)}
                    for as_state in (False, True):
                        n += 1
                        st = lw.State(list(vals)) if as_state else list(vals)
                        full = add_heralds_to_state(st, her)
                        exp_full = []
                        it = iter(vals)
                        for i in range(ns + nh):
                            exp_full.append(her[i] if i in her else next(it))
                        case = (vals, her, as_state)
                        sample = sample or str(case)
                        if list(full) != exp_full:
                            fails.append((case, f"add -> {full}, expected {exp_full}"))
                            continue
                        for order in (list(keys), sorted(keys), sorted(keys, reverse=True)):
                            arg = lw.State(list(full)) if as_state else list(full)
                            back = remove_heralds_from_state(arg, list(order))
                            if list(back) != vals:
                                fails.append((case, f"remove(add(s,h), {order}) = {back}"))
                                break
                            if (as_state and arg.s != list(full)) or (not as_state and arg != list(full)):
                                fails.append((case, "remove_heralds_from_state modified its argument"))
                                break
    return _result("lightworks/sdk/utils/heralding_utils.py:remove_heralds_from_state#bnd.roundtrip", n, fails, sample,
                   "remove(add(s,h), keys(h) in any order) == s; states <=3 modes, <=3 heralds, all positions and key orders")


def state_laws():
    import lightworks as lw
    n, fails = 0, []
    lists = [list(v) for k in range(0, 4) for v in itertools.product([0, 1, 2], repeat=k)]
    for a in lists:
        A = lw.State(list(a))
        n += 1
        if A.s is A.s or A.s != a or len(A) != len(a) or A.n_photons != sum(a) or A.n_modes != len(a):
            fails.append((a, "s / len / n_photons inconsistent"))
        s = A.s
        s.append(9)
        if A.s != a:
            fails.append((a, "mutating the list returned by .s changed the state"))
        # the list handed to the constructor stays the caller's: editing it afterwards does not change the state
        mine = list(a)
        B = lw.State(mine)
        h0 = hash(B)
        mine.append(7)
        if mine[:1]:
            mine[0] += 3
        if B.s != a or hash(B) != h0 or B != lw.State(list(a)):
            fails.append((a, f"editing the list that was passed to State(...) changed the state to {B}"))
        for setter in (lambda: setattr(A, "s", [1]), lambda: A.__setitem__(0, 1), lambda: setattr(A, "n_modes", 3)):
            try:
                setter()
                fails.append((a, "setter accepted"))
            except lw.StateError:
                pass
        for i in range(len(a) + 1):
            for j in range(i, len(a) + 1):
                if not isinstance(A[i:j], lw.State) or A[i:j].s != a[i:j]:
                    fails.append((a, f"slice {i}:{j}"))
        # integer indexing like a list: every index from -n to n-1 gives that occupation, anything beyond raises IndexError
        for i in range(-len(a) - 2, len(a) + 2):
            try:
                got = A[i]
                if not -len(a) <= i < len(a) or got != a[i]:
                    fails.append((a, f"state[{i}] = {got}"))
            except IndexError:
                if -len(a) <= i < len(a):
                    fails.append((a, f"state[{i}] raised IndexError although the list has that position"))
            except Exception as e:  # noqa: BLE001
                fails.append((a, f"state[{i}] raised {type(e).__name__}"))
        # augmented assignment re-binds the name; the state object that other references still hold is what it was (immutability through the API)
        if len(a) <= 2:
            keep = lw.State(list(a))          # an object of its own: a library that mutates it must not derail the remaining checks on A
            h_keep, s_keep = hash(keep), keep.s
            held = {keep: "x"}
            w = keep
            try:
                w += lw.State([5, 6])
                if w.s != a + [5, 6]:
                    fails.append((a, f"state += State([5,6]) gave {w}"))
            except Exception as e:  # noqa: BLE001
                fails.append((a, f"state += State raised {type(e).__name__}"))
            if keep.s != s_keep or hash(keep) != h_keep or held.get(lw.State(list(a))) != "x" or (w is keep):
                fails.append((a, f"`x += State([5,6])` changed the State object itself: another reference now sees {keep}"))
        # every slice form, as for a list: omitted / negative / out-of-range bounds, steps of either sign; mode and photon counts of the slice are
        # those of the selected occupations
        bounds = [None, 0, 1, 2, -1, -2, len(a), len(a) + 1, -len(a) - 1]
        for lo_, hi_, st_ in itertools.product(bounds, bounds, (None, 1, 2, -1, -2)):
            sl = slice(lo_, hi_, st_)
            try:
                got = A[sl]
            except Exception as e:  # noqa: BLE001
                fails.append((a, f"slice {sl} raised {type(e).__name__}"))
                break
            if not isinstance(got, lw.State) or got.s != a[sl] or got.n_modes != len(a[sl]) or got.n_photons != sum(a[sl]):
                fails.append((a, f"state[{lo_}:{hi_}:{st_}] = {got}, the list gives {a[sl]}"))
                break
        # the same occupations given as numpy integers / a numpy integer array: an equal state, hence an equal hash (and equal text)
        import numpy as _np
        for variant, mk in (("numpy int64 entries", lambda: lw.State([_np.int64(x) for x in a])), ("numpy integer array", lambda: lw.State(_np.array(a, dtype=int))),
                            ("numpy int32 entries", lambda: lw.State([_np.int32(x) for x in a]))):
            try:
                V = mk()
            except Exception:  # noqa: BLE001
                continue        # refused: allowed
            try:
                same = (V == A)
            except Exception:  # noqa: BLE001
                same = False
            if same and (hash(V) != hash(A) or str(V) != str(A) or len({V, A}) != 1 or {A: 1}.get(V) != 1):
                fails.append((a, f"State built from {variant} equals State({a}) but hashes / prints differently ({V!s} vs {A!s})"))
            if same and len(a) and ((V + A).s != a + a or hash(V + A) != hash(A + A)):
                fails.append((a, f"State built from {variant}: sum with the list state hashes differently"))
        for b in lists:
            B = lw.State(list(b))
            n += 1
            if (A == B) != (a == b) or (a == b and hash(A) != hash(B)):
                fails.append(((a, b), "eq/hash"))
            if (A + B).s != a + b:
                fails.append(((a, b), "add"))
            if len(a) == len(b):
                if A.merge(B).s != [x + y for x, y in zip(a, b)] or A.merge(B) != B.merge(A):
                    fails.append(((a, b), "merge"))
            else:
                try:
                    A.merge(B)
                    fails.append(((a, b), "merge accepted different lengths"))
                except ValueError:
                    pass
    for a, b, c in itertools.product(lists[:14], repeat=3):
        n += 1
        A, B, C = lw.State(a), lw.State(b), lw.State(c)
        if (A + B) + C != A + (B + C):
            fails.append(((a, b, c), "associativity of +"))
    return _result("lightworks/sdk/state/state.py:State#bnd.laws", n, fails, "([0,1],[2])", "immutability, eq/hash, +, merge, slices on all lists over {0,1,2} of length <=3")


def annotated_laws():
    from lightworks.emulator.state import AnnotatedState
    from lightworks.emulator.utils import AnnotatedStateError
    n, fails = 0, []
    modes = [[], [0], [1], [0, 1], [1, 0], [0, 0], [2, 0, 1]]
    states = [list(v) for k in range(0, 3) for v in itertools.product(modes, repeat=k)]
    def norm(s):
        return [sorted(m) for m in s]
    for a in states:
        A = AnnotatedState([list(m) for m in a])
        n += 1
        if A.s != norm(a) or A.n_photons != sum(len(m) for m in a) or len(A) != len(a):
            fails.append((a, "s/n_photons/len"))
        s = A.s
        if s:
            s[0].append(7)
        if A.s != norm(a):
            fails.append((a, "mutating .s result changed the state"))
        # the constructor's argument stays the caller's: editing its per-mode lists (or the outer list) afterwards does not reach the state,
        # whatever the number of labels on a mode (0, 1 or more)
        src = [list(m) for m in a]
        A2 = AnnotatedState(src)
        h2, str2 = hash(A2), str(A2)
        for m in src:
            m.append(9)
        src.append([3])
        if A2.s != norm(a) or hash(A2) != h2 or str(A2) != str2 or A2 != AnnotatedState([list(m) for m in a]):
            fails.append((a, "editing the nested list passed to the constructor changed the state afterwards"))
        # every other way the API hands out per-mode label lists: item access, iteration, slices
        h0 = hash(A)
        for i in range(len(a)):
            A[i].append(8)
        if A.s != norm(a) or hash(A) != h0:
            fails.append((a, "mutating the list returned by state[i] changed the state"))
            A = AnnotatedState([list(m) for m in a])
        for m in A:
            m.append(6)
        if A.s != norm(a) or hash(A) != h0:
            fails.append((a, "mutating the lists yielded by iteration changed the state"))
            A = AnnotatedState([list(m) for m in a])
        for m in A[0:len(a)].s:
            m.append(5)
        sl = A[0:len(a)]
        for i in range(len(a)):
            sl[i].append(4)
        if A.s != norm(a) or hash(A) != h0:
            fails.append((a, "mutating a slice of the state changed the state"))
            A = AnnotatedState([list(m) for m in a])
        try:
            A.s = []
            fails.append((a, "setter accepted"))
        except AnnotatedStateError:
            pass
        for b in states:
            B = AnnotatedState([list(m) for m in b])
            n += 1
            if (A == B) != (norm(a) == norm(b)) or (norm(a) == norm(b) and hash(A) != hash(B)):
                fails.append(((a, b), "eq/hash with label order irrelevant"))
            if (A + B).s != norm(a + b):
                fails.append(((a, b), "add"))
            if len(a) == len(b):
                if A.merge(B).s != norm([x + y for x, y in zip(a, b)]) or A.merge(B) != B.merge(A):
                    fails.append(((a, b), "merge"))
    return _result("lightworks/emulator/state/annotated_state.py:AnnotatedState#bnd.laws", n, fails, "[[0,1],[]]", "label multisets, order irrelevant; <=2 modes, <=3 labels per mode")


def random_matrices():
    import numpy as np
    import lightworks as lw
    n, fails = 0, []
    # integral seeds of other numeric types give the matrices of the int seed (documented: "converted to an integer")
    for alt, base in ((2.0, 2), (np.float64(7), 7), (np.int32(5), 5), (np.int64(3), 3), (31.0, 31)):
        for N in (2, 4):
            n += 1
            try:
                if not np.array_equal(lw.random_unitary(N, seed=alt), lw.random_unitary(N, seed=base)):
                    fails.append(((repr(alt), N), f"random_unitary(seed={alt!r}) differs from seed={base}"))
                if not np.array_equal(lw.random_permutation(N, seed=alt), lw.random_permutation(N, seed=base)):
                    fails.append(((repr(alt), N), f"random_permutation(seed={alt!r}) differs from seed={base}"))
            except Exception as e:  # noqa: BLE001
                fails.append(((repr(alt), N), f"seed {alt!r} raised {type(e).__name__}: {e}"))
    for seed in (0, 1, 2, 3, 7, 42, 2 ** 31 - 1):
        for N in (1, 2, 3, 4, 5):
            n += 1
            u1 = lw.random_unitary(N, seed=seed)
            keep = u1.copy()
            u1 *= 0.5                                   # the caller edits the returned matrix in place; the next seeded call must not be affected
            u2 = lw.random_unitary(N, seed=seed)
            u1 = keep
            if u2 is u1 or not np.array_equal(u1, u2):
                fails.append(((seed, N), "random_unitary not reproducible (or returns a shared array that a caller has edited)"))
            if u1.shape != (N, N) or not np.allclose(u1.conj().T @ u1, np.identity(N), atol=1e-9):
                fails.append(((seed, N), "random_unitary not unitary"))
            p1 = lw.random_permutation(N, seed=seed)
            keepp = p1.copy()
            p1 *= 0
            p2 = lw.random_permutation(N, seed=seed)
            p1 = keepp
            if not np.array_equal(p1, p2):
                fails.append(((seed, N), "random_permutation not reproducible"))
            if sorted(map(tuple, p1.real.astype(int).tolist())) != sorted(map(tuple, np.identity(N, dtype=int).tolist())) or not np.allclose(p1.imag, 0):
                fails.append(((seed, N), "random_permutation not a permutation matrix"))
    for bad in (True, 1.5, "a"):
        n += 1
        try:
            lw.random_unitary(2, seed=bad)
            fails.append((bad, "invalid seed accepted"))
        except TypeError:
            pass
    return _result("lightworks/sdk/utils/random_utils.py:random_unitary/random_permutation#bnd.seeded", n, fails, "(seed=0,N=3)",
                   "validity and reproducibility for seeds {0,1,2,3,7,42,2^31-1}, N<=5 (distribution: assumed scipy/numpy)")


def unit(tier="quick", seed=0, which="all"):
    fns = dict(roundtrip=herald_roundtrip, state=state_laws, annotated=annotated_laws, random=random_matrices)
    obs = [f() for k, f in fns.items() if which in ("all", k)]
    for o in obs:
        if o["result"] == "bounded-fail":
            o["replay_spec"] = dict(module="vf.tasks.t_state", func="replay", args=[o["name"]])
    return dict(status="ok", obligations=obs, summary="; ".join(f"{o['name'].split(':')[-1]}: {o['cases']} cases" for o in obs))


def replay(name):
    for o in unit()["obligations"]:
        if o["name"] == name and o["result"] == "bounded-fail":
            return o["replayed"]
    return None
