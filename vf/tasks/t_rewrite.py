"""C09 (+C10 late binding) bounded stand-in, exact arithmetic under xlift: circuit rewrites preserve the transformation.

Programs over an alphabet of components on 4 visible modes (swaps, phase shifters, adjacent and non-adjacent beam splitters in
both conventions and both mode orders, loss, barrier, unitary block, plain group, heralded group); every rewrite and every
ordered pair of rewrites is applied; U_full, heralds, input size must be unchanged (hence every heralded amplitude), plus the
structural post-conditions of the property statement.
"""
from __future__ import annotations

import itertools
from fractions import Fraction as F

import numpy as real_np

from vf.xlift.env import Env
from vf.tasks.t_compile import block_unitary

N = 4


def alphabet():
    return [
        ("swaps", ((0, 1), (1, 0))), ("swaps", ((2, 3), (3, 2))), ("swaps", ((0, 2), (2, 1), (1, 0))), ("swaps", ((1, 3), (3, 1))),
        ("ps", 0), ("ps", 2), ("bs", 0, 1, "Rx"), ("bs", 2, 1, "H"), ("bs", 0, 3, "H"), ("bs", 3, 0, "H"), ("bs", 1, 3, "Rx"), ("bs", 3, 1, "H"),
        ("loss", 1), ("barrier",), ("um", 1, 2), ("group", 2), ("hgroup", 1),
        # a loss element whose value is exactly zero (it still owns a loss mode of U_full); a plain group at mode 0 (after a heralded group it spans that
        # group's ancilla mode)
        ("loss0", 2), ("group", 0),
        # a unitary block that is diagonal with unit-modulus entries other than 1 (a phase gate such as Z, S, T padded to two modes): it acts on its modes like
        # any other block
        ("umdiag", 1),
    ]


def build(env, prog, params=None, observe=False):
    import lightworks as lw
    c = lw.Circuit(N)
    for idx, comp in enumerate(prog):
        if observe:
            c.get_all_params()          # the parameter list is also read between construction steps: later additions must still be listed
        k = comp[0]
        if k == "swaps":
            c.mode_swaps(dict(comp[1]))
        elif k == "ps":
            c.ps(comp[1], params[idx] if params else env.const(F(idx + 1, 7)))
        elif k == "bs":
            c.bs(comp[1], comp[2], reflectivity=(params[idx] if params else env.const(F(idx + 2, 9))), convention=comp[3])
        elif k == "loss":
            c.loss(comp[1], params[idx] if params else env.const(F(idx + 1, 5)))
        elif k == "loss0":
            c.loss(comp[1], params[idx] if params else env.const(0))
        elif k == "barrier":
            c.barrier()
        elif k == "um":
            c.add(lw.Unitary(block_unitary(env, comp[2], idx)), comp[1])
        elif k == "umdiag":
            import numpy as _np
            c.add(lw.Unitary(_np.array([[env.const(-1), env.const(0)], [env.const(0), env.I()]], dtype=object) if env.mode == "exact" else _np.array([[-1, 0], [0, 1j]], dtype=complex)), comp[1])
        elif k == "group":
            g = lw.Circuit(2)
            g.bs(1, 0, reflectivity=(params[idx] if params else env.const(F(idx + 1, 6))), convention="H")
            g.mode_swaps({0: 1, 1: 0})
            c.add(g, comp[1], group=True, name="g")
        elif k == "hgroup":
            g = lw.Circuit(4)
            g.bs(0, 3, reflectivity=(params[idx] if params else env.const(F(idx + 2, 7))), convention="H")     # non-adjacent, inside a heralded group
            g.mode_swaps({1: 2, 2: 1})
            g.herald(1, 0, 3)
            c.add(g, comp[1])
    return c


REWRITES = ["unpack_groups", "compress_mode_swaps", "remove_non_adjacent_bs", "copy", "copy_freeze"]


def apply(c, rw):
    if rw == "copy":
        return c.copy()
    if rw == "copy_freeze":
        return c.copy(freeze_parameters=True)
    getattr(c, rw)()
    return c


def walk(spec):
    from lightworks.sdk.circuit.components import Group
    for s in spec:
        yield s
        if isinstance(s, Group):
            yield from walk(s.circuit_spec)


def n_components(spec):
    return len(spec)


def check_one(env, label, prog, rws):
    from lightworks.sdk.circuit.components import BeamSplitter, Group
    name = "lightworks/sdk/circuit/circuit.py:Circuit.rewrite#xsym"
    c0 = build(env, prog)
    U0 = c0.U_full
    h0 = c0.heralds
    im0 = c0.input_modes
    n0 = n_components(c0._get_circuit_spec())
    c = c0.copy() if rws[0] not in ("copy", "copy_freeze") else c0
    cur = c
    for rw in rws:
        ncomp_before = n_components(cur._get_circuit_spec())
        cur = apply(cur, rw)
        spec = cur._get_circuit_spec()
        if rw == "unpack_groups":
            env.check_true(f"{name}.no-group[{label}]", not any(isinstance(s, Group) for s in spec), note="no group remains after unpack_groups",
                           model=dict(program=label))
        if rw == "remove_non_adjacent_bs":
            env.check_true(f"{name}.adjacent-bs[{label}]", all(abs(s.mode_1 - s.mode_2) == 1 for s in walk(spec) if isinstance(s, BeamSplitter)),
                           note="no beam splitter on non-adjacent modes remains, also inside groups", model=dict(program=label))
        if rw == "compress_mode_swaps":
            env.check_true(f"{name}.not-longer[{label}]", n_components(spec) <= ncomp_before, note="swap compression does not add components",
                           model=dict(program=label))
    U1 = cur.U_full
    ok = env.check_true(f"{name}.shape[{label}]", U1.shape == U0.shape and cur.heralds == h0 and cur.input_modes == im0 and cur.n_modes == c0.n_modes,
                        note="heralds, input size and dimensions unchanged", model=dict(program=label, heralds=[h0, cur.heralds]))
    if ok:
        n = U0.shape[0]
        env.check_all_zero(f"{name}.unitary[{label}]", [((i, j), U1[i, j] - U0[i, j]) for i in range(n) for j in range(n)],
                           note="U_full unchanged by the rewrite sequence (hence every heralded amplitude)")
    # no shared mutable structure: editing the rewritten object leaves the original alone, and vice versa
    if cur is not c0:
        cur.ps(0, env.const(F(1, 3)))
        U0b = c0.U_full
        n = U0.shape[0]
        same = U0b.shape == U0.shape and all(_z(env, U0b[i, j] - U0[i, j]) for i in range(n) for j in range(n))
        env.check_true(f"{name}.independent[{label}]", same and n_components(c0._get_circuit_spec()) == n0,
                       note="editing the rewritten circuit does not change the original", model=dict(program=label))


def _z(env, v):
    return v.simp().n.is_zero() if env.mode == "exact" else abs(v) < 1e-9


def programs(tier):
    A = alphabet()
    progs = list(itertools.product(A, repeat=2))
    import random
    rnd = random.Random(11)
    swaps = [a for a in A if a[0] == "swaps"]
    # swap-rich programs of length 3..5 (commutation of a later swap past intermediate components)
    for _ in range(400 if tier == "quick" else 3000):
        L = rnd.choice((3, 4, 5))
        progs.append(tuple(rnd.choice(swaps) if rnd.random() < 0.55 else rnd.choice(A) for _ in range(L)))
    # swaps on both sides of every kind of group, with and without an earlier heralded group whose ancilla mode the later group spans: the group must
    # block every mode of its (ancilla-widened) range
    groups = [a for a in A if a[0] in ("group", "hgroup", "umdiag", "um")]
    for g in groups:
        for s1 in swaps:
            for s2 in (swaps if tier == "thorough" else swaps[::2] + [s1]):
                progs.append((s1, g, s2))
                if g[0] == "group":
                    progs.append((("hgroup", 1), s1, g, s2))
    return list(dict.fromkeys(progs))


def plabel(prog, rws):
    return ";".join(",".join(str(x) for x in c) for c in prog).replace(" ", "") + "|" + ">".join(rws)


def unit(mode="exact", tier="quick", seed=0, shard=0, nshards=1, only=None):
    from collections import OrderedDict
    agg = OrderedDict()
    rw_seqs = [(r,) for r in REWRITES] + ([p for p in itertools.permutations(REWRITES[:3], 2)] if True else [])
    n = 0
    todo = [p for k, p in enumerate(programs(tier)) if k % nshards == shard]
    for prog in todo:
        for rws in rw_seqs:
            label = plabel(prog, rws)
            if only is not None and label != only:
                continue
            n += 1
            if mode == "exact":
                from vf.xlift import hook
                for path, log, res in hook.run_paths(lambda: _one(mode, label, prog, rws)):
                    obs = res[1] if res[0] == "ok" else [dict(name=f"lightworks/sdk/circuit/circuit.py:Circuit.rewrite#xsym.runs[{label}]", kind="xsym",
                                                              result="refuted", backend="xlift", ms=0, note=f"raised {type(res[1]).__name__}: {res[1]}",
                                                              model=dict(program=label))]
                    _merge(agg, obs, label)
            else:
                try:
                    _merge(agg, _one(mode, label, prog, rws), label)
                except Exception as e:  # noqa: BLE001
                    _merge(agg, [dict(name=f"lightworks/sdk/circuit/circuit.py:Circuit.rewrite#xsym.runs[{label}]", kind="xsym", result="refuted", backend="native",
                                      ms=0, note=f"raised {type(e).__name__}: {e}", model=dict(program=label))], label)
    obligations = list(agg.values())
    for o in obligations:
        if o["result"] in ("refuted", "bounded-fail"):
            o["replay_spec"] = dict(module="vf.tasks.t_rewrite", func="replay", args=[o["model"]["case"]])
    return dict(status="ok", obligations=obligations, summary=f"shard {shard}/{nshards}: {n} (program, rewrite sequence) cases")


def _merge(agg, obs, label):
    for o in obs:
        clause = o["name"].split("[")[0]
        a = agg.get(clause)
        if a is None:
            a = agg[clause] = dict(name=clause, kind="bnd", result="bounded-pass", backend=o["backend"], ms=0.0, cases=0, note=o.get("note"), sample=label)
        a["cases"] += 1
        a["ms"] += o.get("ms", 0)
        if o["result"] != "proved":
            if a["result"] == "bounded-pass":
                a["result"] = "bounded-fail" if o["result"] == "refuted" else "unknown"
                a["model"] = dict(case=label, detail=o.get("model"), note=o.get("note"))
            a.setdefault("failing_cases", []).append(label)


def _one(mode, label, prog, rws):
    env = Env(mode)
    check_one(env, label, prog, rws)
    return env.obligations


def parse(label):
    p, r = label.split("|")
    prog = []
    for c in p.split(";"):
        f = c.split(",")
        if f[0] == "swaps":
            prog.append(("swaps", eval(",".join(f[1:]))))
        elif f[0] in ("ps", "loss", "group", "hgroup"):
            prog.append((f[0], int(f[1])))
        elif f[0] == "bs":
            prog.append(("bs", int(f[1]), int(f[2]), f[3]))
        elif f[0] == "barrier":
            prog.append(("barrier",))
        elif f[0] == "um":
            prog.append(("um", int(f[1]), int(f[2])))
    return tuple(prog), tuple(r.split(">"))


def replay(label):
    prog, rws = parse(label)
    try:
        obs = _one("native", label, prog, rws)
    except Exception as e:  # noqa: BLE001
        return f"{label}: raised {type(e).__name__}: {e}"
    bad = [o for o in obs if o["result"] == "refuted"]
    return f"{label}: " + "; ".join(f"{o['name'].split('[')[0].split('#')[-1]} fails ({o.get('note')})" for o in bad) if bad else None


# ----------------------------------------------------------------------------------------------- C10: late binding
def check_params(env, label, prog, rw):
    """every real parameter is a Parameter object; values are changed after construction (and after a rewrite)"""
    import lightworks as lw
    name = "lightworks/sdk/circuit/circuit.py:Circuit.parameters#xsym"
    # all parameters START with the same value (distinct Parameter objects that compare equal by value must still be listed and followed separately);
    # they get pairwise different values later
    v1 = {i: env.const(F(3, 11)) for i in range(len(prog))}
    v2 = {i: env.const(F(2 * i + 3, 13)) for i in range(len(prog))}
    for i, c_ in enumerate(prog):
        if c_[0] == "loss0":
            v1[i] = env.const(0)            # a loss Parameter that holds exactly 0 when the circuit is built (and a positive value later)
    uses = {i for i, c in enumerate(prog) if c[0] in ("ps", "bs", "loss", "loss0", "group", "hgroup")}
    P = {i: lw.Parameter(v1[i]) for i in uses}
    c = build(env, prog, params={i: P.get(i) for i in range(len(prog))}, observe=True)
    ref1 = build(env, prog, params={i: v1[i] for i in range(len(prog))}).U_full
    ok = _same(env, c.U_full, ref1)
    env.check_true(f"{name}.initial[{label}]", ok, note="unitary for the values the parameters had at construction", model=dict(program=label))
    listed = c.get_all_params()
    env.check_true(f"{name}.listed-once[{label}]", len(listed) == len(uses) and {id(x) for x in listed} == {id(x) for x in P.values()},
                   note="every Parameter used is listed exactly once (by identity)", model=dict(program=label, listed=len(listed), used=len(uses)))
    frozen = c.copy(freeze_parameters=True)
    if rw is not None:
        c = apply(c, rw)
    for i in uses:
        P[i].set(v2[i])
    ref2 = build(env, prog, params={i: v2[i] for i in range(len(prog))}).U_full
    env.check_true(f"{name}.live[{label}|{rw}]", _same(env, c.U_full, ref2),
                   note="after set() on the user's Parameter objects the circuit reports the unitary for the new values", model=dict(program=label, rewrite=rw))
    env.check_true(f"{name}.frozen[{label}]", _same(env, frozen.U_full, ref1) and frozen.get_all_params() == [],
                   note="a frozen copy keeps the values of the moment it was taken and lists no parameter", model=dict(program=label))
    # an invalid value surfaces as a compilation error when the circuit is used
    bad = [i for i in uses if prog[i][0] in ("bs", "loss", "loss0")]
    if bad and rw is None:
        P[bad[0]].set(env.const(F(3, 2)))
        try:
            c.U_full
            raised = None
        except lw.CircuitCompilationError:
            raised = "CircuitCompilationError"
        except Exception as e:  # noqa: BLE001
            raised = type(e).__name__
        env.check_true(f"{name}.invalid-value[{label}]", raised == "CircuitCompilationError",
                       note="a reflectivity / loss of 1.5 held by a Parameter gives CircuitCompilationError on use", model=dict(program=label, raised=raised, component=prog[bad[0]]))
        # values that are invalid because they are no numbers at all - among them FALSY ones (None, '', an empty list, the complex zero): the same error on use
        for bv in (None, "", [], "high", -0.25):
            try:
                P[bad[0]].set(bv)
            except Exception:  # noqa: BLE001
                continue            # the Parameter itself refuses the value
            try:
                c.U_full
                raised = None
            except lw.CircuitCompilationError:
                raised = "CircuitCompilationError"
            except Exception as e:  # noqa: BLE001
                raised = type(e).__name__
            env.check_true(f"{name}.invalid-value[{label};{bv!r}]", raised == "CircuitCompilationError",
                           note="a reflectivity / loss Parameter holding a non-number (also a falsy one) or a negative value gives CircuitCompilationError on use",
                           model=dict(program=label, raised=raised, value=repr(bv), component=prog[bad[0]]))


def _same(env, A, B):
    if A.shape != B.shape:
        return False
    return all(_z(env, A[i, j] - B[i, j]) for i in range(A.shape[0]) for j in range(A.shape[1]))


def unit_params(mode="exact", tier="quick", seed=0, shard=0, nshards=1):
    from collections import OrderedDict
    agg = OrderedDict()
    A = [a for a in alphabet() if a[0] != "um"]
    progs = [(a,) for a in A] + list(itertools.product([a for a in A if a[0] in ("ps", "bs", "loss", "loss0", "group", "hgroup")], [a for a in A if a[0] in ("swaps", "bs", "loss", "hgroup")]))
    progs = [p for k, p in enumerate(progs) if k % nshards == shard]
    n = 0
    for prog in progs:
        for rw in (None, "unpack_groups", "compress_mode_swaps", "remove_non_adjacent_bs", "copy"):
            label = plabel(prog, ())
            n += 1
            if mode == "exact":
                from vf.xlift import hook
                for path, log, res in hook.run_paths(lambda: _onep(mode, label, prog, rw)):
                    obs = res[1] if res[0] == "ok" else [dict(name=f"lightworks/sdk/circuit/circuit.py:Circuit.parameters#xsym.runs[{label}|{rw}]", kind="xsym",
                                                              result="refuted", backend="xlift", ms=0, note=f"raised {type(res[1]).__name__}: {res[1]}", model=dict(program=label, rewrite=rw))]
                    _merge(agg, obs, f"{label}|{rw}")
            else:
                _merge(agg, _onep(mode, label, prog, rw), f"{label}|{rw}")
    obligations = list(agg.values())
    for o in obligations:
        if o["result"] in ("refuted", "bounded-fail"):
            o["replay_spec"] = dict(module="vf.tasks.t_rewrite", func="replay_params", args=[o["model"]["case"]])
    return dict(status="ok", obligations=obligations, summary=f"shard {shard}/{nshards}: {n} (program, rewrite) cases with live Parameter objects")


def _onep(mode, label, prog, rw):
    env = Env(mode)
    check_params(env, label, prog, rw)
    return env.obligations


def replay_params(case):
    label, rw = case.rsplit("|", 1)
    prog, _ = parse(label if "|" in label else label + "|")
    rw = None if rw == "None" else rw
    obs = _onep("native", label, prog, rw)
    bad = [o for o in obs if o["result"] == "refuted"]
    return f"{case}: " + "; ".join(f"{o['name'].split('[')[0].split('#')[-1]} fails ({o.get('note')}) {o.get('model')}" for o in bad) if bad else None


# ----------------------------------------------------------------------------------------------- groups nested in groups (spec level)
def unit_nested(tier="quick", seed=0):
    """unpack_circuit_spec / convert_non_adj_beamsplitters / compress_mode_swaps on specs whose groups contain groups (depth 2 and 3): the
    functions named by the property accept such specs (the compiler does); unpacking must terminate, leave no group and keep the unitary."""
    import numpy as np
    from lightworks.sdk.circuit.circuit_utils import unpack_circuit_spec
    from lightworks.sdk.circuit.compiler import CompiledCircuit
    from lightworks.sdk.circuit.components import BeamSplitter, Group, PhaseShifter
    from vf.pyvc.rtc import _time_limit, _Timeout
    fails, n = [], 0

    def U(spec, nm=3):
        cc = CompiledCircuit(nm)
        for s_ in spec:
            cc.add(s_)
        return cc.U_full

    def grp(inner):
        return Group(list(inner), "g", 0, 2, {"input": {}, "output": {}})
    for depth in (1, 2, 3):
        inner = [BeamSplitter(0, 2, 0.3, "Rx"), PhaseShifter(1, 0.7)]
        for _ in range(depth):
            inner = [PhaseShifter(0, 0.2), grp(inner)]
        spec = [PhaseShifter(2, 1.1)] + inner
        n += 1
        ref = U(spec)
        try:
            with _time_limit(10.0):
                flat = unpack_circuit_spec(spec)
        except _Timeout:
            fails.append((dict(nesting_depth=depth), "unpack_circuit_spec did not return within 10 s"))
            continue
        if any(isinstance(s_, Group) for s_ in flat):
            fails.append((dict(nesting_depth=depth), "a group remains after unpacking"))
        elif not np.allclose(U(flat), ref, atol=1e-12):
            fails.append((dict(nesting_depth=depth), "unpacking changed the unitary"))
    o = dict(name="lightworks/sdk/circuit/circuit_utils.py:unpack_circuit_spec#bnd.nested-groups", kind="bnd", cases=n, result="bounded-fail" if fails else "bounded-pass",
             backend="native", ms=0, note="specs with groups nested 1-3 deep: unpacking terminates, leaves no group, keeps the unitary")
    if fails:
        o["failing_cases"] = [str(f[0]) for f in fails]
        o["model"] = dict(case=fails[0][0], observed=fails[0][1], n_failing=len(fails))
        o["replayed"] = f"{len(fails)} of {n} cases fail; first {fails[0][0]}: {fails[0][1]}"
    return dict(status="ok", obligations=[o], summary=f"nested groups: {n} cases")
