"""C06: imperfect-source model.

A (xlift, symbolic in brightness / purity / indistinguishability => complete over the three continuous parameters):
   the REAL Source._single_photon_distribution and purity_to_prob run over symbols; on every symbolic path the outcome
   weights are >= 0, sum to one, the emitted photon-number statistics have g2 = 1 - purity for every brightness, the split of
   the intended photon into indistinguishable / distinguishable parts is sqrt(I) : 1 - sqrt(I), entries of zero weight are dropped.
   HOM: the REAL Sampler on a 50:50 beam splitter with |1,1> gives visibility = indistinguishability (I symbolic).
B (xlift, exact, bounded in input size): Sampler.probability_distribution with an imperfect source equals the mixture over
   independent per-photon emission outcomes of the convolution of the boson-sampling distributions of the mutually
   distinguishable photon groups (reference built from the statement with the spec permanent); input statistics and output
   distribution are normalised.
"""
from __future__ import annotations

import itertools
from fractions import Fraction as F

from vf.spec import fock
from vf.xlift.env import Env
from vf.tasks.t_compile import block_unitary
from vf.tasks.t_fock import spec_distribution, n_loss


def check_single_photon(env):
    from lightworks import emulator
    import z3
    name = "lightworks/emulator/components/source.py:Source._single_photon_distribution#xsym"
    nu = env.sym("brightness", 0, 1)
    pur = env.sym("purity", F(1, 2), 1, lo_strict=True)
    ind = env.sym("indistinguishability", 0, 1)
    src = emulator.Source(brightness=nu, purity=pur, indistinguishability=ind)
    src._counter = 1
    dist = src._single_photon_distribution()
    tot = env.const(0)
    P = {0: env.const(0), 1: env.const(0), 2: env.const(0)}
    w = {}
    for labels, p in dist:
        tot = tot + p
        P[len(labels)] = P[len(labels)] + p
        key = tuple("i" if l == 0 else ("d" if l == 1 else "n") for l in labels)
        w[key] = w.get(key, env.const(0)) + p
        if env.mode == "exact":
            r, m = env.ctx.valid(p.to_z3() >= 0)
            env.obligations.append(dict(name=f"{name}.nonneg[{key}]", kind="xsym", result=r, backend="xlift + z3-nlsat", ms=0, model=m,
                                        path=[f"{d}={c}" for d, c in env.ctx.decisions_log], note="outcome weight >= 0 on the whole parameter region of this path"))
        else:
            env.check_true(f"{name}.nonneg[{key}]", p >= -1e-15, model=dict(weight=float(p)))
    env.check_zero(f"{name}.normalised", tot - 1, note="the emission outcomes of one photon sum to one")
    # g2 of the photon-number statistics = 1 - purity, for every brightness:  2 P2 = (1 - purity) (P1 + 2 P2)^2
    mean = P[1] + 2 * P[2]
    env.check_zero(f"{name}.g2", 2 * P[2] - (1 - pur) * mean * mean, note="g2 = 2 P(2) / <n>^2 = 1 - purity for every brightness")
    # intended photon: indistinguishable with weight sqrt(I), distinguishable with 1 - sqrt(I)   (docs: emulator theory)
    si = env.ctx.root(ind, 2) if env.mode == "exact" else ind ** 0.5
    one_i, one_d = w.get(("i",), env.const(0)), w.get(("d",), env.const(0))
    env.check_zero(f"{name}.indistinguishable-split", one_i * (1 - si) - one_d * si, note="indistinguishable : distinguishable = sqrt(I) : 1 - sqrt(I)")
    two_i, two_d = w.get(("i", "n"), env.const(0)), w.get(("d", "n"), env.const(0))
    env.check_zero(f"{name}.indistinguishable-split-2", two_i * (1 - si) - two_d * si, note="same split when a noise photon is emitted as well")
    # the vacuum weight is the complement of emitting at least one photon with brightness nu
    env.check_zero(f"{name}.labels-fresh", env.const(0 if src._counter == 3 else 1), note="two fresh labels are consumed per photon")


def check_perfect(env):
    from lightworks import emulator
    import lightworks as lw
    name = "lightworks/emulator/components/source.py:Source._build_statistics#xsym"
    for s in ([1, 0, 2], [0, 0], [1, 1, 1, 0]):
        d = emulator.Source()._build_statistics(lw.State(s))
        ok = len(d) == 1 and list(d.keys())[0] == lw.State(s) and not (list(d.values())[0] != 1)
        env.check_true(f"{name}.perfect[{s}]", ok, note="perfect settings reduce to the ideal source", model=dict(input=s, got=str(d)))


def check_hom(env):
    from lightworks import emulator
    import lightworks as lw
    name = "lightworks/emulator/simulation/sampler.py:Sampler.probability_distribution#xsym.hom"
    ind = env.sym("indistinguishability", 0, 1)
    c = lw.Circuit(2)
    c.bs(0)
    for backend in ("permanent", "slos"):
        s = emulator.Sampler(c, lw.State([1, 1]), source=emulator.Source(indistinguishability=ind), backend=backend)
        d = {tuple(k.s): v for k, v in s.probability_distribution.items()}
        p11 = d.get((1, 1), env.const(0))
        # classical (fully distinguishable) coincidence probability is 1/2:  V = 1 - P11 / (1/2)
        env.check_zero(f"{name}.visibility[{backend}]", (1 - 2 * p11) - ind, note="Hong-Ou-Mandel visibility = indistinguishability")
        tot = env.const(0)
        for v in d.values():
            tot = tot + v
        env.check_zero(f"{name}.normalised[{backend}]", tot - 1)


# ------------------------------------------------------------------------------------------------ mixture reference
def per_photon_outcomes(env, nu, pur, ind):
    """(labels, weight) for one photon, from the statement + docs (independent of the code's table):
    emission count: 0 / 1 / 2 photons with g2 = 1 - purity at unit brightness; each emitted photon survives with probability nu;
    the intended photon is indistinguishable with probability sqrt(I); the extra (noise) photon is always distinguishable"""
    g2 = 1 - pur
    one = env.const(1)
    if env.mode == "exact":
        z = g2.simp().n.is_zero()
    else:
        z = abs(g2) < 1e-15
    if z:
        p2 = env.const(0)
    else:
        b = 2 * (1 - 1 / g2)
        disc = b * b - 4
        rt = env.ctx.root(disc, 2) if env.mode == "exact" else disc ** 0.5
        p2 = (-b - rt) / 2              # root in (0,1] of x^2 + b x + 1 = 0  <=> 2 x / (1 + x)^2 = g2
    p1 = one - p2
    si = env.ctx.root(ind, 2) if env.mode == "exact" else ind ** 0.5
    out = []
    # one photon emitted (weight p1): survives nu
    # two photons emitted (weight p2): intended survives nu, noise survives nu, independently
    def add(labels, w):
        out.append((labels, w))
    add((), p1 * (1 - nu) + p2 * (1 - nu) * (1 - nu))
    add(("i",), si * (p1 * nu + p2 * nu * (1 - nu)))
    add(("d",), (1 - si) * (p1 * nu + p2 * nu * (1 - nu)))
    add(("n",), p2 * (1 - nu) * nu)
    add(("i", "n"), si * p2 * nu * nu)
    add(("d", "n"), (1 - si) * p2 * nu * nu)
    return out


def convolve(env, d1, d2):
    out = {}
    for o1, p1 in d1.items():
        for o2, p2 in d2.items():
            o = tuple(a + b for a, b in zip(o1, o2))
            out[o] = out.get(o, env.const(0)) + p1 * p2
    return out


def reference_mixture(env, circ, U, s_vis, nu, pur, ind):
    n = circ.n_modes
    full_in = fock.ins(s_vis, circ.heralds["input"], n)
    photons = [m for m, k in enumerate(full_in) for _ in range(k)]
    outcomes = per_photon_outcomes(env, nu, pur, ind)
    single = {}

    def dist_of(occ):
        key = tuple(occ)
        if key not in single:
            vis = [x for i, x in enumerate(occ)]
            single[key] = _dist_full(env, circ, U, occ)
        return single[key]
    total = {}
    for combo in itertools.product(outcomes, repeat=len(photons)):
        w = env.const(1)
        indist = [0] * n
        singles = []
        for m, (labels, p) in zip(photons, combo):
            w = w * p
            for l in labels:
                if l == "i":
                    indist[m] += 1
                else:
                    occ = [0] * n
                    occ[m] = 1
                    singles.append(occ)
        if env.mode == "exact" and w.simp().n.is_zero():
            continue
        d = dist_of(indist)
        for occ in singles:
            d = convolve(env, d, dist_of(occ))
        for o, p in d.items():
            total[o] = total.get(o, env.const(0)) + w * p
    return total


def _dist_full(env, circ, U, full_in):
    """boson-sampling distribution over patterns on the circuit's modes for a full input occupation (herald modes included)"""
    n = circ.n_modes
    nl = n_loss(circ, U)
    tot = sum(full_in)
    dist = {}
    fin = list(full_in) + [0] * nl
    for k in range(tot, -1, -1):
        for o in fock.fock(n, k):
            p = env.const(0)
            for l in (fock.fock(nl, tot - k) if nl else ([[]] if tot == k else [])):
                a = fock.amp(env, U, fin, o + l)
                p = p + a * (a.conjugate() if hasattr(a, "conjugate") else a)
            dist[tuple(o)] = p
    return dist


def circuits(env):
    import lightworks as lw
    u = lw.Unitary(block_unitary(env, 3, 2))
    yield "U3", u
    c = lw.Circuit(3)
    c.bs(0, reflectivity=env.const(F(1, 3)))
    c.loss(1, env.const(F(1, 4)))
    c.bs(1, reflectivity=env.const(F(1, 2)))
    yield "lossy3", c
    h = lw.Unitary(block_unitary(env, 3, 5))
    h.herald(1, 0, 2)
    yield "U3+h(1,0,2)", h


def check_mixture(env, label, settings, tier="quick"):
    from lightworks import emulator
    import lightworks as lw
    name = "lightworks/emulator/simulation/sampler.py:Sampler.probability_distribution#xsym.source"
    nu, pur, ind = (env.const(x) for x in settings)
    for clabel, circ in circuits(env):
        if label and clabel != label:
            continue
        U = circ.U_full
        m = circ.input_modes
        inputs = [s for s in fock.fock(m, 1) + fock.fock(m, 2)]
        if tier == "thorough" and m == 3:
            inputs += [[1, 1, 1], [2, 1, 0], [0, 3, 0]]       # three photons: up to 3 emission outcomes per photon, bunched and collision-free
        for s in inputs:
            src = emulator.Source(brightness=nu, purity=pur, indistinguishability=ind)
            stats = src._build_statistics(lw.State(fock.ins(s, circ.heralds["input"], circ.n_modes)))
            tot = env.const(0)
            for v in stats.values():
                tot = tot + v
            env.check_zero(f"{name}.input-normalised[{clabel};in={s};{settings}]", tot - 1, note="input statistics sum to one")
            # optional probability threshold: inputs below it are dropped and the rest renormalised
            tau = env.const(F(1, 10))
            src_t = emulator.Source(brightness=nu, purity=pur, indistinguishability=ind, probability_threshold=tau)
            stats_t = src_t._build_statistics(lw.State(fock.ins(s, circ.heralds["input"], circ.n_modes)))
            kept = {k_: v for k_, v in stats.items() if v >= tau}
            z = env.const(0)
            for v in kept.values():
                z = z + v
            vals = [((str(k_),), stats_t.get(k_, env.const(0)) * z - v) for k_, v in kept.items()]
            vals += [((str(k_), "extra"), v) for k_, v in stats_t.items() if k_ not in kept]
            env.check_all_zero(f"{name}.threshold[{clabel};in={s};{settings}]", vals, note="with a probability threshold the retained inputs are renormalised to one")
            if kept:
                dt = emulator.Sampler(circ, lw.State(s), source=src_t).probability_distribution
                tot_t = env.const(0)
                for v in dt.values():
                    tot_t = tot_t + v
                env.check_zero(f"{name}.threshold-output[{clabel};in={s};{settings}]", tot_t - 1, note="output distribution stays normalised with a threshold")
            ref = reference_mixture(env, circ, U, s, nu, pur, ind)
            for backend in ("permanent", "slos"):
                d = emulator.Sampler(circ, lw.State(s), source=emulator.Source(brightness=nu, purity=pur, indistinguishability=ind), backend=backend).probability_distribution
                got = {tuple(k.s): v for k, v in d.items()}
                vals = []
                tot = env.const(0)
                for o, p in ref.items():
                    vals.append(((tuple(s), o, backend), got.get(o, env.const(0)) - p))
                for o, v in got.items():
                    tot = tot + v
                    if o not in ref:
                        vals.append(((tuple(s), o, backend, "extra"), v))
                vals.append((("sum", backend), tot - 1))
                env.check_all_zero(f"{name}.mixture[{clabel};in={s};{settings};{backend}]", vals,
                                   note="distribution = mixture over per-photon emission outcomes of the convolution of independent group distributions; total 1")


            # a Sampler that was used before with another circuit of the same input size (other herald photons / herald modes / unitary), or another
            # input, and is then given this configuration reports this configuration's mixture (source statistics are not carried over)
            if tier == "thorough" or inputs.index(s) < 3:
                src = emulator.Source(brightness=nu, purity=pur, indistinguishability=ind)
                for olabel, other, first_in in earlier_configurations(env, clabel, circ, s, m):
                    sam = emulator.Sampler(other, lw.State(first_in), source=src)
                    sam.probability_distribution    # noqa: B018
                    sam.circuit = circ
                    sam.input_state = lw.State(s)
                    got = {tuple(k.s): v for k, v in sam.probability_distribution.items()}
                    vals = [((tuple(s), o, olabel), got.get(o, env.const(0)) - p_) for o, p_ in ref.items()]
                    vals += [((tuple(s), o, olabel, "extra"), v) for o, v in got.items() if o not in ref]
                    env.check_all_zero(f"{name}.mixture-after-reuse[{clabel};in={s};{settings};{olabel}]", vals,
                                       note="a re-used Sampler (earlier circuit with other heralds / earlier input) gives the mixture of its current configuration")


def earlier_configurations(env, clabel, circ, s, m):
    """(label, circuit, input) that a long-lived Sampler saw before: same number of input modes"""
    import lightworks as lw
    if circ.heralds["input"]:
        a = lw.Unitary(block_unitary(env, 3, 5))
        a.herald(0, 0, 2)                       # same herald modes, no herald photon
        yield "herald-photons-changed", a, s
        b = lw.Unitary(block_unitary(env, 3, 5))
        b.herald(1, 2, 0)                       # herald photon enters on another mode
        yield "herald-mode-changed", b, s
    else:
        other_in = list(reversed(s)) if list(reversed(s)) != list(s) else [1] + [0] * (m - 1)
        yield "input-changed", circ, other_in
        h = lw.Unitary(block_unitary(env, m + 1, 4))
        h.herald(1, m, m)
        yield "was-heralded", h, s


SETTINGS = [(F(3, 4), F(1), F(1)), (F(1), F(1), F(4, 9)), (F(1), F(1), F(0)), (F(1), F(9, 10), F(1)), (F(4, 5), F(9, 10), F(1, 4)), (F(1, 2), F(3, 4), F(0))]


def _run(mode, which, label, k, tier="quick"):
    env = Env(mode)
    if which == "single":
        check_single_photon(env)
        check_perfect(env)
    elif which == "hom":
        check_hom(env)
    else:
        check_mixture(env, label, SETTINGS[k], tier)
    return env.obligations


def unit(mode="exact", tier="quick", seed=0, which="single", label=None, k=0):
    from collections import OrderedDict
    agg = OrderedDict()
    npaths = 0
    if mode == "exact":
        from vf.xlift import hook
        for path, log, res in hook.run_paths(lambda: _run(mode, which, label, k, tier)):
            npaths += 1
            obs = res[1] if res[0] == "ok" else [dict(name=f"vf/tasks/t_source.py:{which}#xsym.runs", kind="xsym", result="refuted", backend="xlift", ms=0,
                                                      note=f"raised {type(res[1]).__name__}: {res[1]}", model=dict(which=which, label=label, k=k, path=[str(x) for x in log]))]
            _merge(agg, obs, which)
    else:
        _merge(agg, _run(mode, which, label, k, tier), which)
    obligations = list(agg.values())
    for o in obligations:
        if o["result"] in ("refuted", "bounded-fail"):
            o["replay_spec"] = dict(module="vf.tasks.t_source", func="replay", args=[which, label, k, o["name"], o.get("model")])
    return dict(status="ok", obligations=obligations, summary=f"{which}[{label},{k}]: {npaths} symbolic paths, {len(obligations)} obligations")


def _merge(agg, obs, which):
    for o in obs:
        if which in ("single", "hom"):
            # symbolic obligations: one per clause, worst verdict over all paths (each path covers a region of the parameter space)
            key = o["name"]
            prev = agg.get(key)
            if prev is None:
                agg[key] = dict(o, paths=1)
            else:
                prev["paths"] += 1
                if prev["result"] == "proved" and o["result"] != "proved":
                    agg[key] = dict(o, paths=prev["paths"])
            continue
        clause = o["name"].split("[")[0]
        case = o["name"][len(clause):]
        a = agg.get(clause)
        if a is None:
            a = agg[clause] = dict(name=clause, kind="bnd", result="bounded-pass", backend=o["backend"], ms=0.0, cases=0, note=o.get("note"), sample=case)
        a["cases"] += 1
        a["ms"] += o.get("ms", 0)
        if o["result"] != "proved":
            if a["result"] == "bounded-pass":
                a["result"] = "bounded-fail" if o["result"] == "refuted" else "unknown"
                a["model"] = dict(case=case, detail=o.get("model"), note=o.get("note"))
            a.setdefault("failing_cases", []).append(case)


def replay(which, label, k, name, model):
    """native float replay; symbolic witnesses are substituted for the symbols"""
    assignment = {}
    w = model or {}
    if isinstance(w, dict):
        w = w.get("witness", w)
    for key in ("brightness", "purity", "indistinguishability"):
        if isinstance(w, dict) and key in w:
            try:
                assignment[key] = float(w[key])
            except (TypeError, ValueError):
                pass
    env = Env("native", assignment)
    if which == "single":
        check_single_photon(env)
        check_perfect(env)
    elif which == "hom":
        check_hom(env)
    else:
        check_mixture(env, label, SETTINGS[k])
    clause = name.split("[")[0]
    bad = [o for o in env.obligations if o["result"] == "refuted" and o["name"].startswith(clause)]
    return (f"parameters {assignment or 'generic'}: " + "; ".join(f"{o['name']}: {o.get('model')}" for o in bad[:2])) if bad else None
