"""C19 bounded stand-in (native): every circuit of a constructed family is drawn by both back-ends under every combination of
display options without raising and without changing the circuit; wrong label counts / unknown display types are refused
with DisplayError.  The family reuses the Circuit.add histories of C02 (ancilla configurations) and adds every component
kind, parameters with and without labels, loss, barriers, plain / heralded / nested groups.
"""
from __future__ import annotations

import itertools
import json
import os

import numpy as np

os.environ.setdefault("MPLBACKEND", "Agg")


def _u(c):
    try:
        return c.U_full.tobytes()
    except Exception as e:  # noqa: BLE001
        return f"does not compile: {type(e).__name__}: {getattr(e, '__cause__', None)}"


def snapshot(c):
    return (c.n_modes, c.input_modes, json.dumps(c.heralds, sort_keys=True), sorted(c._internal_modes), repr(c._get_circuit_spec()), _u(c))


def family(tier):
    import lightworks as lw
    from vf.tasks import t_add
    out = []
    # 1. add-histories (ancilla-aware positions)
    k = 0
    for cid, nP, earlier, final in t_add.histories("quick"):
        k += 1
        if k % (23 if tier == "quick" else 5):
            continue
        P = lw.Circuit(nP)
        try:
            for desc, m in earlier:
                P.add(t_add.build_sub(dict(desc, seed=1)), m)
            desc, m2, g2 = final
            P.add(t_add.build_sub(desc), m2, group=g2)
            P.U_full
        except Exception:  # noqa: BLE001
            continue
        out.append((f"add-history {cid}", P))
    # 2. one of each component kind, parameters with / without labels
    for labelled in (False, True):
        c = lw.Circuit(5)
        p1 = lw.Parameter(0.3, label="r" if labelled else None)
        p2 = lw.Parameter(1.2, label="phi" if labelled else None)
        p3 = lw.Parameter(0.2, label="loss" if labelled else None)
        c.bs(0, reflectivity=p1)
        c.bs(3, 1, reflectivity=0.4, convention="H")
        c.ps(2, p2)
        c.ps(4, 0.3, loss=0.1)
        c.loss(1, p3)
        c.barrier()
        c.barrier([0, 2])
        c.mode_swaps({0: 2, 2: 4, 4: 0})
        c.add(lw.Unitary(lw.random_unitary(3, seed=1)), 1)
        g = lw.Circuit(2)
        g.bs(0, loss=0.2)
        c.add(g, 3, group=True, name="grp")
        h = lw.Unitary(lw.random_unitary(3, seed=2))
        h.herald(1, 0, 2)
        c.add(h, 2)
        c.bs(0, 4)
        c.mode_swaps({1: 3, 3: 1})
        c.herald(0, 4, 0)
        out.append((f"all-components labelled={labelled}", c))
    # 3. nesting: group inside group inside circuit, heralded groups next to each other, swaps spanning ancillas
    inner = lw.Circuit(3)
    inner.add(lw.qubit.CNOT_Heralded() if False else lw.Unitary(lw.random_unitary(3, seed=3)), 0)
    inner.herald(0, 1)
    mid = lw.Circuit(4)
    mid.add(inner, 1)
    mid.bs(0, 3)
    mid.herald(1, 0, 3)
    top = lw.Circuit(5)
    top.add(mid, 1, group=True, name="mid")
    top.add(inner, 0)
    top.mode_swaps({0: 4, 4: 0})
    top.bs(0, 4, loss=0.3)
    out.append(("nested heralded groups", top))
    from lightworks import qubit
    c = lw.Circuit(6)
    c.add(qubit.CNOT_Heralded(), 0)
    c.add(qubit.CZ_Heralded(), 2)
    c.add(qubit.CNOT(), 0)
    c.add(qubit.Rx(0.3), 4)
    out.append(("qubit gates", c))
    c = lw.Circuit(1)
    c.ps(0, 1)
    out.append(("single mode", c))
    c = lw.Circuit(3)
    out.append(("empty circuit", c))
    c = lw.Circuit(3)
    c.herald(0, 0)
    c.herald(1, 2, 1)
    out.append(("heralds only", c))
    # 4. degenerate but constructible components: barrier over no modes / one mode, empty swap dictionary, identity-like values, 1x1 unitary
    def deg(label, build, n=3):
        c = lw.Circuit(n)
        c.bs(0)
        build(c)
        c.bs(n - 2)
        out.append((f"degenerate: {label}", c))
    deg("barrier([])", lambda c: c.barrier([]))
    deg("barrier([1])", lambda c: c.barrier([1]))
    deg("mode_swaps({})", lambda c: c.mode_swaps({}))
    deg("mode_swaps identity entries", lambda c: c.mode_swaps({0: 0, 1: 2, 2: 1}))
    deg("loss 0 and loss 1", lambda c: (c.loss(0, 0), c.loss(1, 1)))
    deg("reflectivity 0 and 1", lambda c: (c.bs(0, reflectivity=0), c.bs(1, reflectivity=1)))
    deg("1x1 unitary", lambda c: c.add(lw.Unitary(np.array([[1j]])), 2))
    deg("phase 0", lambda c: c.ps(1, 0))
    # mode numbers given as numpy integers / integral floats: if the API accepts the call, the circuit must be drawable like any other
    for tl, T in (("np.int64", np.int64), ("float", float), ("np.float32", np.float32)):
        for cl, call in (("ps", lambda c, T: c.ps(T(1), 0.5)), ("bs", lambda c, T: c.bs(T(0), T(2))), ("loss", lambda c, T: c.loss(T(1), 0.2)),
                         ("barrier", lambda c, T: c.barrier([T(0), T(1)])), ("mode_swaps", lambda c, T: c.mode_swaps({T(0): T(1), T(1): T(0)})),
                         ("herald", lambda c, T: c.herald(0, T(2))), ("add", lambda c, T: c.add(lw.Unitary(lw.random_unitary(2, seed=4)), T(1)))):
            c = lw.Circuit(3)
            c.bs(0)
            try:
                call(c, T)
            except (TypeError, ValueError):
                continue            # refused: not a constructible circuit
            c.bs(1)
            out.append((f"degenerate: {cl} with {tl} mode", c))

    # component VALUES (phase, reflectivity, loss) given as numpy scalars / integers / fractions, directly and through a Parameter (with and without a
    # label): if the API accepts the value, the circuit must be drawable by both back-ends like any other
    from fractions import Fraction as _Fr
    for tl, mk in (("np.int64", lambda x: np.int64(round(x))), ("np.int32", lambda x: np.int32(round(x))), ("np.float32", lambda x: np.float32(x)), ("np.float64", lambda x: np.float64(x)),
                   ("int", lambda x: int(round(x))), ("Fraction", lambda x: _Fr(x).limit_denominator(8))):
        for how in ("direct", "parameter", "labelled parameter"):
            wrap = (lambda v: v) if how == "direct" else ((lambda v: lw.Parameter(v)) if how == "parameter" else (lambda v: lw.Parameter(v, label="p")))
            for cl, call in (("ps", lambda c: c.ps(1, wrap(mk(1.0)))), ("bs", lambda c: c.bs(0, reflectivity=wrap(mk(0.25 if "float" in tl or tl == "Fraction" else 1)))),
                             ("loss", lambda c: c.loss(1, wrap(mk(0.5 if "float" in tl or tl == "Fraction" else 0))))):
                c = lw.Circuit(3)
                c.bs(0)
                try:
                    call(c)
                    c.U_full
                except Exception:  # noqa: BLE001
                    continue        # the value is refused at construction or when the circuit is compiled: not a constructible circuit
                c.bs(1)
                out.append((f"degenerate: {cl} value as {tl} ({how})", c))

    def grp_empty_barrier(c):
        g = lw.Circuit(2)
        g.barrier([])
        g.ps(0, 1)
        c.add(g, 1, group=True, name="g")
    deg("group with barrier([])", grp_empty_barrier)

    def empty_group(c):
        c.add(lw.Circuit(2), 0, group=True, name="empty")
    deg("empty group", empty_group)

    def odd_group_name(c):
        g = lw.Circuit(2)
        g.bs(0)
        try:
            c.add(g, 0, group=True, name=7)         # if a non-string group name is accepted, the circuit must still be drawable
        except TypeError:
            c.add(g, 0, group=True, name="7")
    deg("group named 7", odd_group_name)
    deg("group named ''", lambda c: c.add(lw.Circuit(2), 0, group=True, name=""))
    # group names of every shape a user may give: long single words, long names with blanks, exactly at a typical width limit, blanks only, unicode, and a
    # named group added again without a name (the name is inherited), with and without heralds
    for nm_ in ("Interferometer", "Interferometer1234567890", "TwelveChars.", "Thirteen.Char", "a b", "CNOT Heralded (0, 1) extended", " leading", "trailing ", "   ", "Δφ-block", "x" * 40):
        def named(c, nm_=nm_):
            g = lw.Circuit(2)
            g.bs(0)
            c.add(g, 0, group=True, name=nm_)
        deg(f"group named {nm_!r}", named)

        def named_heralded(c, nm_=nm_):
            g = lw.Circuit(3)
            g.bs(0)
            g.bs(1)
            g.herald(0, 2)
            c.add(g, 0, name=nm_)
        deg(f"heralded group named {nm_!r}", named_heralded, n=4)

    def inherited(c):
        g = lw.Circuit(2)
        g.ps(0, 0.3)
        holder = lw.Circuit(2)
        holder.add(g, 0, group=True, name="Interferometer")
        c.add(holder, 1)
    deg("group name inherited from a single-group circuit", inherited)

    def herald_empty_barrier(c):
        c.herald(2, 0)
        c.barrier([])
        c.barrier()
    deg("herald then barriers", herald_empty_barrier, n=4)
    return out


def check_family(tier, shard, nshards):
    import matplotlib
    matplotlib.use("Agg")
    import matplotlib.pyplot as plt
    import lightworks as lw
    from lightworks import Display
    from lightworks.sdk.utils import DisplayError
    fails, n = [], 0
    fam = [f for k, f in enumerate(family(tier)) if k % nshards == shard]
    for label, c in fam:
        before = snapshot(c)
        m = c.n_modes - len(c._internal_modes)      # displayed mode lines: all modes except the private ancillas of heralded sub-circuits
        shared = [f"m{i}" for i in range(m)]          # ONE label list reused for every call: displaying must not change the caller's list
        for dt, loss, vals, labels in itertools.product(("svg", "mpl"), (False, True), (False, True), (None, "ok")):
            n += 1
            ml = None if labels is None else shared
            try:
                r = Display(c, display_loss=loss, mode_labels=ml, display_type=dt, show_parameter_values=vals)
                if dt == "mpl":
                    plt.close(r[0])
            except Exception as e:  # noqa: BLE001
                fails.append((dict(circuit=label, display_type=dt, display_loss=loss, show_parameter_values=vals, labels=labels), f"raised {type(e).__name__}: {e}"))
            if shared != [f"m{i}" for i in range(m)]:
                fails.append((dict(circuit=label, display_type=dt, labels=labels), f"display changed the caller's mode_labels list to {shared}"))
                shared = [f"m{i}" for i in range(m)]
        # labels of the right length that are not strings (numbers, None, mixed, a tuple, long strings): drawn like any other labels
        for dt in ("svg", "mpl"):
            for what, ml in (("ints", list(range(m))), ("floats", [i + 0.5 for i in range(m)]), ("None entries", [None] * m), ("mixed", [("q%d" % i) if i % 2 else i for i in range(m)]),
                             ("tuple of strings", tuple(f"m{i}" for i in range(m))), ("long strings", ["mode number %d of the register" % i for i in range(m)])):
                if not m:
                    continue
                n += 1
                try:
                    r = Display(c, mode_labels=ml, display_type=dt)
                    if dt == "mpl":
                        plt.close(r[0])
                except DisplayError:
                    pass                # a documented refusal of such labels would be a display error
                except Exception as e:  # noqa: BLE001
                    fails.append((dict(circuit=label, display_type=dt, labels=what), f"mode labels given as {what} raised {type(e).__name__}: {e}"))
        if snapshot(c) != before:
            fails.append((dict(circuit=label), "display changed the circuit"))
        # wrong label counts / unknown type
        for dt in ("svg", "mpl"):
            for k in sorted({0, m - 1, m + 1, c.n_modes} - {m}):
                if k < 0:
                    continue
                n += 1
                try:
                    r = Display(c, mode_labels=[str(i) for i in range(k)], display_type=dt)
                    if dt == "mpl":
                        plt.close(r[0])
                    fails.append((dict(circuit=label, display_type=dt, n_labels=k, needed=m), "wrong number of mode labels accepted"))
                except DisplayError:
                    pass
                except Exception as e:  # noqa: BLE001
                    fails.append((dict(circuit=label, display_type=dt, n_labels=k, needed=m), f"raised {type(e).__name__} instead of DisplayError"))
                plt.close("all")
        # unknown display types of every kind a caller may pass (other strings, the empty string, None, numbers, a tuple, bytes): DisplayError, through
        # Display() and through Circuit.display()
        for bad in ("png", "", "not_valid", None, 0, 1.5, True, ("svg",), b"svg"):
            for how in ("Display", "Circuit.display"):
                n += 1
                try:
                    Display(c, display_type=bad) if how == "Display" else c.display(display_type=bad)
                    fails.append((dict(circuit=label, display_type=repr(bad), via=how), "unknown display type accepted"))
                except DisplayError:
                    pass
                except Exception as e:  # noqa: BLE001
                    fails.append((dict(circuit=label, display_type=repr(bad), via=how), f"unknown display type raised {type(e).__name__} instead of DisplayError"))
                plt.close("all")
        if snapshot(c) != before:
            fails.append((dict(circuit=label), "a rejected display call changed the circuit"))
    return n, fails, len(fam)


def unit(tier="quick", seed=0, shard=0, nshards=1):
    n, fails, nc = check_family(tier, shard, nshards)
    o = dict(name="lightworks/sdk/visualisation/display.py:Display#bnd.draws-without-side-effects", kind="bnd", cases=n, result="bounded-fail" if fails else "bounded-pass",
             backend="native (drawsvg / matplotlib Agg)", ms=0, sample=None,
             note="both back-ends draw every circuit of the family under every option combination without raising or changing it; wrong label counts and unknown types give DisplayError")
    if fails:
        o["failing_cases"] = [json.dumps(f[0], default=str) for f in fails]
        o["model"] = dict(case=fails[0][0], observed=fails[0][1], n_failing=len(fails))
        o["replayed"] = f"{len(fails)} of {n} display calls fail; first {fails[0][0]}: {fails[0][1]}"
        o["replay_spec"] = dict(module="vf.tasks.t_display", func="replay", args=[tier, shard, nshards])
    return dict(status="ok", obligations=[o], summary=f"shard {shard}/{nshards}: {nc} circuits, {n} display calls")


def replay(tier, shard, nshards):
    return unit(tier, 0, shard, nshards)["obligations"][0].get("replayed")


if __name__ == "__main__":
    r = unit()
    print(r["summary"], r["obligations"][0]["result"], (r["obligations"][0].get("replayed") or "")[:800])
