"""Mechanism C (bounded, labelled): runtime contract of Circuit.add against the wiring oracle `wire`
built from the statement of C02 only, with old()-snapshots of the argument (C08).

A *history* is: parent = Circuit(nP); zero or more earlier additions; one final addition that is checked
against the oracle evaluated on the state before it.  Sub-circuits are Unitary components with fixed
generic unitaries (pairwise distinct entries, so any mis-routing changes the matrix), heralds in every
placement / declaration order / photon number, optionally wrapped once more (nesting), grouped or not.

Not a proof: exhaustive up to the stated bound only.
"""
from __future__ import annotations

import itertools
import json

import numpy as np


def info(c):
    return dict(n=c.n_modes, internal=sorted(c._internal_modes), hin=dict(c.heralds["input"]), hout=dict(c.heralds["output"]),
                inputs=c.input_modes)


def generic_unitary(n, seed):
    rng = np.random.default_rng(1000 + 17 * n + seed)
    a = rng.normal(size=(n, n)) + 1j * rng.normal(size=(n, n))
    q, r = np.linalg.qr(a)
    return q * (np.diag(r) / np.abs(np.diag(r)))


def build_sub(desc):
    """desc = dict(n=, heralds=[(photons,in,out)...], wrap=bool, seed=)"""
    import lightworks as lw
    u = lw.Unitary(generic_unitary(desc["n"], desc.get("seed", 0)))
    for (num, i, o) in desc["heralds"]:
        u.herald(num, i, o)
    if desc.get("wrap"):
        w = lw.Circuit(u.input_modes)
        w.add(u, 0)
        for (num, i, o) in desc.get("outer_heralds", []):
            w.herald(num, i, o)
        return w
    return u


def expected_abstract(P_U, P_int, S_U, S_hin, S_hout, m):
    """composition under the wiring of C02 in the abstract labelling
    parent modes 0..NP-1, then one new ancilla per herald of S (k-th herald pair <-> ancilla NP+k)."""
    NP_, NS = P_U.shape[0], S_U.shape[0]
    h = len(S_hin)
    A = [j for j in range(NS) if j not in S_hin]      # visible inputs of S, in order
    B = [j for j in range(NS) if j not in S_hout]     # visible outputs of S, in order
    V = [j for j in range(NP_) if j not in P_int]     # user-visible modes of the parent, in order
    N = NP_ + h
    inmap, outmap = {}, {}
    for k, a in enumerate(A):
        inmap[a] = V[m + k]
    for k, b in enumerate(B):
        outmap[b] = V[m + k]
    for k in range(h):
        inmap[S_hin[k]] = NP_ + k
        outmap[S_hout[k]] = NP_ + k
    E = np.identity(N, dtype=complex)
    for j in range(NS):
        E[:, inmap[j]] = 0
    for i in range(NS):
        for j in range(NS):
            E[outmap[i], inmap[j]] = S_U[i, j]
    Pext = np.identity(N, dtype=complex)
    Pext[:NP_, :NP_] = P_U
    return E @ Pext


def check_add(P, S, m, group):
    """-> list of violation tuples (kind, detail) of the contract of P.add(S, m, group); [] if it holds"""
    import lightworks as lw
    P_U = P.U_full.copy()
    P_int = sorted(P._internal_modes)
    NP_ = P.n_modes
    P_info = info(P)
    S_info = info(S)
    S_U = S.U_full.copy()
    hin = list(S.heralds["input"].keys())
    hout = list(S.heralds["output"].keys())
    hnum = [S.heralds["input"][k] for k in hin]
    visP = NP_ - len(P_int)
    visS = S.n_modes - len(hin)
    oversize = m + visS > visP
    Pc = P.copy()
    res = []
    try:
        Pc.add(S, m, group=group)
        raised = None
    except lw.ModeRangeError:
        raised = "ModeRangeError"
    except Exception as e:  # noqa: BLE001
        raised = type(e).__name__
    # C08: the argument is never modified
    if info(S) != S_info or S.U_full.shape != S_U.shape or not np.allclose(S.U_full, S_U):
        res.append(("ARG-MUTATED", dict(before=S_info, after=info(S))))
    if raised:
        if not oversize:
            res.append(("REJECTED-VALID", raised))
        # failed call changes nothing
        if info(Pc) != P_info or not np.allclose(Pc.U_full, P_U):
            res.append(("FAILED-CALL-CHANGED-PARENT", info(Pc)))
        if raised != "ModeRangeError":
            res.append(("WRONG-EXCEPTION", raised))
        return res
    if oversize:
        res.append(("OVERSIZE-ACCEPTED", dict(mode=m, visible_parent=visP, visible_sub=visS)))
        return res
    try:
        U2 = Pc.U_full
    except Exception as e:  # noqa: BLE001
        res.append(("COMPILE-ERROR", repr(e.__cause__ or e)))
        return res
    h = len(hin)
    N = NP_ + h
    if U2.shape[0] != N or Pc.n_modes != N:
        res.append(("SIZE", dict(got=U2.shape[0], expected=N)))
        return res
    newint = sorted(Pc._internal_modes)
    if len(newint) != len(P_int) + h or len(set(newint)) != len(newint):
        res.append(("INTERNAL", newint))
        return res
    if Pc.input_modes != visP:
        res.append(("INPUT-MODES", Pc.input_modes))
    Eabs = expected_abstract(P_U, P_int, S_U, hin, hout, m)
    vis2 = [j for j in range(N) if j not in newint]
    visPl = [j for j in range(NP_) if j not in P_int]
    ok = False
    # old ancillas keep their relative order; new ancillas may sit anywhere (searched)
    for newpos in itertools.combinations(newint, h):
        oldpos = [x for x in newint if x not in newpos]
        for perm in itertools.permutations(newpos):
            lab = {}
            for a, b in zip(visPl, vis2):
                lab[a] = b
            for a, b in zip(P_int, oldpos):
                lab[a] = b
            for k in range(h):
                lab[NP_ + k] = perm[k]
            Pm = np.zeros((N, N))
            for a, b in lab.items():
                Pm[b, a] = 1
            E = Pm @ Eabs @ Pm.T
            if np.allclose(E, U2, atol=1e-9):
                exp_hi = {lab[a]: n for a, n in P_info["hin"].items()}
                exp_ho = {lab[a]: n for a, n in P_info["hout"].items()}
                for k in range(h):
                    exp_hi[perm[k]] = hnum[k]
                    exp_ho[perm[k]] = hnum[k]
                if dict(Pc.heralds["input"]) == exp_hi and dict(Pc.heralds["output"]) == exp_ho:
                    ok = True
                    break
        if ok:
            break
    if not ok:
        res.append(("WIRING", info(Pc)))
    return res


HERALD_SHAPES = {
    # n -> list of herald lists [(photons, in, out)]
    1: [[]],
    2: [[], [(0, 0, 0)], [(1, 1, 1)], [(0, 0, 1)], [(1, 1, 0)]],
    3: [[], [(0, 0, 0)], [(1, 2, 2)], [(0, 1, 1)], [(0, 0, 2)], [(1, 2, 0)], [(0, 0, 0), (1, 2, 2)], [(1, 2, 2), (0, 0, 0)],
        [(1, 2, 0), (0, 0, 2)], [(0, 0, 1), (1, 1, 2)], [(0, 1, 0), (1, 0, 2)]],
    4: [[], [(0, 0, 0), (1, 3, 3)], [(1, 3, 3), (0, 0, 0)], [(0, 1, 2)], [(1, 0, 3), (0, 2, 1)], [(0, 3, 1), (1, 1, 0)]],
}


def histories(tier):
    """yield (case_id, nP, [earlier additions], final addition)"""
    maxP = 3 if tier == "quick" else 4
    maxS = 3 if tier == "quick" else 4
    subs = []
    for n in range(1, maxS + 1):
        for hs in HERALD_SHAPES[n]:
            if len(hs) < n or n == 1:
                subs.append(dict(n=n, heralds=hs))
    firsts = [None] + [s for s in subs if s["heralds"]]
    for nP in range(1, maxP + 1):
        for s1 in firsts:
            m1s = [0] if s1 is None else range(nP)
            for m1 in m1s:
                for s2 in subs:
                    for m2 in range(nP):
                        for g2 in (False, True):
                            for wrap in ((False, True) if (tier != "quick" or s2["n"] <= 2) else (False,)):
                                cid = json.dumps([nP, s1, m1, s2, m2, g2, wrap], separators=(",", ":"))
                                yield cid, nP, ([] if s1 is None else [(s1, m1)]), (dict(s2, wrap=wrap, seed=2), m2, g2)
    # parents that already hold THREE ancillas (a fully heralded block, or 3 of 4 modes heralded; also two earlier additions), then a heralded addition:
    # several pass-through modes have to be inserted into the added circuit one after the other
    many = [dict(n=3, heralds=[(0, 0, 0), (1, 1, 1), (0, 2, 2)]), dict(n=3, heralds=[(1, 2, 0), (0, 0, 1), (1, 1, 2)]),
            dict(n=4, heralds=[(0, 0, 0), (1, 1, 1), (0, 3, 3)]), dict(n=4, heralds=[(1, 3, 0), (0, 0, 1), (1, 1, 3)])]
    two = [[dict(n=2, heralds=[(1, 1, 1)]), dict(n=3, heralds=[(0, 0, 0), (1, 2, 2)])], [dict(n=3, heralds=[(1, 2, 0), (0, 0, 2)]), dict(n=2, heralds=[(0, 0, 1)])]]
    finals = [s_ for s_ in subs if s_["heralds"]]
    for nP in range(1, maxP + 1):
        for e in [[x] for x in many] + two:
            for m1 in range(nP):
                for s2 in finals:
                    for m2 in range(nP):
                        for g2 in (False, True):
                            earlier = [(e[0], m1)] + [(x, min(m1, nP - 1)) for x in e[1:]]
                            cid = json.dumps([nP, e, m1, s2, m2, g2, "many"], separators=(",", ":"))
                            yield cid, nP, earlier, (dict(s2, wrap=False, seed=2), m2, g2)


def run_history(nP, earlier, final):
    import lightworks as lw
    P = lw.Circuit(nP)
    for (desc, m) in earlier:
        S1 = build_sub(dict(desc, seed=1))
        try:
            P.add(S1, m)
            P.U_full
        except Exception:  # noqa: BLE001
            return None       # the earlier addition is itself invalid/oversize: not a history
    desc, m2, g2 = final
    S2 = build_sub(desc)
    return check_add(P, S2, m2, g2)


def unit(tier="quick", seed=0, shard=0, nshards=1, mode="native"):
    n = 0
    fails = {}
    sample = None
    nontrivial = 0
    for k, (cid, nP, earlier, final) in enumerate(histories(tier)):
        if k % nshards != shard:
            continue
        r = run_history(nP, earlier, final)
        if r is None:
            continue
        n += 1
        if earlier or final[0]["heralds"]:
            nontrivial += 1
        if sample is None and earlier and final[0]["heralds"]:
            sample = cid
        for kind, detail in r:
            fails.setdefault(kind, []).append((cid, detail))
    obligations = []
    clauses = {"WIRING": "post.wiring", "SIZE": "post.wiring", "INTERNAL": "post.wiring", "COMPILE-ERROR": "post.wiring", "INPUT-MODES": "post.wiring",
               "OVERSIZE-ACCEPTED": "raises.range", "REJECTED-VALID": "raises.range", "WRONG-EXCEPTION": "raises.range",
               "ARG-MUTATED": "frame.arg_circuit", "FAILED-CALL-CHANGED-PARENT": "exc-frame"}
    byclause = {}
    for kind, items in fails.items():
        byclause.setdefault(clauses[kind], []).extend((cid, kind, d) for cid, d in items)
    for clause in sorted(set(clauses.values())):
        items = byclause.get(clause, [])
        o = dict(name=f"lightworks/sdk/circuit/circuit.py:Circuit.add#bnd.{clause}", kind="bnd", cases=n,
                 result="bounded-fail" if items else "bounded-pass", backend="native enumeration (floats, atol 1e-9)", ms=0,
                 sample=sample)
        if items:
            o["failing_cases"] = [c for c, _, _ in items]
            o["model"] = dict(case=items[0][0], kind=items[0][1], detail=items[0][2], n_failing=len(items))
            o["replayed"] = f"{len(items)} of {n} histories violate {clause}; first: {items[0][0]} -> {items[0][1]} {items[0][2]}"
            o["replay_spec"] = dict(module="vf.tasks.t_add", func="replay", args=[items[0][0]])
        obligations.append(o)
    return dict(status="ok", obligations=obligations, summary=f"shard {shard}/{nshards}: {n} histories ({nontrivial} with heralds/ancillas)",
                functions=[dict(function="lightworks/sdk/circuit/circuit.py:Circuit.add", mechanism="bounded runtime contract (C)", cases=n)])


def replay(cid):
    nP, s1, m1, s2, m2, g2, wrap = json.loads(cid)
    r = run_history(nP, [] if s1 is None else [(s1, m1)], (dict(s2, wrap=wrap, seed=2), m2, g2))
    if r:
        return f"history {cid}: " + "; ".join(f"{k}: {d}" for k, d in r)
    return None


if __name__ == "__main__":
    import sys
    tier = sys.argv[1] if len(sys.argv) > 1 else "quick"
    r = unit(tier)
    print(r["summary"])
    for o in r["obligations"]:
        print(o["name"], o["result"], o.get("model", {}).get("n_failing"), (o.get("replayed") or "")[:300])
