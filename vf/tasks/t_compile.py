"""C01 program-level cross-check (bounded in program length / mode count, symbolic in every real parameter).

For each construction program the REAL Circuit API is driven (xlift exact mode: every reflectivity, phase,
loss is a fresh real symbol constrained to its documented range; boundary values are inside the domain),
and the result is compared with the ordered product of the documented matrices (docs/source/sdk/circuit.rst):
    U       == prod_k  E_k   (n x n; loss acts as diag sqrt(1-loss); barrier = identity)
    U_full  : dimension n + #loss, leading n x n block == U, U_full^dagger U_full == I
"""
from __future__ import annotations

import itertools

import numpy as real_np

from vf.xlift.env import Env


def mat_identity(env, n):
    m = real_np.empty((n, n), dtype=object)
    for i in range(n):
        for j in range(n):
            m[i, j] = env.const(1 if i == j else 0)
    return m


def E_bs(env, n, a, b, r, conv):
    m = mat_identity(env, n)
    if env.mode == "exact":
        sr, st = env.ctx.root(r, 2), env.ctx.root(1 - r, 2)
    else:
        sr, st = r ** 0.5, (1 - r) ** 0.5
    if conv == "Rx":
        m[a, a], m[a, b], m[b, a], m[b, b] = sr, env.I() * st, env.I() * st, sr
    else:
        m[a, a], m[a, b], m[b, a], m[b, b] = sr, st, st, -sr
    return m


def E_ps(env, n, a, phi):
    m = mat_identity(env, n)
    c, s = env.cos_sin(phi)
    m[a, a] = c + env.I() * s
    return m


def E_loss(env, n, a, loss):
    m = mat_identity(env, n)
    m[a, a] = env.ctx.root(1 - loss, 2) if env.mode == "exact" else (1 - loss) ** 0.5
    return m


def E_swaps(env, n, d):
    m = real_np.empty((n, n), dtype=object)
    for i in range(n):
        for j in range(n):
            m[j, i] = env.const(1 if d.get(i, i) == j else 0)
    return m


def E_um(env, n, a, B):
    m = mat_identity(env, n)
    k = B.shape[0]
    for i in range(k):
        for j in range(k):
            m[a + i, a + j] = B[i, j]
    return m


def block_unitary(env, k, tag):
    """a fixed exact unitary with pairwise distinct entries: Cayley transform of a rational skew-Hermitian matrix"""
    from fractions import Fraction
    if env.mode == "exact":
        from vf.xlift import hook
        A = real_np.empty((k, k), dtype=object)
        for i in range(k):
            for j in range(k):
                if i == j:
                    A[i, j] = env.const(1j) * Fraction(i + 1 + tag, 3)
                elif i < j:
                    A[i, j] = env.const(Fraction(i + 2 * j + 1 + tag, 5)) + env.const(1j) * Fraction(j - i + tag, 7)
                else:
                    A[i, j] = -(env.const(Fraction(j + 2 * i + 1 + tag, 5)) - env.const(1j) * Fraction(i - j + tag, 7))
        Id = mat_identity(env, k)
        return (Id - A) @ hook.exact_inv(Id + A)
    A = real_np.zeros((k, k), dtype=complex)
    for i in range(k):
        for j in range(k):
            if i == j:
                A[i, j] = 1j * (i + 1 + tag) / 3
            elif i < j:
                A[i, j] = (i + 2 * j + 1 + tag) / 5 + 1j * (j - i + tag) / 7
            else:
                A[i, j] = -((j + 2 * i + 1 + tag) / 5 - 1j * (i - j + tag) / 7)
    return (real_np.identity(k) - A) @ real_np.linalg.inv(real_np.identity(k) + A)


def component_choices(n):
    out = []
    for a, b in itertools.permutations(range(n), 2):
        for conv in ("Rx", "H"):
            out.append(("bs", a, b, conv))
    for a in range(n):
        out.append(("ps", a))
        out.append(("loss", a))
    for a in range(n):
        out.append(("psl", a))          # ps(..., loss=l)
    if n >= 2:
        out.append(("bsl", 0, n - 1))   # bs(..., loss=l)
    out.append(("barrier",))
    for perm in itertools.permutations(range(n)):
        d = {i: p for i, p in enumerate(perm) if i != p}
        if d:
            out.append(("swaps", tuple(sorted(d.items()))))
    for k in range(1, n + 1):
        for a in range(0, n - k + 1):
            out.append(("um", a, k))
    for a in range(n):
        out.append(("anc", a))          # heralded 2-mode sub-circuit: creates a private ancilla before visible mode a
    return out


def run_program(env, n, prog, mode_type=None):
    """drive the real API; returns (circuit, list of (E builder, is_loss)) for the reference product.
    mode_type: None = python ints; 'np' = numpy integers; 'float' = integral floats (every mode argument of the API calls)"""
    import lightworks as lw
    c = lw.Circuit(n)
    ref = []
    M = {None: (lambda x: x), "np": (lambda x: real_np.int64(x)), "float": (lambda x: float(x)), "f32": (lambda x: real_np.float32(x)),
         "npbool": (lambda x: real_np.bool_(x) if x in (0, 1) else x)}[mode_type]
    prog0 = prog
    prog = [tuple((M(x) if (isinstance(x, int) and not isinstance(x, bool) and k_ in (1, 2) and not (cp[0] == "um" and k_ == 2)) else
                   ([(M(a), M(b)) for a, b in x] if cp[0] == "swaps" and k_ == 1 else x)) for k_, x in enumerate(cp)) for cp in prog] if mode_type else prog
    for idx, (comp, comp0) in enumerate(zip(prog, prog0)):
        kind = comp[0]
        if kind == "anc":
            B = block_unitary(env, 2, idx)
            u = lw.Unitary(B)
            u.herald(0, 0)
            c.add(u, comp[1])
            ref.append(("anc", comp0[1], B, idx))
        elif kind == "bs":
            r = env.sym(f"r{idx}", 0, 1)
            c.bs(comp[1], comp[2], reflectivity=r, convention=comp[3])
            ref.append(("bs", comp0[1], comp0[2], r, comp[3]))
        elif kind == "bsl":
            r = env.sym(f"r{idx}", 0, 1)
            l = env.sym(f"l{idx}", 0, 1, lo_strict=True)
            c.bs(comp[1], comp[2], reflectivity=r, loss=l)
            ref.append(("bs", comp0[1], comp0[2], r, "Rx"))
            ref.append(("loss", comp0[1], l))
            ref.append(("loss", comp0[2], l))
        elif kind == "ps":
            phi = env.sym(f"phi{idx}")
            c.ps(comp[1], phi)
            ref.append(("ps", comp0[1], phi))
        elif kind == "psl":
            phi = env.sym(f"phi{idx}")
            l = env.sym(f"l{idx}", 0, 1, lo_strict=True)
            c.ps(comp[1], phi, loss=l)
            ref.append(("ps", comp0[1], phi))
            ref.append(("loss", comp0[1], l))
        elif kind == "loss":
            l = env.sym(f"l{idx}", 0, 1)
            c.loss(comp[1], l)
            ref.append(("loss", comp0[1], l))
        elif kind == "barrier":
            c.barrier()
            ref.append(("barrier",))
        elif kind == "swaps":
            c.mode_swaps(dict(comp[1]))
            ref.append(("swaps", dict(comp0[1])))
        elif kind == "um":
            B = block_unitary(env, comp[2], idx)
            c.add(lw.Unitary(B), comp[1])
            ref.append(("um", comp0[1], B))
        if idx < len(prog) - 1:
            c.U_full        # the matrix is also read between construction steps: a later step must be reflected by the next read (no stale compiled circuit)
    return c, ref


def layout(n, ref):
    """final full-mode layout: each ancilla sits directly before the visible mode it was inserted at
    (after earlier ancillas inserted at the same place) and is skipped by all user mode numbers"""
    order = []
    for v in range(n):
        for r in ref:
            if r[0] == "anc" and r[1] == v:
                order.append(("a", r[3]))
        order.append(("v", v))
    return {m: k for k, m in enumerate(order)}


def reference_U(env, n, ref):
    pos = layout(n, ref)
    N = len(pos)
    V = lambda v: pos[("v", v)]  # noqa: E731
    U = mat_identity(env, N)
    for r in ref:
        if r[0] == "bs":
            E = E_bs(env, N, V(r[1]), V(r[2]), r[3], r[4])
        elif r[0] == "ps":
            E = E_ps(env, N, V(r[1]), r[2])
        elif r[0] == "loss":
            E = E_loss(env, N, V(r[1]), r[2])
        elif r[0] == "barrier":
            E = mat_identity(env, N)
        elif r[0] == "swaps":
            E = E_swaps(env, N, {V(a): V(b) for a, b in r[1].items()})
        elif r[0] == "anc":
            E = mat_identity(env, N)
            idx = [pos[("a", r[3])], V(r[1])]
            for i in range(2):
                for j in range(2):
                    E[idx[i], idx[j]] = r[2][i, j]
        else:
            k = r[2].shape[0]
            idx = [V(r[1] + t) for t in range(k)]
            E = mat_identity(env, N)
            for i in range(k):
                for j in range(k):
                    E[idx[i], idx[j]] = r[2][i, j]
        U = E @ U
    return U


def check_program(env, n, prog, label, mode_type=None):
    try:
        c, ref = run_program(env, n, prog, mode_type)
    except TypeError:
        if mode_type is None:
            raise
        return          # the API refuses this representation of a mode number: nothing is claimed (a refusal is not a wrong matrix)
    U = c.U
    Uf = c.U_full
    nl = sum(1 for r in ref if r[0] == "loss")
    name = f"lightworks/sdk/circuit/circuit.py:Circuit.U#xsym"
    Uref = reference_U(env, n, ref)
    n = n + sum(1 for r in ref if r[0] == "anc")        # full modes of the circuit (ancillas included), loss modes excluded
    ok = env.check_true(f"{name}.dims[{label}]", U.shape == (n, n) and Uf.shape == (n + nl, n + nl),
                        note="U is n x n, U_full has one extra mode per loss element", model=dict(program=label, U=U.shape, U_full=Uf.shape, n=n, losses=nl))
    if not ok:
        return
    env.check_all_zero(f"{name}.product[{label}]", [((i, j), U[i, j] - Uref[i, j]) for i in range(n) for j in range(n)],
                       note="U = ordered product of the documented component matrices")
    env.check_all_zero(f"{name}.leading-block[{label}]", [((i, j), Uf[i, j] - U[i, j]) for i in range(n) for j in range(n)],
                       note="U is the leading block of U_full")
    N = n + nl
    vals = []
    for i in range(N):
        for j in range(N):
            tot = env.const(0)
            for k in range(N):
                a = Uf[k, i]
                tot = tot + (a.conjugate() if hasattr(a, "conjugate") else a) * Uf[k, j]
            vals.append(((i, j), tot - (1 if i == j else 0)))
    env.check_all_zero(f"{name}.full-unitary[{label}]", vals, note="U_full^dagger U_full = I")


def programs(tier, shard, nshards):
    todo = []
    for n in (1, 2, 3):
        ch = component_choices(n)
        for L in (1, 2):
            for prog in itertools.product(ch, repeat=L):
                todo.append((n, prog))
    if tier == "thorough":
        ch = component_choices(3)
        import random
        rnd = random.Random(7)
        for _ in range(3000):
            todo.append((3, tuple(rnd.choice(ch) for _ in range(3))))
        ch4 = component_choices(4)
        for _ in range(1500):
            todo.append((4, tuple(rnd.choice(ch4) for _ in range(rnd.choice((2, 3, 4))))))
    return [t for k, t in enumerate(todo) if k % nshards == shard]


def plabel(n, prog):
    return f"n={n};" + ";".join(",".join(str(x) for x in comp) for comp in prog)


def unit(mode="exact", tier="quick", seed=0, shard=0, nshards=1, only=None, assignment=None):
    from collections import OrderedDict
    agg = OrderedDict()
    todo = programs(tier, shard, nshards)
    nprog = 0
    npaths = 0
    for n, prog in todo:
        label = plabel(n, prog)
        if only is not None and label != only:
            continue
        nprog += 1
        if mode == "exact":
            from vf.xlift import hook
            for path, log, res in hook.run_paths(lambda: _one(mode, n, prog, label, None)):
                npaths += 1
                if res[0] == "exc":
                    obs = [dict(name="lightworks/sdk/circuit/circuit.py:Circuit.U#xsym.runs[%s]" % label, kind="xsym", result="refuted", backend="xlift",
                                ms=0, note=f"valid program raised {type(res[1]).__name__}: {res[1]}", model=dict(program=label))]
                else:
                    obs = res[1]
                _merge(agg, obs, label)
        else:
            _merge(agg, _one(mode, n, prog, label, assignment), label)
    obligations = list(agg.values())
    for o in obligations:
        if o["result"] in ("refuted", "bounded-fail"):
            o["replay_spec"] = dict(module="vf.tasks.t_compile", func="replay", args=[o["model"].get("program"), o["model"]])
    return dict(status="ok", obligations=obligations, summary=f"shard {shard}/{nshards}: {nprog} programs, {npaths} symbolic paths",
                functions=[dict(function="lightworks/sdk/circuit/circuit.py:Circuit.U/U_full (+ bs/ps/loss/barrier/mode_swaps/add, compiler, components)",
                                mechanism="xlift bounded (C)", programs=nprog, paths=npaths)])


def _merge(agg, obs, label):
    """one obligation per clause over all programs of the shard; failures keep their program"""
    for o in obs:
        clause = o["name"].split("[")[0]
        a = agg.get(clause)
        if a is None:
            a = agg[clause] = dict(name=clause, kind="bnd", result="bounded-pass", backend=o["backend"], ms=0.0, cases=0, note=o.get("note"), sample=label)
        a["cases"] += 1
        a["ms"] += o.get("ms", 0)
        if o["result"] != "proved" and a["result"] == "bounded-pass":
            a["result"] = "bounded-fail" if o["result"] == "refuted" else "unknown"
            a["model"] = dict(program=label, **({"detail": o.get("model")} if o.get("model") else {}))
            a.setdefault("failing_cases", [])
        if o["result"] == "refuted":
            a.setdefault("failing_cases", []).append(label)


def _one(mode, n, prog, label, assignment):
    env = Env(mode, assignment)
    check_program(env, n, prog, label)
    # the same program with its mode numbers given as numpy integers / integral floats: whatever the API accepts must compile to the same matrix
    if sum(map(ord, label)) % 7 == 0:
        for mt in ("np", "float", "f32", "npbool"):
            check_program(env, n, prog, f"{label};modes-as-{mt}", mt)
    return env.obligations


def replay(label, model=None):
    """native float replay of one program on the unmodified package"""
    if label is None:
        return None
    parts = label.split(";")
    n = int(parts[0][2:])
    prog = []
    for p in parts[1:]:
        f = p.split(",")
        if f[0] in ("bs",):
            prog.append(("bs", int(f[1]), int(f[2]), f[3]))
        elif f[0] == "bsl":
            prog.append(("bsl", int(f[1]), int(f[2])))
        elif f[0] in ("ps", "loss", "psl", "anc"):
            prog.append((f[0], int(f[1])))
        elif f[0] == "barrier":
            prog.append(("barrier",))
        elif f[0] == "swaps":
            prog.append(("swaps", eval(",".join(f[1:]))))
        elif f[0] == "um":
            prog.append(("um", int(f[1]), int(f[2])))
    assignment = {}
    w = (model or {}).get("detail", {}) or {}
    w = w.get("witness", w) if isinstance(w, dict) else {}
    for k, v in (w or {}).items():
        try:
            assignment[k] = float(v)
        except (TypeError, ValueError):
            pass
    try:
        obs = _one("native", n, tuple(prog), label, assignment)
    except Exception as e:  # noqa: BLE001
        return f"program {label} raised {type(e).__name__}: {e}"
    bad = [o for o in obs if o["result"] == "refuted"]
    if bad:
        return f"program {label} (parameters {assignment or 'generic'}): " + "; ".join(f"{o['name']} fails: {o.get('model')}" for o in bad[:3])
    return None


def unit_near_unitary(tier="quick", seed=0):
    """C01 'U_full is always unitary', native floats: unitary blocks that are slightly off (columns scaled, a small non-unitary perturbation, a 1x1 block of
    modulus != 1) are either refused, or the circuit built from them has U_full unitary to 1e-9 (the library's own tolerance for a block is 1e-10)."""
    import numpy as np
    import lightworks as lw
    fails, n = [], 0
    rng = np.random.default_rng(5)
    for dim in (1, 2, 3):
        V = lw.random_unitary(dim, seed=dim + 2)
        for eps in (3e-11, 2e-9, 4e-8, 3e-7, 2e-6, 4e-6, 3e-5, 1e-3):
            variants = [("scaled by 1-eps", (1 - eps) * V), ("one column scaled by 1+2eps", V @ np.diag([1 + 2 * eps] + [1] * (dim - 1))),
                        ("perturbed", V + eps * (rng.normal(size=(dim, dim)) + 1j * rng.normal(size=(dim, dim))))]
            for what, M in variants:
                n += 1
                try:
                    blk = lw.Unitary(M)
                except Exception:  # noqa: BLE001
                    continue            # refused
                c = lw.Circuit(dim + 1)
                c.bs(0, reflectivity=0.3)
                c.add(blk, 1)
                c.loss(0, 0.2)
                U = np.array(c.U_full)
                dev = float(np.abs(U.conj().T @ U - np.identity(U.shape[0])).max())
                if dev > 1e-9:
                    fails.append((dict(block=f"{dim}x{dim} {what}", eps=eps), f"the block was accepted and U_full is off unitarity by {dev:.2e}"))
    o = dict(name="lightworks/sdk/circuit/circuit.py:Circuit.U_full#bnd.near-unitary-blocks", kind="bnd", cases=n, result="bounded-fail" if fails else "bounded-pass",
             backend="native floats", ms=0, note="blocks off unitarity by 3e-11 ... 1e-3 (scaled, one column scaled, perturbed; 1x1 to 3x3): refused, or U_full unitary to 1e-9")
    if fails:
        o["failing_cases"] = [str(f[0]) for f in fails[:20]]
        o["model"] = dict(case=fails[0][0], observed=fails[0][1], n_failing=len(fails))
        o["replayed"] = f"{len(fails)} of {n} blocks fail; first {fails[0][0]}: {fails[0][1]}"
    return dict(status="ok", obligations=[o], summary=f"near-unitary blocks: {n} cases")
