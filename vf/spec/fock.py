"""Spec functions written from the property statements (independent of the package's own backend):
Fock amplitudes as permanents, herald insertion, dual-rail encodings."""
import itertools
import math


def fock(n_modes, n_photons):
    """all occupation lists of length n_modes summing to n_photons (lexicographic)"""
    if n_modes == 0:
        return [[]] if n_photons == 0 else []
    out = []
    for first in range(n_photons, -1, -1):
        for rest in fock(n_modes - 1, n_photons - first):
            out.append([first] + rest)
    return out


def ins(state, heralds, n_total):
    """insert herald occupations: positions in `heralds` get their value, the others take the state in order"""
    it = iter(state)
    return [heralds[i] if i in heralds else next(it) for i in range(n_total)]


def amp(env, U, s_in, s_out):
    """<s_out| U |s_in> = perm(U[rows(out), cols(in)]) / sqrt(prod s_in! prod s_out!)"""
    if sum(s_in) != sum(s_out):
        return env.const(0)
    rows = [i for i, k in enumerate(s_out) for _ in range(k)]
    cols = [i for i, k in enumerate(s_in) for _ in range(k)]
    import numpy as np
    sub = np.empty((len(rows), len(cols)), dtype=object)
    for a, r in enumerate(rows):
        for b, c in enumerate(cols):
            sub[a, b] = U[r, c]
    f = 1
    for k in list(s_in) + list(s_out):
        f *= math.factorial(k)
    p = env.perm(sub)
    if f == 1:
        return p
    return p / env.sqrt(f)


def dual_rail(bits):
    s = []
    for b in bits:
        s += [1, 0] if b == 0 else [0, 1]
    return s


def heralded_amp(env, circuit, U_full, vis_in, vis_out, n_loss=0):
    """amplitude between user-visible states with the circuit's heralds inserted and vacuum on loss modes"""
    h = circuit.heralds
    n = circuit.n_modes
    full_in = ins(vis_in, h["input"], n) + [0] * n_loss
    full_out = ins(vis_out, h["output"], n) + [0] * n_loss
    return amp(env, U_full, full_in, full_out)
