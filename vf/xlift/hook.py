"""xlift: run the REAL lightworks modules over the exact field of field.py.

A MetaPathFinder re-reads each lightworks module from the repository under test, applies
ONE mechanical AST transformation and executes it:
  * float / complex literals          -> exact (Gaussian) rationals          _xlit_(c)
  * a / b                             -> exact rational when both are ints   _xdiv_(a, b)
  * module global `np` (numpy)        -> NPProxy: forwards to real numpy, forces dtype=object,
                                         exact allclose / trig / sqrt / linalg
  * thewalrus.perm                    -> exact permanent
Everything else (control flow, classes, dataclasses, copy/deepcopy, dict order, name
mangling) is CPython's own.  What is dropped: nothing; what changes meaning: IEEE doubles
become exact reals (assumption A1).
"""
from __future__ import annotations

import ast
import importlib.abc
import importlib.machinery
import itertools
import os
import sys
from fractions import Fraction

import numpy as real_np

from .field import Ctx, P, X, G0, G1, Undecided, Fork

REPO = os.environ.get("VERIF_REPO", "/repo")
CTX = Ctx()


def ctx():
    return CTX


def _lit(v):
    return X.lift(CTX, v)


def _div(a, b):
    if isinstance(a, (int, Fraction)) and not isinstance(a, bool) and isinstance(b, (int, Fraction)) and not isinstance(b, bool):
        if b == 0:
            raise ZeroDivisionError("division by zero")
        return X.lift(CTX, Fraction(a, b))
    if isinstance(a, real_np.integer) and isinstance(b, (int, real_np.integer)):
        return X.lift(CTX, Fraction(int(a), int(b)))
    return a / b


class Lift(ast.NodeTransformer):
    def visit_Constant(self, n):
        if isinstance(n.value, (float, complex)):
            return ast.copy_location(ast.Call(ast.Name("_xlit_", ast.Load()), [n], []), n)
        return n

    def visit_BinOp(self, n):
        self.generic_visit(n)
        if isinstance(n.op, ast.Div):
            return ast.copy_location(ast.Call(ast.Name("_xdiv_", ast.Load()), [n.left, n.right], []), n)
        return n

    def visit_AugAssign(self, n):
        self.generic_visit(n)
        if isinstance(n.op, ast.Div):
            load = _as_load(n.target)
            return ast.copy_location(ast.Assign([n.target], ast.Call(ast.Name("_xdiv_", ast.Load()), [load, n.value], [])), n)
        return n


def _as_load(t):
    import copy
    t2 = copy.deepcopy(t)
    for x in ast.walk(t2):
        if hasattr(x, "ctx"):
            x.ctx = ast.Load()
    return t2


# --------------------------------------------------------------------------- numpy proxy
class FAngle:
    """formal angle with known cosine and sine (result of arccos / arctan / angle)"""

    def __init__(self, c, s, mult=Fraction(1)):
        self.c, self.s = c, s

    def cos(self):
        return self.c

    def sin(self):
        return self.s

    def __neg__(self):
        return FAngle(self.c, -self.s)

    def __sub__(self, o):
        if isinstance(o, FAngle):
            return FAngle(self.c * o.c + self.s * o.s, self.s * o.c - self.c * o.s)
        return NotImplemented

    def __add__(self, o):
        if isinstance(o, FAngle):
            return FAngle(self.c * o.c - self.s * o.s, self.s * o.c + self.c * o.s)
        return NotImplemented

    def __mul__(self, k):
        r = k.rational() if isinstance(k, X) else (Fraction(k) if isinstance(k, (int, Fraction)) else None)
        if r == 2:
            return self + self
        if r == 1:
            return self
        return NotImplemented
    __rmul__ = __mul__


def _obj(a):
    a = real_np.asarray(a, dtype=object) if not isinstance(a, real_np.ndarray) else a
    out = real_np.empty(a.shape, dtype=object)
    for idx, v in real_np.ndenumerate(a):
        out[idx] = v if isinstance(v, X) else X.lift(CTX, v)
    return out


def _map(a, f):
    if isinstance(a, real_np.ndarray):
        out = real_np.empty(a.shape, dtype=object)
        for idx, v in real_np.ndenumerate(a):
            out[idx] = f(v if isinstance(v, (X, FAngle)) else X.lift(CTX, v))
        return out
    if isinstance(a, (list, tuple)):
        return _map(real_np.array(a, dtype=object), f)
    return f(a if isinstance(a, (X, FAngle)) else X.lift(CTX, a))


def _numeric_dtype(dtype):
    return dtype in (complex, float, real_np.complex128, real_np.float64, "complex", "float") or dtype is None


class LinalgProxy:
    def __getattr__(self, k):
        return getattr(real_np.linalg, k)

    def inv(self, a):
        return exact_inv(_obj(a))

    def pinv(self, a):
        a = _obj(a)
        ah = NP.conj(a.T)
        return exact_inv(ah @ a) @ ah

    def solve(self, a, b):
        return exact_inv(_obj(a)) @ _obj(b)

    def det(self, a):
        return exact_det(_obj(a))

    def norm(self, a):
        a = _obj(a)
        tot = X.lift(CTX, 0)
        for v in a.ravel():
            tot = tot + v * v.conjugate()
        return CTX.root(tot.simp(), 2)


def exact_inv(a):
    n = a.shape[0]
    m = [[a[i, j] for j in range(n)] + [X.lift(CTX, 1 if i == j else 0) for j in range(n)] for i in range(n)]
    for col in range(n):
        piv = None
        for r in range(col, n):
            if not m[r][col].is_zero():
                piv = r
                break
        if piv is None:
            raise real_np.linalg.LinAlgError("singular matrix (exact)")
        m[col], m[piv] = m[piv], m[col]
        inv = X.lift(CTX, 1) / m[col][col]
        m[col] = [(v * inv).simp() for v in m[col]]
        for r in range(n):
            if r != col and not m[r][col].is_zero():
                f = m[r][col]
                m[r] = [(v - f * w).simp() for v, w in zip(m[r], m[col])]
    out = real_np.empty((n, n), dtype=object)
    for i in range(n):
        for j in range(n):
            out[i, j] = m[i][n + j]
    return out


def exact_det(a):
    n = a.shape[0]
    if n == 0:
        return X.lift(CTX, 1)
    if n == 1:
        return a[0, 0]
    tot = X.lift(CTX, 0)
    for j in range(n):
        minor = real_np.delete(real_np.delete(a, 0, axis=0), j, axis=1)
        tot = tot + (a[0, j] * exact_det(minor)) * (1 if j % 2 == 0 else -1)
    return tot.simp()


def exact_perm(a):
    """permanent by expansion along the first row (exact; sizes here are <= 8)"""
    a = _obj(a)
    n = a.shape[0]
    if n == 0:
        return X.lift(CTX, 1)
    memo = {}

    def rec(row, cols):
        if row == n:
            return X.lift(CTX, 1)
        key = (row, cols)
        if key in memo:
            return memo[key]
        tot = X.lift(CTX, 0)
        for j in range(n):
            if cols & (1 << j):
                continue
            v = a[row, j]
            if v.simp().n.is_zero():
                continue
            tot = tot + v * rec(row + 1, cols | (1 << j))
        memo[key] = tot
        return tot
    return rec(0, 0).simp()


class NPProxy:
    ndarray = real_np.ndarray
    linalg = LinalgProxy()
    inf = real_np.inf

    def __getattr__(self, k):
        return getattr(real_np, k)

    @property
    def pi(self):
        return CTX.pi

    def identity(self, n, dtype=None):
        return _obj(real_np.identity(int(n), dtype=int)) if _numeric_dtype(dtype) else real_np.identity(n, dtype=dtype)

    def eye(self, n, dtype=None):
        return self.identity(n, dtype)

    def zeros(self, shape, dtype=None):
        if dtype in (int, bool, "int"):
            return real_np.zeros(shape, dtype=dtype)
        return _obj(real_np.zeros(shape, dtype=int))

    def ones(self, shape, dtype=None):
        if dtype in (int, bool, "int"):
            return real_np.ones(shape, dtype=dtype)
        return _obj(real_np.ones(shape, dtype=int))

    def array(self, a, dtype=None, **kw):
        if dtype in (int, bool, object, str):
            return real_np.array(a, dtype=dtype, **kw)
        arr = a if isinstance(a, real_np.ndarray) else real_np.array(a, dtype=object)
        if arr.dtype.kind in "US":
            return real_np.array(a)
        if arr.dtype.kind in "iub" and dtype is None:
            return real_np.array(arr)      # integer arrays stay integer (index lists etc.)
        if arr.dtype.kind in "fcO" or dtype is not None:
            if arr.dtype == object and arr.size and not all(isinstance(v, (X, int, float, complex, Fraction, real_np.number)) for v in arr.ravel()):
                return arr
            return _obj(arr)
        return arr

    def asarray(self, a, dtype=None):
        return self.array(a, dtype)

    def allclose(self, a, b, rtol=None, atol=None):
        """exact reading of np.allclose(a, b, rtol=0, atol): max|a-b| <= atol.  Entries are decided exactly;
        a difference whose normal form is zero passes for every tolerance."""
        rtol = X.lift(CTX, Fraction(1, 100000)) if rtol is None else X.lift(CTX, rtol)
        atol = X.lift(CTX, Fraction(1, 10 ** 8)) if atol is None else X.lift(CTX, atol)
        a, b = _obj(a), _obj(b)
        a, b = real_np.broadcast_arrays(a, b)
        for x, y in zip(a.ravel(), b.ravel()):
            d = (x - y).simp()
            if d.n.is_zero():
                continue
            lhs = abs(d)
            rhs = atol + rtol * abs(y)
            if not (lhs <= rhs):
                return False
        return True

    def isclose(self, a, b, rtol=None, atol=None):
        return self.allclose(a, b, rtol, atol)

    def conj(self, a):
        return _map(a, lambda v: v.conjugate())

    def conjugate(self, a):
        return self.conj(a)

    def real(self, a):
        return _map(a, lambda v: v.real)

    def imag(self, a):
        return _map(a, lambda v: v.imag)

    def abs(self, a):
        return _map(a, abs)

    absolute = abs

    def sqrt(self, a):
        return _map(a, lambda v: CTX.root(v, 2) if v.is_real() else _csqrt(v))

    def cos(self, a):
        return _map(a, lambda v: v.cos() if isinstance(v, FAngle) else CTX.trig(v)[0])

    def sin(self, a):
        return _map(a, lambda v: v.sin() if isinstance(v, FAngle) else CTX.trig(v)[1])

    def exp(self, a):
        def f(v):
            if isinstance(v, FAngle):
                raise Undecided("exp of a bare angle")
            re, im = v.real.simp(), v.imag.simp()
            if not re.n.is_zero():
                raise Undecided("exp with a real part")
            c, s = CTX.trig(im)
            return c + X.lift(CTX, 1j) * s
        return _map(a, f)

    def arccos(self, a):
        def f(v):
            one = X.lift(CTX, 1)
            if not (-one <= v) or not (v <= one):
                raise ValueError("arccos domain")
            return FAngle(v, CTX.root((one - v * v).simp(), 2))
        return _map(a, f)

    def arctan(self, a):
        def f(v):
            # cos = 1/sqrt(1+v^2), sin = v/sqrt(1+v^2)
            den = CTX.root((X.lift(CTX, 1) + v * v).simp(), 2)
            return FAngle(X.lift(CTX, 1) / den, v / den)
        return _map(a, f)

    def angle(self, a):
        def f(v):
            r = abs(v)
            if r.is_zero():
                return FAngle(X.lift(CTX, 1), X.lift(CTX, 0))
            return FAngle((v.real / r).simp(), (v.imag / r).simp())
        return _map(a, f)

    def round(self, a, decimals=0):
        return a

    def trace(self, a):
        a = _obj(a)
        tot = X.lift(CTX, 0)
        for i in range(min(a.shape)):
            tot = tot + a[i, i]
        return tot.simp()

    def mean(self, a):
        vals = list(real_np.asarray(a, dtype=object).ravel())
        tot = X.lift(CTX, 0)
        for v in vals:
            tot = tot + v
        return tot / len(vals)

    def sum(self, a, axis=None):
        if axis is None:
            tot = X.lift(CTX, 0)
            for v in real_np.asarray(a, dtype=object).ravel():
                tot = tot + v
            return tot
        return real_np.sum(a, axis=axis)

    def kron(self, a, b):
        return real_np.kron(_obj(a), _obj(b))

    def outer(self, a, b):
        return real_np.outer(_obj(a), _obj(b))

    def isnan(self, a):
        return False

    def log10(self, a):
        raise Undecided("log10 in exact arithmetic")

    def pad(self, a, *args, **kw):
        if "constant_values" in kw:
            kw["constant_values"] = X.lift(CTX, kw["constant_values"]) if not isinstance(kw["constant_values"], X) else kw["constant_values"]
        return real_np.pad(a, *args, **kw)


def _csqrt(v):
    raise Undecided("square root of a complex value")


NP = NPProxy()

LIFT_PREFIXES = ("lightworks",)


class Finder(importlib.abc.MetaPathFinder, importlib.abc.Loader):
    def find_spec(self, name, path, target=None):
        if not name.startswith(LIFT_PREFIXES):
            return None
        if name == "lightworks":
            spec = importlib.machinery.PathFinder.find_spec(name, [REPO])
        else:
            spec = importlib.machinery.PathFinder.find_spec(name, path)
        if spec is None or not spec.origin or not spec.origin.endswith(".py"):
            return spec
        spec.loader = self
        return spec

    def create_module(self, spec):
        return None

    def exec_module(self, module):
        src = open(module.__spec__.origin).read()
        tree = Lift().visit(ast.parse(src))
        ast.fix_missing_locations(tree)
        module.__dict__["_xlit_"] = _lit
        module.__dict__["_xdiv_"] = _div
        exec(compile(tree, module.__spec__.origin, "exec"), module.__dict__)
        d = module.__dict__
        if d.get("np") is real_np:
            d["np"] = NP
        if "perm" in d and getattr(d["perm"], "__module__", "").startswith("thewalrus"):
            d["perm"] = exact_perm
        if module.__name__.endswith("probability_distribution") and "pdist_calc" in d:
            d["pdist_calc"] = _by_key_class(d["pdist_calc"])
        LIFTED.append(module.__spec__.origin)


def _by_key_class(mm):
    """multimethod dispatch of pdist_calc is on dict[State, int | float] vs dict[AnnotatedState, ...]; the exact scalar is
    neither int nor float, so under xlift the dispatch is done on the class of the dict keys only (same two bodies)."""
    fns = {f.__name__: f for f in mm.values()}

    def pdist_calc(circuit, inputs, backend):
        key = next(iter(inputs), None)
        if type(key).__name__ == "AnnotatedState":
            return fns["annotated_state_pdist_calc"](circuit, inputs, backend)
        return fns["pdist_calc"](circuit, inputs, backend)
    pdist_calc.register = mm.register
    return pdist_calc


LIFTED = []
_installed = False


def install():
    global _installed
    if _installed:
        return
    for k in list(sys.modules):
        if k == "lightworks" or k.startswith("lightworks."):
            raise RuntimeError("lightworks imported before the xlift hook was installed")
    sys.meta_path.insert(0, Finder())
    _installed = True


# --------------------------------------------------------------------------- task harness
def begin(prefix=()):
    c = CTX
    c.mark = getattr(c, "mark", None)
    if not hasattr(c, "base_atoms"):
        c.base_atoms = len(c.atoms)
        c.base_memo = dict(c.memo)
        c.base_constraints = list(c.constraints)
    del c.atoms[c.base_atoms:]
    c.memo = dict(c.base_memo)
    c.constraints = list(c.base_constraints)
    c.path = []
    c.prefix = list(prefix)
    c.di = 0
    c.decisions_log = []


def freeze_base():
    """call after importing lightworks: atoms created by module-level code stay valid for every task"""
    c = CTX
    c.base_atoms = len(c.atoms)
    c.base_memo = dict(c.memo)
    c.base_constraints = list(c.constraints)


def run_paths(task, max_paths=256):
    """run task() over every feasible decision path; yields (path_constraints, result) per path.
    task may raise; exceptions other than Fork are delivered as results."""
    CTX.pending = [[]]
    n = 0
    while CTX.pending:
        prefix = CTX.pending.pop()
        n += 1
        if n > max_paths:
            raise Undecided("too many symbolic paths")
        begin(prefix)
        try:
            res = ("ok", task())
        except Fork:
            continue
        except Undecided:
            raise
        except Exception as e:  # noqa: BLE001
            res = ("exc", e)
        yield list(CTX.path), list(CTX.decisions_log), res
