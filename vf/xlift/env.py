"""Arithmetic environment shared by xlift tasks: the same task code runs
  * exact   - under the import hook, symbols are field atoms, identities are decided by normal form / z3;
  * native  - plain CPython floats on the unmodified package (used for replaying counter-examples).
"""
from __future__ import annotations

import itertools
import json
import math
import time
from fractions import Fraction

import numpy as real_np


class Env:
    def __init__(self, mode="exact", assignment=None):
        self.mode = mode
        self.assignment = assignment or {}
        self.obligations = []
        if mode == "exact":
            from . import hook
            self.hook = hook
            self.ctx = hook.CTX

    # ---- inputs
    def sym(self, name, lo=None, hi=None, lo_strict=False, hi_strict=False):
        if self.mode == "exact":
            return self.ctx.symbol(name, lo, hi, lo_strict, hi_strict)
        if name in self.assignment:
            return float(self.assignment[name])
        import random
        rnd = random.Random(hash(name) & 0xFFFF)
        a = -3.0 if lo is None else float(lo)
        b = 3.0 if hi is None else float(hi)
        return a + (b - a) * (0.1 + 0.8 * rnd.random())

    def const(self, v):
        if self.mode == "exact":
            from .field import X
            return X.lift(self.ctx, v)
        return complex(v) if isinstance(v, complex) else float(v)

    def sqrt(self, v):
        if self.mode == "exact":
            from .field import X
            return self.ctx.root(X.lift(self.ctx, v), 2)
        return math.sqrt(v)

    def I(self):  # noqa: E743
        return self.const(1j)

    def cos_sin(self, angle):
        if self.mode == "exact":
            return self.ctx.trig(angle)
        return math.cos(angle), math.sin(angle)

    @property
    def pi(self):
        return self.ctx.pi if self.mode == "exact" else math.pi

    # ---- exact / numeric helpers
    def perm(self, m):
        if self.mode == "exact":
            return self.hook.exact_perm(m)
        m = real_np.asarray(m, dtype=complex)
        n = m.shape[0]
        if n == 0:
            return 1.0 + 0j
        tot = 0j
        for p in itertools.permutations(range(n)):
            v = 1.0 + 0j
            for i in range(n):
                v *= m[i, p[i]]
            tot += v
        return tot

    def is_zero(self, v, tol=1e-9):
        """-> ('proved'|'refuted'|'unknown', witness)"""
        if self.mode == "native":
            return ("proved", None) if abs(complex(v)) <= tol else ("refuted", {"value": str(complex(v))})
        from .field import X, Undecided
        import z3
        v = X.lift(self.ctx, v).simp()
        if v.n.is_zero():
            return "proved", None
        if not v.has_symbols():
            try:
                v._confirm_nonzero()
                return "refuted", {"value": str(complex(v))}
            except Undecided:
                return "unknown", None
        # symbols: a fraction is zero iff its numerator is; first try to refute numerically at sample points
        # (a non-zero value at a point satisfying domain + path is a genuine counterexample), then z3-nlsat.
        num = X(self.ctx, v.n)
        wit = self.numeric_witness(num)
        if wit is not None:
            return "refuted", wit
        try:
            goal = z3.And(num.to_z3("re") == 0, num.to_z3("im") == 0)
        except Undecided:
            return "unknown", None
        return self.ctx.valid(goal)

    def numeric_witness(self, num, tries=4):
        import random
        import z3
        import mpmath
        ctx = self.ctx
        syms = [a for a in ctx.atoms if a.kind == "sym"]
        rnd = random.Random(12345)
        fr_b = [0.37, 0.71, 0.13, 0.93]
        fr_u = [0.7, -1.3, 2.1, -0.4]
        for k in range(tries):
            s = z3.Solver()
            s.set("rlimit", 2_000_000)
            s.add(*ctx.defs_z3())
            s.add(*ctx.constraints)
            s.add(*ctx.path)
            for j, a in enumerate(syms):
                lo, hi = getattr(a, "bounds", (None, None))
                if k < 2:
                    # generic "nice" points first
                    if lo is not None and hi is not None:
                        val = float(lo) + (float(hi) - float(lo)) * fr_b[(k + j) % 4]
                    else:
                        val = fr_u[(k + j) % 4] + (0 if lo is None else max(0.0, float(lo) + 1))
                    s.add(a.z3 == z3.RealVal(str(Fraction(val).limit_denominator(1000))))
                else:
                    c = rnd.uniform(-3, 3)
                    s.add(a.z3 > c) if rnd.random() < 0.5 else s.add(a.z3 < c)
                    s.add(a.z3 != 0, a.z3 != 1)
            if s.check() != z3.sat:
                continue
            m = s.model()
            assign = {}
            for a in syms:
                val = m.eval(a.z3, model_completion=True)
                if z3.is_rational_value(val):
                    fr = val.as_fraction()
                    assign[a.name] = mpmath.mpf(fr.numerator) / fr.denominator
                elif z3.is_algebraic_value(val):
                    fr = val.approx(40).as_fraction()
                    assign[a.name] = mpmath.mpf(fr.numerator) / fr.denominator
                else:
                    assign = None
                    break
            if assign is None:
                continue
            try:
                val = num.numeric(assign)
            except Exception:  # noqa: BLE001
                continue
            if abs(val) > mpmath.mpf(10) ** -30:
                return {**{k_: float(v_) for k_, v_ in assign.items()}, "value": str(complex(val))}
        return None

    def check_zero(self, name, v, note="", group=None):
        t0 = time.time()
        res, wit = self.is_zero(v)
        backend = "xlift normal form" if (res == "proved" and wit is None and self.mode == "exact") else "xlift + z3-nlsat"
        if self.mode == "native":
            backend = "native float replay"
        o = dict(name=name, kind="xsym", result=res, backend=backend, ms=round((time.time() - t0) * 1000, 1), note=note)
        if wit is not None:
            o["model"] = wit
        if self.mode == "exact":
            o["path"] = [f"{d}={c}" for d, c in self.ctx.decisions_log]
        self.obligations.append(o)
        return res == "proved"

    def check_all_zero(self, name, values, note=""):
        """one obligation for a whole family of entries (reported individually only when one fails)"""
        t0 = time.time()
        bad = None
        unknown = False
        n = 0
        for label, v in values:
            n += 1
            res, wit = self.is_zero(v)
            if res == "refuted":
                bad = (label, wit)
                break
            if res == "unknown":
                unknown = True
        o = dict(name=name, kind="xsym", entries=n, result="refuted" if bad else ("unknown" if unknown else "proved"),
                 backend=("xlift normal form / z3-nlsat" if self.mode == "exact" else "native float replay"),
                 ms=round((time.time() - t0) * 1000, 1), note=note)
        if bad:
            o["model"] = {"entry": str(bad[0]), "witness": bad[1]}
        if self.mode == "exact":
            o["path"] = [f"{d}={c}" for d, c in self.ctx.decisions_log]
        self.obligations.append(o)
        return bad is None and not unknown

    def check_true(self, name, cond, note="", model=None):
        o = dict(name=name, kind="xsym", result="proved" if cond else "refuted",
                 backend="xlift (exact evaluation)" if self.mode == "exact" else "native float replay", ms=0.0, note=note)
        if not cond and model is not None:
            o["model"] = model
        if self.mode == "exact":
            o["path"] = [f"{d}={c}" for d, c in self.ctx.decisions_log]
        self.obligations.append(o)
        return cond
