"""subprocess entry: python -m vf.xlift.runner <module> <func> <json kwargs>  -> JSON record on the last stdout line"""
import importlib
import json
import sys
import traceback


def main():
    module, func, kwargs = sys.argv[1], sys.argv[2], json.loads(sys.argv[3])
    mode = kwargs.pop("_mode", "exact")
    try:
        if mode == "exact":
            from vf.xlift import hook
            hook.install()
            import lightworks  # noqa: F401
            hook.freeze_base()
        mod = importlib.import_module(module)
        rec = getattr(mod, func)(mode=mode, **kwargs)
        if mode == "exact":
            from vf.xlift import hook
            rec.setdefault("lifted_modules", len(hook.LIFTED))
    except Exception as e:  # noqa: BLE001
        rec = dict(status="crash", error=f"{type(e).__name__}: {e}\n{traceback.format_exc()[-3000:]}", obligations=[])
    print("\n@@RESULT@@" + json.dumps(rec, default=str))


if __name__ == "__main__":
    main()
