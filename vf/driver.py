"""check driver: runs every unit of a property, decides, writes evidence and replays.

Exit codes: 0 held on everything explored (KNOWN-FINDING lines allowed) / 1 violation /
2 undecided / 3 checker failure.  See DESIGN.md section 4.
"""
from __future__ import annotations

import hashlib
import importlib
import json
import os
import re
import sys
import time
import traceback
from concurrent.futures import ProcessPoolExecutor, as_completed

ROOT = os.path.dirname(os.path.dirname(os.path.abspath(__file__)))
sys.path.insert(0, ROOT)

from vf.pyvc.source import REPO  # noqa: E402

if REPO != "/repo":
    sys.path.insert(0, REPO)   # replays import lightworks from the tree under test


def strip_line(name):
    return re.sub(r"@L\d+", "", name)


def load_known():
    p = os.path.join(ROOT, "known_findings.json")
    if not os.path.exists(p):
        return []
    return json.load(open(p)).get("findings", [])


# --------------------------------------------------------------------------- unit runners (worker side)
def run_unit(prop, unit, tier, seed):
    """executed in a worker process; returns a JSON-able record"""
    kind = unit["kind"]
    t0 = time.time()
    try:
        if kind == "pyvc":
            rec = run_pyvc(unit, tier)
        elif kind == "xlift":
            rec = run_xlift(unit, tier, seed)
        else:
            mod = importlib.import_module(unit["module"])
            rec = getattr(mod, unit["func"])(tier=tier, seed=seed, **unit.get("args", {}))
        rec.setdefault("obligations", [])
    except Exception as e:  # noqa: BLE001
        rec = dict(status="crash", error=f"{type(e).__name__}: {e}\n{traceback.format_exc()[-2000:]}", obligations=[])
    rec["unit"] = unit["name"]
    rec["mechanism"] = unit.get("mechanism", kind)
    rec["wall_s"] = round(time.time() - t0, 2)
    return rec


def run_xlift(unit, tier, seed):
    """xlift tasks run in their own interpreter (the import hook must be installed before lightworks is imported)"""
    import subprocess
    kwargs = dict(unit.get("args", {}))
    kwargs.update(tier=tier, seed=seed)
    env = dict(os.environ)
    env["PYTHONPATH"] = ROOT + (os.pathsep + REPO if REPO != "/repo" else "")
    limit = unit.get("timeout", 600 if tier == "quick" else 3600)
    try:
        p = subprocess.run([sys.executable, "-m", "vf.xlift.runner", unit["module"], unit["func"], json.dumps(kwargs)],
                           capture_output=True, text=True, cwd=ROOT, env=env, timeout=limit)
    except subprocess.TimeoutExpired:
        # the exact-arithmetic run did not finish (typically: code under test that branches on the symbolic inputs far more often than
        # the unchanged code): undecided, never a violation and not a crash of the checker
        return dict(status="ok", obligations=[dict(name=f"{unit['module']}:{unit['func']}#xsym.time-limit[{unit['name']}]", kind="xsym", result="unknown", backend="xlift", ms=limit * 1000,
                                                   reason=f"no result within {limit} s")])
    if "@@RESULT@@" not in p.stdout:
        return dict(status="crash", error=(p.stderr or p.stdout)[-2000:], obligations=[])
    rec = json.loads(p.stdout.split("@@RESULT@@")[1])
    # native replay of refuted identities on the unmodified package (plain floats)
    for o in rec.get("obligations", []):
        if o["result"] in ("refuted", "bounded-fail") and o.get("replay_spec"):
            sp = o["replay_spec"]
            try:
                q = subprocess.run([sys.executable, "-c",
                                    "import sys, json, importlib; sys.path.insert(0, %r); a = json.loads(sys.argv[1]); "
                                    "m = importlib.import_module(a['module']); print('@@R@@' + json.dumps(getattr(m, a['func'])(*a.get('args', []))))" % ROOT,
                                    json.dumps(sp, default=str)], capture_output=True, text=True, cwd=ROOT, env=env, timeout=600)
                if "@@R@@" in q.stdout:
                    o["replayed"] = json.loads(q.stdout.split("@@R@@")[1])
                else:
                    o["replay_error"] = (q.stderr or q.stdout)[-500:]
            except Exception as e:  # noqa: BLE001
                o["replay_error"] = str(e)
    return rec


def run_pyvc(unit, tier):
    from vf.pyvc.solve import verify_contract
    from vf.pyvc.source import SourceIndex
    ix = SourceIndex()
    mod = importlib.import_module(unit["module"])
    reg = {}
    for m in unit.get("registry_modules", [unit["module"]]):
        for c in importlib.import_module(m).CONTRACTS:
            reg.setdefault(c.target, []).append(c)
    c = [c for c in mod.CONTRACTS if c.target == unit["target"] and c.kind == unit.get("ckind", "function")
         and getattr(c, "ordinal", 0) == unit.get("ordinal", 0)][unit.get("nth", 0)]
    rec = verify_contract(ix, reg, c, tier)
    rec["contract_module"] = unit["module"]
    # soundness cross-check of the proved contract against CPython (assumption A2): the contract's native enumerator is run on the
    # real function; a failing case although every obligation was proved means the encoding of Python (or the oracle) is wrong
    if rec["status"] == "ok" and rec["obligations"] and all(o["result"] == "proved" for o in rec["obligations"]) and getattr(c, "enum", None) and c.replay:
        n = 0
        for inp in c.enum():
            n += 1
            if n > 20000:
                break
            try:
                msg = c.replay(inp)
            except Exception as e:  # noqa: BLE001
                msg = f"native run raised {type(e).__name__}: {e}"
            if msg:
                # the real function violates the contract on a concrete input although pyvc proved it: the proof does not cover this input
                # (machine arithmetic / library behaviour outside assumption A1, or an unsound encoding - A2).  The native run is the
                # ground truth: reported as a violation with its failing input, the discrepancy is named in the evidence.
                rec["proof_gap"] = f"proved by pyvc under A1/A2 but fails natively on {inp}: {msg}"
                rec["native"] = dict(replays=[], search=dict(cases=n, failing_input=inp, observed=msg + "  [pyvc proves the clause under A1 (mathematical integers / reals) - this input lies outside that model]",
                                                             by="native enumerator of the contract"))
                break
        rec["native_crosscheck_cases"] = n
    # the contract TEXT itself evaluated at run time on the real function over generated small inputs (vf/pyvc/rtc.py): the same
    # A2 cross-check for every contract, and the fall-back when pyvc cannot decide the current text of the function
    from vf.pyvc import rtc
    try:
        rt = rtc.check_contract(c, limit=120)
    except Exception as e:  # noqa: BLE001
        rt = dict(status="unavailable", reason=f"{type(e).__name__}: {e}", cases=0, skipped_clauses=[])
    rec["runtime_contract"] = dict(status=rt["status"], cases=rt.get("cases", 0), skipped_clauses=rt.get("skipped_clauses"), reason=rt.get("reason"),
                                   unevaluable=rt.get("eval_errors"))
    if rt["status"] == "violated" and rec["status"] == "ok" and rec["obligations"] and all(o["result"] == "proved" for o in rec["obligations"]) and not rec.get("native"):
        rec["proof_gap"] = f"proved by pyvc under A1/A2 but its run-time evaluation fails on {rt['failing_input']}: {rt['observed']}"
        rec["native"] = dict(replays=[], search=dict(cases=rt["cases"], failing_input=rt["failing_input"], observed=rt["observed"], by="run-time evaluation of the contract (vf/pyvc/rtc.py)"))
    failing = [o for o in rec["obligations"] if o["result"] == "refuted"]
    demote = rec["status"] in ("outside-subset", "crash", "missing") or any(o["result"] == "unknown" for o in rec["obligations"])
    if (failing or demote) and not rec.get("proof_gap"):
        native = native_fallback(c, failing)
        if rt["status"] == "violated" and not any(r_["reproduced"] for r_ in native["replays"]) and not (native.get("search") or {}).get("failing_input"):
            native["search"] = dict(cases=rt["cases"], failing_input=rt["failing_input"], observed=rt["observed"], by="run-time evaluation of the contract (vf/pyvc/rtc.py)")
        elif native.get("search") is None and rt["status"] == "ok":
            native["search"] = dict(cases=rt["cases"], failing_input=None, by="run-time evaluation of the contract (vf/pyvc/rtc.py)")
        rec["native"] = native
    return rec


def native_fallback(c, failing):
    """replay counter-models on the real code; then bounded native search with the contract's enumerator"""
    out = dict(replays=[], search=None)
    if c.replay is None:
        return out
    for o in failing:
        try:
            msg = c.replay(o["model"])
        except Exception as e:  # noqa: BLE001
            msg = None
            o["replay_error"] = f"{type(e).__name__}: {e}"
        o["replayed"] = msg
        out["replays"].append(dict(obligation=o["name"], reproduced=bool(msg), observed=msg))
    enum = getattr(c, "enum", None) or c.__dict__.get("enum")
    if enum is not None and not any(r["reproduced"] for r in out["replays"]):
        n = 0
        for inp in enum():
            n += 1
            try:
                msg = c.replay(inp)
            except Exception as e:  # noqa: BLE001
                msg = f"replay raised {type(e).__name__}: {e}"
            if msg:
                out["search"] = dict(cases=n, failing_input=inp, observed=msg)
                break
        else:
            out["search"] = dict(cases=n, failing_input=None)
    return out


# --------------------------------------------------------------------------- main
def units_of(prop):
    mod = importlib.import_module(f"vf.props.{prop}")
    return mod


def selftest(ids):
    """every seeded change must be caught: apply seeded/<id>-<k>/patch.diff to a scratch copy of the repository, run the
    property's quick check against it (must exit 1) and the seed's own demonstration (must fail)."""
    import glob
    import shutil
    import subprocess
    import tempfile
    seeds = sorted(glob.glob(os.path.join(ROOT, "seeded", "*-*")))
    if ids:
        seeds = [s for s in seeds if os.path.basename(s).split("-")[0] in ids]
    skipped = []
    bad = 0
    for sd in seeds:
        pid = os.path.basename(sd).split("-")[0]
        scr = tempfile.mkdtemp(prefix="verif-selftest.")
        try:
            shutil.copytree(os.path.join(REPO, "lightworks"), os.path.join(scr, "lightworks"))
            ap = subprocess.run(["patch", "-p1", "-s", "-i", os.path.join(sd, "patch.diff")], cwd=scr, capture_output=True, text=True)
            if ap.returncode != 0:
                print(f"SELFTEST {os.path.basename(sd)}: patch does not apply to the current tree (skipped)")
                skipped.append(os.path.basename(sd))
                continue
            env = dict(os.environ, VERIF_REPO=scr)
            p = subprocess.run([sys.executable, "-m", "vf.driver", pid, "quick"], cwd=ROOT, env=env, capture_output=True, text=True)
            d = subprocess.run(["/venv/bin/python", os.path.join(sd, "demo.py")], cwd=scr, env=dict(os.environ, PYTHONPATH=scr), capture_output=True, text=True)
            ok = p.returncode == 1 and d.returncode != 0
            bad += not ok
            print(f"SELFTEST {os.path.basename(sd)}: check exit {p.returncode} ({'caught' if p.returncode == 1 else 'NOT CAUGHT'}), demo exit {d.returncode}")
        finally:
            shutil.rmtree(scr, ignore_errors=True)
    print(f"selftest: {len(seeds) - bad - len(skipped)}/{len(seeds)} seeded changes caught" + (f"; {len(skipped)} skipped because their patch no longer applies: {skipped}" if skipped else ""))
    return 0 if bad == 0 else 3


def main(argv):
    if argv and argv[0] == "--replay":
        return replay_file(argv[1])
    if argv and argv[0] == "--selftest":
        return selftest(argv[1:])
    prop = argv[0]
    tier = argv[1] if len(argv) > 1 else os.environ.get("VERIF_TIER", "quick")
    seed = int(os.environ.get("VERIF_SEED", "0"))
    t0 = time.time()
    pm = units_of(prop)
    units = pm.units(tier)
    known = [k for k in load_known() if k["property"] == prop and k.get("status", "open") == "open"]
    results = []
    workers = int(os.environ.get("VERIF_JOBS", "16"))
    with ProcessPoolExecutor(max_workers=min(workers, max(1, len(units)))) as pool:
        futs = {pool.submit(run_unit, prop, u, tier, seed): u for u in units}
        for f in as_completed(futs):
            try:
                results.append(f.result())
            except Exception as e:  # noqa: BLE001
                results.append(dict(unit=futs[f]["name"], status="crash", error=str(e), obligations=[], mechanism=futs[f]["kind"]))
    results.sort(key=lambda r: r["unit"])
    return decide(prop, tier, seed, pm, units, results, known, time.time() - t0)


def decide(prop, tier, seed, pm, units, results, known, wall):
    violations, known_hits, undecided, crashes, demoted = [], [], [], [], []
    n_obl = n_dis = n_bounded = n_bounded_pass = 0
    solver_ms = 0.0
    samples = []
    functions = []
    assumptions = set(getattr(pm, "ASSUMPTIONS", []))
    trusted = set(getattr(pm, "TRUSTED", []))
    backends = {}
    os.makedirs(os.path.join(ROOT, "replays", prop), exist_ok=True)
    for r in results:
        mech = r.get("mechanism")
        if r.get("status") in ("crash", "vacuous"):
            # a crash of the engine on changed code is a demotion if a native fallback ran, else checker failure
            if r.get("native") is None:
                crashes.append(f"{r['unit']}: {r.get('status')}: {r.get('error', '')[:300]}")
        if r.get("status") in ("outside-subset", "missing", "crash") and r.get("native") is not None:
            demoted.append(dict(unit=r["unit"], reason=r.get("error", r.get("status"))[:300]))
        for a in r.get("assumptions", []):
            assumptions.add(a)
        for a in r.get("trusted", []):
            trusted.add(a)
        if r.get("target"):
            functions.append(dict(function=r["target"], mechanism=mech, status=r.get("status"), source_hash=r.get("source_hash"),
                                  lines=r.get("lines"), paths=r.get("paths"), inlined=r.get("inlined"),
                                  callee_contracts=r.get("used_contracts"), native_crosscheck_cases=r.get("native_crosscheck_cases"), runtime_contract=r.get("runtime_contract"), obligations=len(r["obligations"]),
                                  discharged=sum(o["result"] == "proved" for o in r["obligations"])))
        for f in r.get("functions", []):
            functions.append(f)
        for o in r["obligations"]:
            res = o["result"]
            solver_ms += o.get("ms", 0) or 0
            b = o.get("backend", mech)
            if res in ("proved", "refuted", "unknown"):
                n_obl += 1
                if res == "proved":
                    n_dis += 1
                    backends[b] = backends.get(b, 0) + 1
            if res in ("bounded-pass", "bounded-fail"):
                n_bounded += o.get("cases", 1)
                if res == "bounded-pass":
                    n_bounded_pass += o.get("cases", 1)
            if len(samples) < 12 and res in ("proved", "bounded-pass"):
                samples.append({k: o[k] for k in ("name", "result", "backend", "ms", "cases", "sample") if k in o})
            if res in ("refuted", "bounded-fail"):
                key = strip_line(o["name"])
                hit = next((k for k in known if k["obligation"] == key and case_matches(k, o)), None)
                if hit:
                    known_hits.append((hit, o))
                else:
                    violations.append((r, o))
            elif res == "unknown":
                undecided.append((r, o))
        # native search found a failing input for a function that could not be verified
        nat = r.get("native") or {}
        srch = nat.get("search")
        if srch and srch.get("failing_input") is not None and not any(vo is o for (_, vo) in violations for o in r["obligations"]):
            o = dict(name=f"{r.get('target', r['unit'])}#bnd.native-contract", result="bounded-fail", model=srch["failing_input"],
                     replayed=srch["observed"], backend="native enumeration")
            key = strip_line(o["name"])
            hit = next((k for k in known if k["obligation"] == key), None)
            if hit:
                known_hits.append((hit, o))
            else:
                violations.append((r, o))
    # ---- report
    lines = []
    for hit, o in known_hits:
        pass
    seen_known = set()
    for hit, o in known_hits:
        if hit["id"] in seen_known:
            continue
        seen_known.add(hit["id"])
        print(f"KNOWN-FINDING: property={prop} {hit['id']}: {hit['what']}")
    vio_files = []
    uniq = {}
    for r, o in violations:
        uniq.setdefault(strip_line(o["name"]), (r, o))
    n_vio_raw = len(violations)
    violations = list(uniq.values())
    for r, o in violations:
        path = write_replay(prop, r, o)
        vio_files.append(path)
        tail = "" if o.get("replayed") or (r.get("native") or {}).get("search", {}) and (r.get("native") or {}).get("search", {}).get("failing_input") is not None else " no-failing-input-found"
        if o["result"] == "bounded-fail":
            tail = ""
        print(f"VIOLATION property={prop} replay={path}{tail}")
        print(f"  obligation: {o['name']}")
        if o.get("note"):
            print(f"  meaning: {o['note']}")
        if o.get("replayed"):
            print(f"  replayed on the real code: {o['replayed']}")
    for r, o in undecided:
        if not violations:
            print(f"UNDECIDED property={prop} obligation={o['name']} ({o.get('reason', '')})")
    for c in crashes:
        print(f"CHECKER-FAILURE property={prop} {c}")
    for d in demoted:
        print(f"DEMOTED property={prop} {d['unit']}: {d['reason']}")
    level = pm.LEVEL
    ev = dict(
        property_id=prop, tier=tier, seed=seed, level=level,
        coverage=dict(
            obligations=n_obl, discharged=n_dis,
            checker_cmd=f"./check {prop} {tier}",
            trusted_base=sorted(trusted),
            explanation=pm.EXPLANATION,
            bounded_cases=n_bounded, bounded_cases_passed=n_bounded_pass,
            evaluations=max(1, n_obl + n_bounded), distinct_nontrivial=max(2, n_obl + n_bounded) if (n_obl + n_bounded) >= 2 else 0,
            rule="one evaluation per generated proof obligation (distinct by name and path) plus one per enumerated bounded case; "
                 "trivially true goals are dropped by the generator before counting",
            samples=samples or [dict(note="no obligation discharged")],
            functions_under_contract=functions,
            backends=backends, solver_time_s=round(solver_ms / 1000, 2),
            units=[dict(unit=r["unit"], mechanism=r.get("mechanism"), status=r.get("status", "ok"), wall_s=r.get("wall_s"),
                        summary=r.get("summary")) for r in results],
            known_findings_reported=sorted(seen_known),
            undecided=[o["name"] for _, o in undecided],
            demoted=demoted,
            exhaustive=False,
        ),
        assumptions=sorted(assumptions),
        wall_s=round(wall, 2),
        violations=len(violations),
    )
    # evidence describes /repo; runs against another checkout (VERIF_REPO: seeded changes, self-test) do not overwrite it
    evdir = os.path.join(ROOT, "evidence") if REPO == "/repo" else os.path.join(ROOT, ".cache", "evidence-scratch")
    os.makedirs(evdir, exist_ok=True)
    ev["repo"] = REPO
    json.dump(ev, open(os.path.join(evdir, f"{prop}.json"), "w"), indent=1, default=str)
    print(f"[{prop} {tier}] obligations={n_obl} discharged={n_dis} bounded_cases={n_bounded} violations={len(violations)} "
          f"known={len(seen_known)} undecided={len(undecided)} wall={wall:.1f}s solver={solver_ms / 1000:.1f}s")
    if violations:
        return 1
    if crashes:
        return 3
    if undecided:
        return 2
    if n_obl + n_bounded == 0:
        print(f"CHECKER-FAILURE property={prop} zero obligations")
        return 3
    return 0


def case_matches(k, o):
    cases = k.get("cases")
    if cases is None:
        return True
    got = o.get("failing_cases")
    if got is None:
        return True
    return set(got) <= set(cases)


def write_replay(prop, r, o):
    slug = hashlib.sha1(o["name"].encode()).hexdigest()[:10]
    safe = re.sub(r"[^A-Za-z0-9_.#-]+", "_", strip_line(o["name"]).split(":")[-1])[:80]
    path = os.path.join("replays", prop, f"{safe}-{slug}.json")
    rec = dict(property=prop, obligation=o["name"], mechanism=r.get("mechanism"), unit=r["unit"],
               verifier_output=dict(result=o["result"], backend=o.get("backend"), ms=o.get("ms"), note=o.get("note"),
                                    reason=o.get("reason")),
               model=o.get("model"), replayed=o.get("replayed"), replay_error=o.get("replay_error"),
               native=r.get("native"), contract_module=r.get("contract_module"), target=r.get("target"),
               replay_spec=o.get("replay_spec"),
               how_to_replay=f"./check --replay {path}")
    json.dump(rec, open(os.path.join(ROOT, path), "w"), indent=1, default=str)
    return path


def replay_file(path):
    rec = json.load(open(os.path.join(ROOT, path) if not os.path.isabs(path) else path))
    print(f"obligation: {rec['obligation']}")
    print(f"verifier: {json.dumps(rec['verifier_output'])}")
    spec = rec.get("replay_spec")
    msg = None
    if spec:
        mod = importlib.import_module(spec["module"])
        msg = getattr(mod, spec["func"])(*spec.get("args", []))
    elif rec.get("contract_module") and rec.get("model") is not None:
        mod = importlib.import_module(rec["contract_module"])
        for c in mod.CONTRACTS:
            if c.target == rec["target"] and c.replay is not None:
                msg = c.replay(rec["model"])
                break
    elif rec.get("model") is None:
        print("no counter-model recorded (no-failing-input-found)")
        return 0
    if msg:
        print(f"REPRODUCED on {REPO}: {msg}")
        return 1
    print("not reproduced on the current tree")
    return 0


if __name__ == "__main__":
    sys.exit(main(sys.argv[1:]))
