/-
Mathematical lemmas used (and formerly trusted) by the contracts of /verif, checked by Lean 4 + Mathlib.
  M1      products of unitary matrices are unitary                     (ordered product of component matrices, C01)
  M3      a matrix equal to the identity outside a unitary block is unitary, in block form and under any relabelling of the modes
  M3fin   the entrywise form used by the pyvc postconditions: on `Fin N`, identity outside modes a ≠ b and a unitary 2×2 block on (a,b)
  Lcard   a finite set of integers has all its members below N iff counting its members below N gives its cardinality
          (the precondition "herald keys in range" of add_heralds_to_state is phrased with the counting function `cnt`)
  Lsortperm two integer lists have the same sorted form iff one is a rearrangement of the other: `ModeSwaps.__post_init__` tests completeness of a swap
          dictionary by `sorted(keys) != sorted(values)`; the contracts state it as "the values are the keys in some order" (proved by z3 for 0-4
          entries over sorting networks; this lemma is the statement for every size)
-/
import Mathlib.LinearAlgebra.UnitaryGroup
import Mathlib.Data.Matrix.Block
import Mathlib.Data.Complex.Basic
import Mathlib.Data.Finset.Card
import Mathlib.Data.Matrix.Reflection
import Mathlib.Data.List.Sort
import Mathlib.Algebra.Order.Ring.Int

open Matrix

variable {n m k : Type*} [DecidableEq n] [Fintype n] [DecidableEq m] [Fintype m] [DecidableEq k] [Fintype k]

/-- M1: products of unitary matrices are unitary. -/
theorem M1 (A B : Matrix n n ℂ) (hA : A ∈ unitaryGroup n ℂ) (hB : B ∈ unitaryGroup n ℂ) :
    A * B ∈ unitaryGroup n ℂ := mul_mem hA hB

/-- M3 (block form): a unitary block padded with an identity block is unitary. -/
theorem M3 (A : Matrix n n ℂ) (hA : A ∈ unitaryGroup n ℂ) :
    (fromBlocks A 0 0 (1 : Matrix m m ℂ)) ∈ unitaryGroup (n ⊕ m) ℂ := by
  rw [mem_unitaryGroup_iff] at hA ⊢
  rw [star_eq_conjTranspose, fromBlocks_conjTranspose, fromBlocks_multiply]
  simp [← star_eq_conjTranspose, hA, fromBlocks_one]

/-- M3 under any relabelling of the modes (the block may sit on arbitrary modes). -/
theorem M3r (e : n ⊕ m ≃ k) (A : Matrix n n ℂ) (hA : A ∈ unitaryGroup n ℂ) :
    (reindex e e (fromBlocks A 0 0 (1 : Matrix m m ℂ))) ∈ unitaryGroup k ℂ := by
  have h := M3 (m := m) A hA
  rw [mem_unitaryGroup_iff] at h ⊢
  rw [star_eq_conjTranspose] at h ⊢
  simp only [reindex_apply, conjTranspose_submatrix]
  rw [submatrix_mul_equiv, h, submatrix_one_equiv]

/-- Lcard: all members below N  iff  counting the members below N gives the cardinality. -/
theorem Lcard (S : Finset ℤ) (N : ℤ) :
    (S.filter (fun x => x < N)).card = S.card ↔ ∀ x ∈ S, x < N := by
  constructor
  · intro h x hx
    have hs : S.filter (fun x => x < N) = S :=
      Finset.eq_of_subset_of_card_le (Finset.filter_subset _ _) (le_of_eq h.symm)
    have : x ∈ S.filter (fun x => x < N) := by rw [hs]; exact hx
    exact (Finset.mem_filter.mp this).2
  · intro h
    rw [Finset.filter_true_of_mem h]

/-- M3fin: entrywise form.  `p` singles out the modes the component acts on (for a beam splitter / loss element `p i := i = a ∨ i = b`).
If `M` is the identity wherever a row or column index lies outside `p`, and the restriction of `M` to the modes in `p` is unitary,
then `M` is unitary.  This is exactly what the pyvc postconditions `entries` / `other_modes_identity` + `block_unitary` state. -/
theorem M3fin {ι : Type*} [Fintype ι] [DecidableEq ι] (p : ι → Prop) [DecidablePred p] (M : Matrix ι ι ℂ)
    (hout : ∀ i j, ¬ (p i ∧ p j) → M i j = if i = j then 1 else 0)
    (hB : (M.submatrix (Subtype.val : {i // p i} → ι) Subtype.val) ∈ unitaryGroup {i // p i} ℂ) :
    M ∈ unitaryGroup ι ℂ := by
  have h : M = reindex (Equiv.sumCompl p) (Equiv.sumCompl p)
      (fromBlocks (M.submatrix (Subtype.val : {i // p i} → ι) Subtype.val) 0 0 (1 : Matrix {i // ¬ p i} {i // ¬ p i} ℂ)) := by
    ext i j
    simp only [reindex_apply, submatrix_apply]
    by_cases hi : p i <;> by_cases hj : p j
    · simp [Equiv.sumCompl_symm_apply_of_pos, hi, hj]
    · have hne : i ≠ j := fun h => hj (h ▸ hi)
      simp [Equiv.sumCompl_symm_apply_of_pos, Equiv.sumCompl_symm_apply_of_neg, hi, hj, hout i j (fun h => hj h.2), hne]
    · have hne : i ≠ j := fun h => hi (h ▸ hj)
      simp [Equiv.sumCompl_symm_apply_of_pos, Equiv.sumCompl_symm_apply_of_neg, hi, hj, hout i j (fun h => hi h.1), hne]
    · simp [Equiv.sumCompl_symm_apply_of_neg, hi, hj, hout i j (fun h => hi h.1), Matrix.one_apply]
  rw [h]
  exact M3r _ _ hB

/-- M3two: on the two modes `a ≠ b`, the four scalar identities of the pyvc clause `block_unitary`
(`|M_aa|² + |M_ba|² = 1`, `conj(M_aa) M_ab + conj(M_ba) M_bb = 0`, …) say that the restriction of `M` to `{a, b}` is unitary. -/
theorem M3two {ι : Type*} [Fintype ι] [DecidableEq ι] (a b : ι) (hab : a ≠ b) (M : Matrix ι ι ℂ)
    (h11 : (starRingEnd ℂ) (M a a) * M a a + (starRingEnd ℂ) (M b a) * M b a = 1)
    (h12 : (starRingEnd ℂ) (M a a) * M a b + (starRingEnd ℂ) (M b a) * M b b = 0)
    (h21 : (starRingEnd ℂ) (M a b) * M a a + (starRingEnd ℂ) (M b b) * M b a = 0)
    (h22 : (starRingEnd ℂ) (M a b) * M a b + (starRingEnd ℂ) (M b b) * M b b = 1) :
    (M.submatrix (Subtype.val : {i // i = a ∨ i = b} → ι) Subtype.val) ∈ unitaryGroup {i // i = a ∨ i = b} ℂ := by
  rw [mem_unitaryGroup_iff']
  have huniv : (Finset.univ : Finset {i // i = a ∨ i = b}) = {⟨a, Or.inl rfl⟩, ⟨b, Or.inr rfl⟩} := by
    ext ⟨x, hx⟩
    rcases hx with h | h <;> simp [h]
  have hne : (⟨a, Or.inl rfl⟩ : {i // i = a ∨ i = b}) ≠ ⟨b, Or.inr rfl⟩ := by
    intro h; exact hab (congrArg Subtype.val h)
  ext ⟨i, hi⟩ ⟨j, hj⟩
  simp only [mul_apply, star_apply, submatrix_apply, one_apply, huniv, Finset.sum_pair hne]
  rcases hi with rfl | rfl <;> rcases hj with rfl | rfl <;> simp [hab, hab.symm, Subtype.ext_iff] <;> assumption

/-- M3bs: what the contracts of `BeamSplitter/PhaseShifter/Loss.get_unitary` and `bs_matrix` establish entrywise implies unitarity
of the N×N matrix: identity outside the two modes, and the four block identities. -/
theorem M3bs {ι : Type*} [Fintype ι] [DecidableEq ι] (a b : ι) (hab : a ≠ b) (M : Matrix ι ι ℂ)
    (hout : ∀ i j, ¬ ((i = a ∨ i = b) ∧ (j = a ∨ j = b)) → M i j = if i = j then 1 else 0)
    (h11 : (starRingEnd ℂ) (M a a) * M a a + (starRingEnd ℂ) (M b a) * M b a = 1)
    (h12 : (starRingEnd ℂ) (M a a) * M a b + (starRingEnd ℂ) (M b a) * M b b = 0)
    (h21 : (starRingEnd ℂ) (M a b) * M a a + (starRingEnd ℂ) (M b b) * M b a = 0)
    (h22 : (starRingEnd ℂ) (M a b) * M a b + (starRingEnd ℂ) (M b b) * M b b = 1) :
    M ∈ unitaryGroup ι ℂ :=
  M3fin (fun i => i = a ∨ i = b) M hout (M3two a b hab M h11 h12 h21 h22)

#print axioms M1
#print axioms M3
#print axioms M3r
#print axioms M3fin
#print axioms M3two
#print axioms M3bs
#print axioms Lcard


/-- Lsortperm: two integer lists have the same sorted form iff one is a rearrangement of the other. -/
theorem Lsortperm (l₁ l₂ : List ℤ) :
    l₁.mergeSort (fun a b => decide (a ≤ b)) = l₂.mergeSort (fun a b => decide (a ≤ b)) ↔ l₁.Perm l₂ := by
  constructor
  · intro h
    have h1 := List.mergeSort_perm l₁ (fun a b => decide (a ≤ b))
    have h2 := List.mergeSort_perm l₂ (fun a b => decide (a ≤ b))
    exact h1.symm.trans (h ▸ h2)
  · intro h
    have hp : (l₁.mergeSort (fun a b => decide (a ≤ b))).Perm (l₂.mergeSort (fun a b => decide (a ≤ b))) :=
      (List.mergeSort_perm l₁ _).trans (h.trans (List.mergeSort_perm l₂ _).symm)
    have s1 := List.pairwise_mergeSort' (fun a b : ℤ => a ≤ b) l₁
    have s2 := List.pairwise_mergeSort' (fun a b : ℤ => a ≤ b) l₂
    exact List.Perm.eq_of_pairwise' (r := fun a b : ℤ => a ≤ b) s1 s2 hp

#print axioms Lsortperm
