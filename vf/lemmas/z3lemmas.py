"""Mechanism D: lemmas over spec functions, proved by z3 with explicit induction schemas.

A lemma is used by pyvc as a quantified hypothesis (instantiated per array term).  Each
one is proved here: base case and induction step are separate, quantifier-free-ish VCs
about an arbitrary array `a`; the induction principle itself (over the naturals) is the
only thing trusted.
"""
import time

import z3

I, B = z3.IntSort(), z3.BoolSort()

CNT = z3.Function("cnt", z3.ArraySort(I, B), I, I)


def cnt_def(a):
    t = z3.Int("t!cd")
    return [CNT(a, 0) == 0,
            z3.ForAll([t], z3.Implies(t >= 0, CNT(a, t + 1) == CNT(a, t) + z3.If(z3.Select(a, t), 1, 0)),
                      patterns=[CNT(a, t + 1)]),
            z3.ForAll([t], z3.Implies(t >= 0, CNT(a, t + 1) == CNT(a, t) + z3.If(z3.Select(a, t), 1, 0)),
                      patterns=[z3.MultiPattern(CNT(a, t), z3.Select(a, t))])]


def cnt_lemmas(a):
    """0 <= cnt(a,j)-cnt(a,i) <= j-i for 0<=i<=j  (hence bounds and monotonicity)"""
    i, j = z3.Int("i!cl"), z3.Int("j!cl")
    return [z3.ForAll([i, j], z3.Implies(z3.And(0 <= i, i <= j),
                                         z3.And(0 <= CNT(a, j) - CNT(a, i), CNT(a, j) - CNT(a, i) <= j - i)),
                      patterns=[z3.MultiPattern(CNT(a, i), CNT(a, j))])]


def prove_all(rlimit=20_000_000):
    """-> list of obligation records"""
    out = []
    a = z3.Const("a", z3.ArraySort(I, B))
    i, j = z3.Ints("i j")
    P = lambda i, j: z3.And(0 <= CNT(a, j) - CNT(a, i), CNT(a, j) - CNT(a, i) <= j - i)  # noqa: E731
    vcs = [
        ("lemma.cnt-diff#base", cnt_def(a) + [i >= 0], P(i, i)),
        ("lemma.cnt-diff#step", cnt_def(a) + [0 <= i, i <= j, P(i, j)], P(i, j + 1)),
    ]
    # lsum lemmas: sum of a list with entries in [lo,hi]
    for es, S, zero in (("int", I, z3.IntVal(0)),):
        f = z3.Function(f"lsum_{es}", z3.ArraySort(I, S), I, S)
        arr = z3.Const("arr", z3.ArraySort(I, S))
        t = z3.Int("t!ls")
        d = [f(arr, 0) == zero, z3.ForAll([t], z3.Implies(t >= 0, f(arr, t + 1) == f(arr, t) + z3.Select(arr, t)))]
        n = z3.Int("n")
        nonneg = z3.ForAll([t], z3.Implies(z3.And(0 <= t), z3.Select(arr, t) >= 0))
        vcs += [("lemma.lsum-nonneg#base", d + [nonneg], f(arr, 0) >= 0),
                ("lemma.lsum-nonneg#step", d + [nonneg, n >= 0, f(arr, n) >= 0], f(arr, n + 1) >= 0)]
    # dB <-> decimal round trip from the two function contracts (c_state.py) and the A1 axioms for 10**x / log10
    R = z3.RealSort()
    p10, lg = z3.Function("pow10", R, R), z3.Function("log10", R, R)
    x, y = z3.Reals("x y")
    ax = [z3.ForAll([y], lg(p10(y)) == y), z3.ForAll([y], z3.Implies(y > 0, p10(lg(y)) == y)), z3.ForAll([y], p10(y) > 0)]
    absx = z3.If(x >= 0, x, -x)
    dec = 1 - p10(-absx / 10)                 # post.value of db_loss_to_decimal
    back = -10 * lg(1 - dec)                  # post.value of decimal_to_db_loss
    vcs.append(("lemma.db-roundtrip", ax, back == absx))
    l = z3.Real("l")
    db = -10 * lg(1 - l)
    vcs.append(("lemma.decimal-roundtrip", ax + [0 <= l, l < 1, db >= 0], 1 - p10(-z3.If(db >= 0, db, -db) / 10) == l))
    # _map_mode is strictly increasing in the mode (used as a relational fact between two modular calls on the same ancilla list):
    # (S) a strictly increasing integer sequence spreads: s[i+d] - s[i] >= d   [induction on d]
    # (M) if ra = a + ka and rb = b + kb where ka / kb = number of sequence members below ra / rb (the proved clause `rank` of the contract),
    #     then a < b implies ra < rb   [linear arithmetic from (S) at (kb, ka-1) and the rank clause at t = kb, ka - 1]
    sq = z3.Const("s", z3.ArraySort(I, I))
    nn, ii, dd, tt = z3.Ints("n i d t!mm")
    incr = z3.ForAll([tt], z3.Implies(z3.And(0 <= tt, tt + 1 < nn), z3.Select(sq, tt) < z3.Select(sq, tt + 1)))
    Sp = lambda i_, d_: z3.Select(sq, i_ + d_) - z3.Select(sq, i_) >= d_  # noqa: E731
    vcs += [("lemma.increasing-spreads#base", [incr, 0 <= ii, ii < nn], Sp(ii, z3.IntVal(0))),
            ("lemma.increasing-spreads#step", [incr, 0 <= ii, dd >= 0, ii + dd + 1 < nn, Sp(ii, dd)], Sp(ii, dd + 1))]
    # (D) sorted() of a list of pairwise distinct integers is STRICTLY increasing (from the assumed contract of sorted: ordered + index maps p, q)
    el = z3.Const("elem", z3.ArraySort(I, I))
    pp, qq = z3.Const("p", z3.ArraySort(I, I)), z3.Const("q", z3.ArraySort(I, I))
    uu, xx, yy = z3.Ints("u x!d y!d")
    sorted_contract = [z3.ForAll([tt, uu], z3.Implies(z3.And(0 <= tt, tt < uu, uu < nn), z3.Select(sq, tt) <= z3.Select(sq, uu))),
                       z3.ForAll([tt], z3.Implies(z3.And(0 <= tt, tt < nn), z3.And(0 <= z3.Select(pp, tt), z3.Select(pp, tt) < nn, z3.Select(sq, tt) == z3.Select(el, z3.Select(pp, tt)),
                                                                                  z3.Select(qq, z3.Select(pp, tt)) == tt)))]
    distinct = z3.ForAll([xx, yy], z3.Implies(z3.And(0 <= xx, xx < yy, yy < nn), z3.Select(el, xx) != z3.Select(el, yy)))
    vcs.append(("lemma.sorted-distinct-is-strict", sorted_contract + [distinct, 0 <= ii, ii + 1 < nn], z3.Select(sq, ii) < z3.Select(sq, ii + 1)))
    a_, b_, ka, kb = z3.Ints("a b ka kb")
    ra, rb = a_ + ka, b_ + kb
    rank = lambda r, k_: z3.ForAll([tt], z3.Implies(z3.And(0 <= tt, tt < nn), (z3.Select(sq, tt) < r) == (tt < k_)))  # noqa: E731
    spread_inst = z3.Implies(z3.And(0 <= kb, kb <= ka - 1, ka - 1 < nn), z3.Select(sq, ka - 1) - z3.Select(sq, kb) >= ka - 1 - kb)      # (S) at i = kb, d = ka-1-kb
    vcs.append(("lemma.map-mode-monotone", [nn >= 0, 0 <= ka, ka <= nn, 0 <= kb, kb <= nn, rank(ra, ka), rank(rb, kb), spread_inst, a_ < b_], ra < rb))
    for name, hyps, goal in vcs:
        s = z3.Solver()
        s.set("rlimit", rlimit)
        s.add(*hyps)
        s.add(z3.Not(goal))
        t0 = time.time()
        r = s.check()
        out.append(dict(name=f"vf/lemmas/z3lemmas.py:{name}", kind="lemma", result="proved" if r == z3.unsat else ("refuted" if r == z3.sat else "unknown"),
                        backend="z3-" + z3.get_version_string() + " (induction schema: base+step)", ms=round((time.time() - t0) * 1000, 1)))
    return out


def unit(tier="quick", seed=0):
    obl = prove_all()
    return dict(obligations=obl, status="ok", trusted=["induction over the naturals (schema instantiated by hand: base + step VCs)"],
                summary=f"{sum(o['result'] == 'proved' for o in obl)}/{len(obl)} lemma VCs proved")


if __name__ == "__main__":
    for o in prove_all():
        print(o)
