"""Lemmas M1, M3 (block / relabelled / entrywise / two-mode forms), Lcard checked by Lean 4 + Mathlib (vf/lemmas/lean/Lemmas.lean).

One obligation per theorem: `proved` iff Lean accepts the file (exit 0, no error) AND `#print axioms` reports only the three
standard axioms of Lean's logic (propext, Classical.choice, Quot.sound) - in particular no `sorryAx`.  If the Lean toolchain or
Mathlib is not available no obligation is claimed and the lemmas are listed as trusted mathematics for that run (never a violation).
"""
from __future__ import annotations

import os
import re
import shutil
import subprocess
import time

HERE = os.path.dirname(os.path.abspath(__file__))
FILE = os.path.join(HERE, "lean", "Lemmas.lean")
MATHLIB = "/opt/veriftools/mathlib4"
THEOREMS = {
    "M1": "products of unitary matrices are unitary",
    "M3": "a unitary block padded with an identity block is unitary",
    "M3r": "... under any relabelling of the modes",
    "M3fin": "entrywise form: identity outside the modes in p, unitary restriction to p => unitary",
    "M3two": "the four scalar identities of `block_unitary` = unitarity of the restriction to {a,b}",
    "M3bs": "what the get_unitary / bs_matrix contracts establish entrywise implies unitarity of the N x N matrix",
    "Lcard": "all members below N iff counting the members below N gives the cardinality",
    "Lsortperm": "two integer lists have the same sorted form iff one is a rearrangement of the other (completeness test of ModeSwaps for every size)",
}
STANDARD = {"propext", "Classical.choice", "Quot.sound"}


def lean_path():
    pk = os.path.join(MATHLIB, ".lake", "packages")
    parts = [os.path.join(pk, d, ".lake", "build", "lib", "lean") for d in sorted(os.listdir(pk))] if os.path.isdir(pk) else []
    parts.append(os.path.join(MATHLIB, ".lake", "build", "lib", "lean"))
    return ":".join(p for p in parts if os.path.isdir(p))


def unit(tier="quick", seed=0, only=None):
    name = "vf/lemmas/lean/Lemmas.lean"
    lean = shutil.which("lean")
    t0 = time.time()
    obs = []
    if lean is None or not os.path.isdir(MATHLIB):
        # no toolchain: nothing is claimed; the lemmas count as trusted mathematics again (listed as such in the evidence)
        return dict(status="ok", obligations=[], summary="lean / mathlib not available: lemmas M1, M3, Lcard are TRUSTED in this run",
                    trusted=["lemmas M1, M3, Lcard: trusted mathematics (Lean toolchain not available in this run)"])
    src = open(FILE).read()
    banned = [w for w in ("sorry", "admit", "axiom ", "unsafe ", "native_decide") if re.search(r"(?<![A-Za-z_])" + re.escape(w), re.sub(r"/-.*?-/", "", src, flags=re.S))]
    env = dict(os.environ, LEAN_PATH=lean_path())
    try:
        p = subprocess.run([lean, FILE], capture_output=True, text=True, timeout=900 if tier == "quick" else 1800, env=env)
        out, rc = p.stdout + p.stderr, p.returncode
    except subprocess.TimeoutExpired:
        out, rc = "timeout", None
    ms = round((time.time() - t0) * 1000)
    axioms = {m.group(1): {a.strip() for a in m.group(2).split(",") if a.strip()} for m in re.finditer(r"'(\w+)' depends on axioms: \[(.*?)\]", out)}
    for m in re.finditer(r"'(\w+)' does not depend on any axioms", out):
        axioms[m.group(1)] = set()
    for th, what in THEOREMS.items():
        if only and th not in only:
            continue
        o = dict(name=f"{name}:{th}", kind="lemma", backend="lean 4.33 + mathlib (kernel-checked)", ms=ms // len(THEOREMS), note=what)
        if rc is None:
            o.update(result="unknown", reason="lean timed out")
        elif rc != 0:
            o.update(result="unknown", reason="lean rejected the file: " + out[-400:])
        elif banned:
            o.update(result="unknown", reason=f"the file contains {banned}")
        elif th not in axioms:
            o.update(result="unknown", reason="theorem not reported by #print axioms")
        elif not axioms[th] <= STANDARD:
            o.update(result="unknown", reason=f"depends on non-standard axioms {sorted(axioms[th] - STANDARD)}")
        else:
            o.update(result="proved", axioms=sorted(axioms[th]))
        obs.append(o)
    return dict(status="ok", obligations=obs, summary=f"lean: {sum(o['result'] == 'proved' for o in obs)}/{len(obs)} lemmas kernel-checked in {ms} ms",
                trusted=["Lean 4.33 kernel + Mathlib v4.33 (axioms propext, Classical.choice, Quot.sound)"])


if __name__ == "__main__":
    r = unit()
    print(r["summary"])
    for o in r["obligations"]:
        print(o["result"], o["name"], o.get("reason", ""))
