from .common import pyvc_units

LEVEL = "other"
MODULES = ["vf.contracts.c_circuit_modes"]
EXPLANATION = "under construction"
ASSUMPTIONS = []
TRUSTED = []


def units(tier):
    return pyvc_units("C02", MODULES)
