from .common import pyvc_units

LEVEL = "other"
MODULES = ["vf.contracts.c_circuit_modes", "vf.contracts.c_heralding", "vf.contracts.c_matrix", "vf.contracts.c_specshift", "vf.contracts.c_rewrite"]
EXPLANATION = (
    "Clause table. PROVED (pyvc, unbounded in mode count / ancilla count / list length): Circuit._map_mode returns the mode-th user-visible "
    "full mode (not an ancilla; exactly k ancillas below it) for every set of distinct internal modes [loop invariant with ghost rank k, "
    "sorted() contract with index maps]; Circuit.herald maps input and output modes with _map_mode (short form: same mode for both), writes the four herald maps, "
    "raises TypeError / ModeRangeError / ValueError exactly under the stated conditions and changes nothing when it raises; Circuit._add_empty_mode increases the mode count by one and shifts every key of the four herald maps and every internal mode by [x >= mode], keeping values and the insertion order of the maps (which pairs input with output heralds); add_mode_to_unitary embeds an NxN block into (N+1)x(N+1) with the new mode decoupled (all N, block slices); add_empty_mode_to_circuit_spec and add_modes_to_circuit_spec, element by element: for a component of EACH class (BeamSplitter, PhaseShifter, Loss - plain or Parameter-valued - Barrier, ModeSwaps, UnitaryMatrix, Group) with all data symbolic the image has its modes mapped by x -> x+[x>=mode] (resp. x+mode), swap dictionaries mapped on keys and values in order, unitary blocks expanded exactly when the new mode lies strictly inside, group heralds shifted relative to the group, Parameter objects shared (not copied) and the argument element untouched; that the functions map this update over a list of any length is the obligation loop.independent-iterations (vf/pyvc/maploop.py: definite assignment within an iteration, one append per iteration, no shared scratch object). BOUNDED (mechanism C, exhaustive, labelled bounded, never counted as proved): the contract of "
    "Circuit.add itself - ModeRangeError iff the visible span is too short; otherwise U_full, heralds, internal modes, n_modes and "
    "input_modes of the result equal the composition wire(P,S,m) built from the statement (new ancillas located by search), old ancillas "
    "untouched; argument unchanged - over every history of <=1 earlier heralded addition and one checked addition, parents <=3 (quick) / "
    "<=4 (thorough) visible modes, sub-circuits <=3/4 modes with 0-2 heralds in every in/out placement and both declaration orders, "
    "photon numbers {0,1}, grouped and ungrouped, plain and once-nested; sub-circuit content is a generic unitary with pairwise distinct "
    "entries so any mis-routing changes the matrix (float comparison, atol 1e-9). OUT OF REACH for proof: the whole-function "
    "postcondition of the 130-line Circuit.add (interacting index bookkeeping over dict orders) - stated in DESIGN.md section 5 C02."
)
EXPLANATION = EXPLANATION + ' ADDED IN ROUNDS 5-8. PROVED (pyvc): Circuit._add_empty_mode returns the image of the spec that was passed in (not of a copy); Circuit.heralds / _external_heralds hand out copies; Circuit.input_modes = n_modes - number of input heralds.'
ASSUMPTIONS = ["builtin.sorted contract (ordered rearrangement with index maps)", "two input references do not alias",
               "bounded part: float comparison with atol 1e-9 on generic unitaries"]
TRUSTED = ["z3 5.1 / cvc5 1.0.3", "pyvc encoding of the Python subset (A2; cross-checked by the mutant self-test)",
           "wiring oracle vf/tasks/t_add.py:expected_abstract (written from the statement)"]
NSHARDS = 8


def units(tier):
    u = pyvc_units("C02", MODULES)
    u.append(dict(kind="func", mechanism="lemmas (D: z3 induction schemas)", name="lemmas:z3", module="vf.lemmas.z3lemmas", func="unit"))
    u.append(dict(kind="func", mechanism="pyvc map-loop pass (A: iterations independent, one append per iteration)", name="maploop:circuit_utils", module="vf.pyvc.maploop", func="unit",
                  args=dict(functions=[["lightworks/sdk/circuit/circuit_utils.py", "add_empty_mode_to_circuit_spec"], ["lightworks/sdk/circuit/circuit_utils.py", "add_modes_to_circuit_spec"]])))
    for k in range(NSHARDS):
        u.append(dict(kind="func", mechanism="bounded runtime contract (C)", name=f"bounded:Circuit.add[{k}/{NSHARDS}]",
                      module="vf.tasks.t_add", func="unit", args=dict(shard=k, nshards=NSHARDS)))
    return u
