LEVEL = "other"
EXPLANATION = "under construction"
ASSUMPTIONS = ["A7: two iterations over an unmodified set give the same order (CPython)", "shapes (which states appear) enumerated: <=3 inputs, <=4 outputs from 9 two-mode states"]
TRUSTED = ["xlift field + numpy proxy"]
NSHARDS = 8


def units(tier):
    return [dict(kind="xlift", mechanism="xlift symbolic (B): all weights symbolic, shapes enumerated", name=f"xlift:results[{k}/{NSHARDS}]", module="vf.tasks.t_results", func="unit",
                 args=dict(shard=k, nshards=NSHARDS)) for k in range(NSHARDS)]
