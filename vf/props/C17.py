LEVEL = "other"
EXPLANATION = ('PROVED for all values of the weights (xlift symbolic: every entry a distinct real symbol), result shapes enumerated (<=3 inputs, <=4 outputs out of 9 two-mode states, every 5th combination quick / all thorough): pair indexing = nested indexing = array entry in the order of the input / output lists; threshold and parity mappings, plain and inverted, replace every output by its image, add the weights of coinciding outputs (array columns consistent with the outputs list), keep each row total, are idempotent / parity-stable on repetition and are refused for amplitude results; SamplingResult returns its counts unchanged and maps likewise (also images of zero weight); invalid construction / lookups raise the documented errors. ASSUMED: two iterations over an unmodified set agree (CPython). The shapes are bounded, the values are not. BOUNDED (native numpy values, what the exact runs cannot see): complex and negative values keep the total of each input under both mappings; the lists passed to the constructor are not shared with the caller. ADDED LATER: exact-zero columns / entries (images of weight zero stay listed).')
EXPLANATION = EXPLANATION + ' ADDED IN ROUNDS 5-8. BOUNDED (native): reporting methods (dataframe with thresholds, printing, mappings) are read-only for SimulationResult and SamplingResult.'
ASSUMPTIONS = ["A7: two iterations over an unmodified set give the same order (CPython)", "shapes (which states appear) enumerated: <=3 inputs, <=4 outputs from 9 two-mode states"]
TRUSTED = ["xlift field + numpy proxy"]
NSHARDS = 8


def units(tier):
    u = [dict(kind="xlift", mechanism="xlift symbolic (B): all weights symbolic, shapes enumerated", name=f"xlift:results[{k}/{NSHARDS}]", module="vf.tasks.t_results", func="unit",
              args=dict(shard=k, nshards=NSHARDS)) for k in range(NSHARDS)]
    u.append(dict(kind="func", mechanism="bounded runtime contract (C), native numpy values", name="bounded:native-values", module="vf.tasks.t_results", func="unit_native", args={}))
    return u
