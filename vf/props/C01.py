from .common import pyvc_units

LEVEL = "other"
MODULES = ["vf.contracts.c_components", "vf.contracts.c_circuit_modes", "vf.contracts.c_compiler"]
EXPLANATION = ("Clause table. PROVED for every mode count, every mode pair/order and every real parameter value in range (pyvc: VCs from the real AST, z3): BeamSplitter.get_unitary (both conventions, reversed mode order included), PhaseShifter.get_unitary, Loss.get_unitary, Barrier.get_unitary, permutation_mat_from_swaps_dict (ModeSwaps) return exactly the documented matrix entry by entry, and the non-trivial 2x2 block of BS / PS / Loss is unitary (hence the embedded matrix, lemma M3); a reflectivity outside [0,1] - plain or held by a Parameter - raises ValueError (BeamSplitter validation contract); Circuit.bs / ps / loss record the component on the remapped modes (loss on the same modes), raise ModeRangeError / TypeError / ValueError exactly under the stated conditions and leave the circuit untouched when they raise; Circuit._mode_in_range and check_loss raise iff (all argument type variants); Circuit._map_mode returns the mode-th user-visible mode. BOUNDED, exact, every real parameter symbolic (xlift, labelled bounded): the whole path Circuit API -> spec -> CompiledCircuit -> U / U_full against the ordered product of the documented matrices for every program of <=2 components (quick; thorough adds 4500 programs of 3-4 components on <=4 modes) over all ordered mode pairs, both conventions, all permutations, unitary blocks, loss, barriers and an optional heralded sub-circuit (ancilla) in front: U = product, U_full has one extra mode per loss element, U is its leading block, U_full^dagger U_full = I. CompiledCircuit.add over the abstract matrix algebra (opaque matrices, uninterpreted non-commutative product): for BeamSplitter / PhaseShifter / ModeSwaps the new matrix is mul(E(get_unitary, n+l), U0) - LEFT multiplication at the current size; for Loss it is mul(E(get_unitary, n+l+1), pad1(U0)) - pad first, corner one, multiply at the new size, loss count + 1; Barrier leaves it unchanged; a Group is the fold over its members in order (three concrete group shapes incl. losses inside); dimensions always agree and the invariant dim = n + l is kept. NOT under contract: Circuit._build_process (a plain loop over the spec calling add; covered by the bounded programs), UnitaryMatrix.get_unitary. OUT OF REACH: 'to machine precision' (A1).")
ASSUMPTIONS = ["A1: floats are exact reals", "trig/sqrt atoms with their defining identities"]
TRUSTED = ["z3 5.1 / cvc5", "pyvc encoding of the Python subset", "xlift field + numpy proxy",
           "lemma M3 (a matrix equal to the identity outside a unitary 2x2 block is unitary), M1 (products of unitaries are unitary): mathematics, not code"]
NSHARDS = 12


def units(tier):
    u = pyvc_units("C01", MODULES)
    for k in range(NSHARDS):
        u.append(dict(kind="xlift", mechanism="xlift bounded (C): programs <=2 components (quick), all parameters symbolic", name=f"xlift:programs[{k}/{NSHARDS}]",
                      module="vf.tasks.t_compile", func="unit", args=dict(shard=k, nshards=NSHARDS)))
    return u
