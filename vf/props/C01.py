from .common import pyvc_units

LEVEL = "other"
MODULES = ["vf.contracts.c_components", "vf.contracts.c_circuit_modes"]
EXPLANATION = "under construction"
ASSUMPTIONS = ["A1: floats are exact reals", "trig/sqrt atoms with their defining identities"]
TRUSTED = ["z3 5.1 / cvc5", "pyvc encoding of the Python subset", "xlift field + numpy proxy",
           "lemma M3 (a matrix equal to the identity outside a unitary 2x2 block is unitary), M1 (products of unitaries are unitary): mathematics, not code"]
NSHARDS = 12


def units(tier):
    u = pyvc_units("C01", MODULES)
    for k in range(NSHARDS):
        u.append(dict(kind="xlift", mechanism="xlift bounded (C): programs <=2 components (quick), all parameters symbolic", name=f"xlift:programs[{k}/{NSHARDS}]",
                      module="vf.tasks.t_compile", func="unit", args=dict(shard=k, nshards=NSHARDS)))
    return u
