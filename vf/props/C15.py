from .common import frame_unit, GATE_FILES, TOMO_FILES
LEVEL = "other"
EXPLANATION = "under construction"
ASSUMPTIONS = ["A1: exact reals (xlift units)", "scipy.linalg.sqrtm principal root (fidelity, native units only)"]
TRUSTED = ["xlift field + numpy proxy + exact permanent", "z3-nlsat", "spec amplitude formula"]


def units(tier):
    u = [dict(kind="xlift", mechanism="xlift symbolic (B): preparation angles symbolic", name=f"xlift:state-tomography[n={n}]", module="vf.tasks.t_tomo", func="unit", args=dict(which="state", n=n)) for n in (1, 2)]
    for n in (1, 2, 3):
        u.append(dict(kind="func", mechanism="bounded runtime contract (C), native floats", name=f"bounded:state-tomography-native[n={n}]", module="vf.tasks.t_tomo", func="unit", args=dict(mode="native", which="state", n=n)))
    u.append(frame_unit("tomography", TOMO_FILES + GATE_FILES))
    return u
