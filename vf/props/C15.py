from .common import frame_unit, GATE_FILES, TOMO_FILES
LEVEL = "other"
EXPLANATION = ('Clause table. PROVED for every prepared state of the family (xlift symbolic): n=1 with Rz(phi)Ry(theta)|0> and n=2 with S.Rz(phi).CNOT.(Ry(theta) x H)|00> (post-selected CNOT), theta and phi symbolic: on exact noiseless frequencies of the circuits it requests, process() returns |psi><psi| of the dual-rail state the base circuit prepares (Hermitian, unit trace); the callback receives exactly one circuit per setting in {X,Y,Z}^n, each being the base circuit followed by the basis changes; the base circuit is unchanged; a second process() after the base was extended reconstructs the new state. BOUNDED (native floats): the same for n=1,2,3 incl. heralded CNOTs (GHZ-type state on 3 qubits) plus fidelity = 1 (scipy sqrtm). NOT under contract: _get_tomo_measurements / _calculate_expectation_value individually. ADDED LATER (bounded, native): base circuits whose heralds were declared directly on them, states with Pauli expectations of 1e-3 ... 1e-7; symbolic paths are capped at 24 (more = undecided).')
EXPLANATION = EXPLANATION + ' ADDED IN ROUNDS 5-8. BOUNDED (native): two or three ancilla modes between the rails of a qubit (own heralds and added sub-circuits), heralds leaving on another mode than they enter (judged semantically), per-setting totals of the frequencies, a callback that sets a base-circuit Parameter before measuring, a refused reference matrix counted as a wrong report.'
ASSUMPTIONS = ["A1: exact reals (xlift units)", "scipy.linalg.sqrtm principal root (fidelity, native units only)"]
TRUSTED = ["xlift field + numpy proxy + exact permanent", "z3-nlsat", "spec amplitude formula"]


def units(tier):
    u = [dict(kind="xlift", mechanism="xlift symbolic (B): preparation angles symbolic", name=f"xlift:state-tomography[n={n}]", module="vf.tasks.t_tomo", func="unit", args=dict(which="state", n=n)) for n in (1, 2)]
    for n in (1, 2, 3):
        u.append(dict(kind="func", mechanism="bounded runtime contract (C), native floats", name=f"bounded:state-tomography-native[n={n}]", module="vf.tasks.t_tomo", func="unit", args=dict(mode="native", which="state", n=n)))
    u.append(frame_unit("tomography", TOMO_FILES + GATE_FILES))
    return u
