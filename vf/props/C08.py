from .common import pyvc_units, frame_unit, CONV_FILES, DISPLAY_FILES, GATE_FILES, RECK_FILES, SDK_FILES, TOMO_FILES

LEVEL = "other"
MODULES = ["vf.contracts.c_state", "vf.contracts.c_circuit_modes", "vf.contracts.c_parameters", "vf.contracts.c_rewrite"]
EXPLANATION = ('Clause table. PROVED unbounded (pyvc): Circuit.herald, Circuit.bs, Circuit.ps, Circuit.loss, Circuit._mode_in_range, check_loss, Parameter.set / min_bound / max_bound, State.s setter / __setitem__: on every raising exit everything reachable from the arguments equals its pre-state (exc-frame obligations), and they raise exactly under the stated conditions; State.s returns a fresh copy; no function of sdk / converter / interferometer / display / tomography / gate modules writes module- or class-level mutable state (frame pass). BOUNDED (native): Circuit.add never modifies its argument and a rejected add changes nothing (about 10 000 histories quick / 50 000 thorough, shared with C02); 96 rejected construction calls on parents with and without ancillas raise the documented error and change nothing; add / + / copy / simulate / sample / analyse / Reck.map / Display / tomography / qiskit conversion leave every circuit, state and shared module-level gate instance unchanged; editing a sub-circuit afterwards does not change the parent. NOT under contract: Circuit.add, copy (bounded only). PROVED LATER (pyvc): exceptional frames of Circuit.barrier and Circuit.mode_swaps.')
EXPLANATION = EXPLANATION + ' ADDED IN ROUNDS 5-8. PROVED (pyvc): Circuit.copy / __add__ / __init__, unpack_circuit_spec, compress_mode_swaps and convert_non_adj_beamsplitters leave their arguments untouched (frames), Circuit.mode_swaps / barrier with ancillas. BOUNDED: every refusal of add() against heralded / grouped arguments and arguments holding out-of-range parameters; copies and sums made earlier are independent of later re-indexing operations on the other circuit.'
ASSUMPTIONS = ["two input references do not alias", "bounded parts: stated families of parents / sub-circuits / rejected calls"]
TRUSTED = ["z3 5.1", "pyvc frame tracking (provenance FRESH / argument path)", "snapshot comparison of observable circuit state"]
NSHARDS = 8


def units(tier):
    u = pyvc_units("C08", MODULES)
    for k in range(NSHARDS):
        u.append(dict(kind="func", mechanism="bounded runtime contract (C)", name=f"bounded:Circuit.add[{k}/{NSHARDS}]", module="vf.tasks.t_add", func="unit", args=dict(shard=k, nshards=NSHARDS)))
    u.append(dict(kind="func", mechanism="bounded runtime contract (C)", name="bounded:rejected-calls", module="vf.tasks.t_frames", func="unit", args=dict(which="rejected")))
    u.append(dict(kind="func", mechanism="bounded runtime contract (C)", name="bounded:arguments-unchanged", module="vf.tasks.t_frames", func="unit", args=dict(which="arguments")))
    u.append(frame_unit("sdk+converter+reck+display", SDK_FILES + CONV_FILES + RECK_FILES + DISPLAY_FILES + TOMO_FILES + GATE_FILES))
    u.append(dict(kind="func", mechanism="lemmas (D: z3 induction schemas)", name="lemmas:z3", module="vf.lemmas.z3lemmas", func="unit"))
    return u
