from .common import pyvc_units, frame_unit, CONV_FILES, DISPLAY_FILES, GATE_FILES, RECK_FILES, SDK_FILES, TOMO_FILES

LEVEL = "other"
MODULES = ["vf.contracts.c_state", "vf.contracts.c_circuit_modes", "vf.contracts.c_parameters"]
EXPLANATION = "under construction"
ASSUMPTIONS = ["two input references do not alias", "bounded parts: stated families of parents / sub-circuits / rejected calls"]
TRUSTED = ["z3 5.1", "pyvc frame tracking (provenance FRESH / argument path)", "snapshot comparison of observable circuit state"]
NSHARDS = 8


def units(tier):
    u = pyvc_units("C08", MODULES)
    for k in range(NSHARDS):
        u.append(dict(kind="func", mechanism="bounded runtime contract (C)", name=f"bounded:Circuit.add[{k}/{NSHARDS}]", module="vf.tasks.t_add", func="unit", args=dict(shard=k, nshards=NSHARDS)))
    u.append(dict(kind="func", mechanism="bounded runtime contract (C)", name="bounded:rejected-calls", module="vf.tasks.t_frames", func="unit", args=dict(which="rejected")))
    u.append(dict(kind="func", mechanism="bounded runtime contract (C)", name="bounded:arguments-unchanged", module="vf.tasks.t_frames", func="unit", args=dict(which="arguments")))
    u.append(frame_unit("sdk+converter+reck+display", SDK_FILES + CONV_FILES + RECK_FILES + DISPLAY_FILES + TOMO_FILES + GATE_FILES))
    return u
