from .common import pyvc_units
from vf.tasks.t_fock import circuit_labels

LEVEL = "other"
EXPLANATION = "under construction"
ASSUMPTIONS = ["A1: floats are exact reals", "circuit matrices restricted to exact (rational Cayley / sqrt-rational) unitaries inside the bound"]
TRUSTED = ["xlift field + numpy proxy + exact permanent", "spec formulas vf/spec/fock.py", "z3 5.1"]


def units(tier):
    u = []
    for l in [x for x in circuit_labels(tier) if x not in ('tiny', 'U3[late-herald]')]:   # 'tiny' exists for the sampler's documented 1e-9 truncation only
        u.append(dict(kind="xlift", mechanism="xlift bounded (C), exact", name=f"xlift:analyzer+quick[{l}]", module="vf.tasks.t_fock", func="unit", args=dict(which="analyzer", label=l)))
    return u
