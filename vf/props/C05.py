from .common import pyvc_units
from vf.tasks.t_fock import circuit_labels

LEVEL = "other"
EXPLANATION = ("BOUNDED, exact arithmetic (xlift), 9 circuits incl. photon-carrying heralds, heralds with input != output modes, loss, ancillas; inputs of 1-2 photons; post-selection none / rule / predicate: Analyzer probabilities = sampler probability of the heralded output (independent spec), every accepted output listed, performance = mean accepted total, error rate = 1 - mean accepted-and-expected fraction with the expectation dict in a different order than the inputs (float tolerance 1e-12: the code returns a float); QuickSampler distribution = sampler distribution conditioned on heralds, no lost photon, <=1 photon per mode for threshold detection, post-selection, renormalised (both detector modes, three post-selection shapes). 'Squared simulator amplitudes = sampler probabilities' follows from C03 + C04 meeting the same spec. PROVED unbounded (pyvc): Rule.validate (rules over <=3 symbolic modes with <=2 allowed totals) accepts a state iff the photon total over its modes is an allowed total; State accessors. The emulator objects themselves (Analyzer, QuickSampler) are not under unbounded contracts. ADDED LATER (bounded): vacuum inputs, a circuit without user-visible modes, predicates written for State objects, expectation lists naming an output twice, the analyzer reused across calls (unit shared with C11). PROVED LATER (pyvc): PostSelection.add appends exactly one rule, registers its modes, raises ValueError iff a value is negative or (without multi_rules) a mode already carries a rule, and changes nothing when it raises.")
EXPLANATION = EXPLANATION + ' ADDED IN ROUNDS 5-8. PROVED (pyvc): PostSelection.validate is the conjunction of its rules (5 shapes), process_post_selection hands a PostSelection object on as the object it is, check_int. BOUNDED: two single-photon heralds; predicates that use State semantics for the QuickSampler; a PostSelection object extended by the user after hand-over; Sampler parameter-update histories.'
ASSUMPTIONS = ["A1: floats are exact reals", "circuit matrices restricted to exact (rational Cayley / sqrt-rational) unitaries inside the bound"]
TRUSTED = ["xlift field + numpy proxy + exact permanent", "spec formulas vf/spec/fock.py", "z3 5.1"]


def units(tier):
    u = pyvc_units("C05", ["vf.contracts.c_emulator", "vf.contracts.c_state"]) + []
    for l in [x for x in circuit_labels(tier) if x not in ('tiny', 'U3[late-herald]')]:   # 'tiny' exists for the sampler's documented 1e-9 truncation only
        u.append(dict(kind="xlift", mechanism="xlift bounded (C), exact", name=f"xlift:analyzer+quick[{l}]", module="vf.tasks.t_fock", func="unit", args=dict(which="analyzer", label=l)))
    # the analyzer reused across calls (circuit edited / re-assigned, loss added, post-selection changed): same answers as a fresh analyzer (unit shared with C11)
    u.append(dict(kind="func", mechanism="bounded runtime contract (C)", name="bounded:analyzer-histories", module="vf.tasks.t_history", func="unit", args=dict(kind="analyzer")))
    # the Sampler side of the comparison stays exact when it is a long-lived object whose circuit parameters move (large and tiny updates): unit shared with C04
    u.append(dict(kind="func", mechanism="bounded runtime contract (C)", name="bounded:sampler-parameter-update-histories", module="vf.tasks.t_history", func="unit",
                  args=dict(kind="sampler", only=["param", "param-tiny", "edit-circuit", "backend", "loss"])))
    return u
