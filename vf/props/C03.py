from .common import pyvc_units
from vf.tasks.t_fock import circuit_labels

LEVEL = "other"
EXPLANATION = ("Clause table. PROVED unbounded (pyvc): add_heralds_to_state places herald values on herald modes and the state's entries, in order, on the others, for list and State arguments, any length, any herald positions (loop invariant with the counting function cnt, lemma cnt-diff proved by z3 induction schema); State._validate raises ValueError iff an occupation is negative; State.__len__/__getitem__/n_photons/s. BOUNDED, exact arithmetic (xlift): Simulator.simulate on 10 circuits (plain, heralds with input != output modes and with photons, two heralds, lossy, lossy + herald, ancilla in the middle, herald declared after the Simulator was created) for every input of <=2 photons (3 thorough): each amplitude = permanent of the photon-indexed sub-matrix of the circuit's U_full / sqrt(prod factorials) with herald photons inserted and vacuum on loss modes (independent spec permanent), default outputs = full Fock basis of that photon number once, indexing consistent, unit vector for lossless circuits; wrong length, negative, non-integer, mismatched photon numbers are rejected. partition(U, in, out) = U[rows repeated by OUTPUT occupation, columns repeated by INPUT occupation] for all sizes and occupations (loop invariant over lsum; np.ix_ model), remove_heralds_from_state (C18). NOT under contract: Permanent.calculate (thewalrus replaced by the exact permanent under xlift), fock_basis/_sums (checked through the outputs clause only). ADDED LATER: Permanent.calculate under contract (amplitude formula with every occupation factorial, partition called modularly); BOUNDED native: occupations whose factorials exceed 64 bits (13, 20, 21 photons in a mode, |13,13> on slos), a reused Simulator after tiny / large parameter steps, in-place edits and late heralds, a circuit without user-visible modes. PROVED LATER (pyvc): Simulator._process_inputs refuses a state of the wrong length (ModeMismatchError), a negative occupation (ValueError) and a non-State (TypeError), and hands the accepted states on unchanged (1 and 2 states, single State).")
EXPLANATION = EXPLANATION + " ADDED IN ROUNDS 5-8. BOUNDED: the 'tiny' circuit (matrix elements of modulus 1e-5) also for the simulator; states listed more than once in input / output lists; invalid outputs given as a bare State; states built from numpy arrays / tuples / numpy scalars / floats (invalid ones refused, never truncated and computed)."
ASSUMPTIONS = ["A1: floats are exact reals", "circuit matrices restricted to exact (rational Cayley / sqrt-rational) unitaries inside the bound"]
TRUSTED = ["xlift field + numpy proxy + exact permanent", "spec formulas vf/spec/fock.py", "z3 5.1"]
MODULES = ["vf.contracts.c_heralding", "vf.contracts.c_state", "vf.contracts.c_backend", "vf.contracts.c_simulator", "vf.contracts.c_rewrite"]


def units(tier):
    u = pyvc_units("C03", MODULES)
    u.append(dict(kind="func", mechanism="lemmas (D: z3)", name="lemmas:z3", module="vf.lemmas.z3lemmas", func="unit"))
    for l in circuit_labels(tier):   # incl. 'tiny' (matrix elements of modulus 1e-5: the simulator has no truncation threshold)
        u.append(dict(kind="xlift", mechanism="xlift bounded (C), exact", name=f"xlift:simulator[{l}]", module="vf.tasks.t_fock", func="unit", args=dict(which="simulator", label=l)))
    u.append(dict(kind="func", mechanism="bounded runtime contract (C), native machine integers", name="bounded:large-occupations", module="vf.tasks.t_fock", func="unit_bigint", args={}))
    u.append(dict(kind="func", mechanism="bounded runtime contract (C)", name="bounded:simulator-histories", module="vf.tasks.t_history", func="unit", args=dict(kind="simulator")))
    u.append(dict(kind="func", mechanism="bounded runtime contract (C), native", name="bounded:typed-states", module="vf.tasks.t_fock", func="unit_typed_states", args={}))
    return u
