from .common import pyvc_units
from vf.tasks.t_fock import circuit_labels

LEVEL = "other"
EXPLANATION = "under construction"
ASSUMPTIONS = ["A1: floats are exact reals", "circuit matrices restricted to exact (rational Cayley / sqrt-rational) unitaries inside the bound"]
TRUSTED = ["xlift field + numpy proxy + exact permanent", "spec formulas vf/spec/fock.py", "z3 5.1"]
MODULES = ["vf.contracts.c_heralding", "vf.contracts.c_state"]


def units(tier):
    u = pyvc_units("C03", MODULES)
    u.append(dict(kind="func", mechanism="lemmas (D: z3)", name="lemmas:z3", module="vf.lemmas.z3lemmas", func="unit"))
    for l in [x for x in circuit_labels(tier) if x != 'tiny']:
        u.append(dict(kind="xlift", mechanism="xlift bounded (C), exact", name=f"xlift:simulator[{l}]", module="vf.tasks.t_fock", func="unit", args=dict(which="simulator", label=l)))
    return u
