LEVEL = "other"
EXPLANATION = "under construction"
ASSUMPTIONS = ["A4: random.random() is uniform on [0,1), numpy Generator.choice draws i.i.d. from the categorical distribution it is given; seeded => deterministic",
               "the probabilistic conclusion (empirical frequencies converge) is not a contract: it follows from A4 and the deterministic kernel checked here"]
TRUSTED = ["scripted oracle harness vf/tasks/t_sampling.py"]


def units(tier):
    return [dict(kind="func", mechanism="bounded runtime contract (C), scripted oracle", name=f"bounded:{w}", module="vf.tasks.t_sampling", func="unit", args=dict(which=w))
            for w in ("detector", "sampler", "quick", "inputs", "seeds")]
