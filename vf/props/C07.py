from .common import pyvc_units, frame_unit, EMU_FILES
LEVEL = "other"
EXPLANATION = ("BOUNDED (histories shared with C11): after <=2 reconfiguration steps (incl. heralds moved to other modes with other photon numbers, with every kind of read after each step) the sampling methods of a long-lived Sampler / QuickSampler return exactly what a fresh object returns for the same seed (heralded modes removed according to the CURRENT heralds). PROVED unbounded (pyvc): Detector.efficiency / p_dark / photon_counting setters accept exactly numeric values in [0,1] / booleans and change nothing when they raise; Rule.validate (<=3 modes, <=2 allowed totals, symbolic) = the photon total over the rule's modes is one of the allowed totals; remove_heralds_from_state is the order-preserving deletion of the herald modes for any list of distinct modes in any order (ghost index maps); add_heralds_to_state (C03). BOUNDED, deterministic (randomness replaced by a scripted oracle). Detector._get_output: for every state of <=3 modes / <=3 photons, 8 detector settings and EVERY boolean outcome sequence (3067 cases) the output equals the documented kernel - one efficiency draw per photon in mode order, then one dark-count draw per mode, then the threshold cap - and consumes exactly those draws; a draw equal to the efficiency still detects. sample_N_outputs (Sampler, QuickSampler): the (values, p) handed to numpy's Generator.choice equal the exact distribution pushed through threshold -> herald check -> herald removal -> post-selection -> min-detection (>=) -> renormalisation; exactly N are returned. sample_N_inputs: with scripted draws the returned counts equal the documented pipeline (detector, herald check after detection, removal, post-selection, min-detection). Equal seeds give equal results. NOT A CONTRACT: 'empirical frequencies converge' - follows from the assumed contracts of random.random / Generator.choice (A4) and the kernel above; no statistical test is run. ADDED LATER (bounded): detectors configured through their setters (also after use), predicates written for State objects, seeds of other numeric types, a two-photon herald with click detectors must not return samples. PROVED LATER (pyvc): PostSelection.add; process_random_seed returns None or the int value of an integral seed and raises TypeError otherwise.")
ASSUMPTIONS = ["A4: random.random() is uniform on [0,1), numpy Generator.choice draws i.i.d. from the categorical distribution it is given; seeded => deterministic",
               "the probabilistic conclusion (empirical frequencies converge) is not a contract: it follows from A4 and the deterministic kernel checked here"]
TRUSTED = ["scripted oracle harness vf/tasks/t_sampling.py"]


def units(tier):
    u = pyvc_units("C07", ["vf.contracts.c_emulator", "vf.contracts.c_heralding", "vf.contracts.c_state"])
    u += [dict(kind="func", mechanism="bounded runtime contract (C), scripted oracle", name=f"bounded:{w}", module="vf.tasks.t_sampling", func="unit", args=dict(which=w))
          for w in ("detector", "sampler", "quick", "inputs", "seeds", "single")]
    # sampling after reconfiguration (herald modes / photon numbers changed on a long-lived object): the returned states are those of a fresh object
    for k in range(3):
        u.append(dict(kind="func", mechanism="bounded runtime contract (C)", name=f"bounded:sampler-histories[{k}/3]", module="vf.tasks.t_history", func="unit",
                      args=dict(kind="sampler", shard=k, nshards=3)))
    u.append(dict(kind="func", mechanism="bounded runtime contract (C)", name="bounded:quick-histories", module="vf.tasks.t_history", func="unit", args=dict(kind="quick", shard=0, nshards=1)))
    u.append(frame_unit("emulator", EMU_FILES))
    return u
