from .common import pyvc_units
from vf.tasks.t_fock import circuit_labels

LEVEL = "other"
EXPLANATION = "under construction"
ASSUMPTIONS = ["A1: floats are exact reals", "circuit matrices restricted to exact (rational Cayley / sqrt-rational) unitaries inside the bound"]
TRUSTED = ["xlift field + numpy proxy + exact permanent", "spec formulas vf/spec/fock.py", "z3 5.1"]


def units(tier):
    u = [dict(kind="xlift", mechanism="xlift modular (B): real pdist_calc against the callee contract, symbolic probabilities", name="xlift:pdist_calc", module="vf.tasks.t_fock", func="unit", args=dict(which="pdist"))]
    for l in [x for x in circuit_labels(tier) if x != 'U3[late-herald]']:
        u.append(dict(kind="xlift", mechanism="xlift bounded (C), exact", name=f"xlift:sampler[{l}]", module="vf.tasks.t_fock", func="unit", args=dict(which="sampler", label=l)))
    return u
