from .common import pyvc_units
from vf.tasks.t_fock import circuit_labels

LEVEL = "other"
EXPLANATION = ("Clause table. PROVED for all probability values (xlift modular, symbolic): the real pdist_calc against the contract of Backend.full_probability_distribution (values >= 0, total <= 1): the result is normalised and the vacuum keeps its own weight plus the missing probability. BOUNDED, exact arithmetic (xlift): Sampler.probability_distribution on 10 circuits x every input of <=2 photons x both backends equals sum over loss configurations of |amp|^2 (spec permanent on U_full), vacuum included, total one, values >= 0, nothing with more photons than injected; equality is exact, or within 1e-9 per truncated full state on the circuit built to have a 1e-5 matrix element. 'Same on both backends' = both meet the same reference. NOT under contract: SLOS.calculate / full_probability_distribution as loops (only through the bounded runs). OUT OF REACH: how often float rounding triggers the vacuum overwrite (A1) - the defect itself was refuted symbolically. ADDED LATER (bounded, native machine integers): one-mode circuits with 12-21 photons and |13,13> through a beam splitter on both backends (factorials beyond 64 bits).")
EXPLANATION = EXPLANATION + ' ADDED IN ROUNDS 5-8. BOUNDED (native): parameter-update histories incl. updates of relative 4e-6 and sampling calls with their own criteria; backend named in any letter case / with blanks / as object (refused or canonical result); default-constructed Samplers share no source / detector object.'
ASSUMPTIONS = ["A1: floats are exact reals", "circuit matrices restricted to exact (rational Cayley / sqrt-rational) unitaries inside the bound"]
TRUSTED = ["xlift field + numpy proxy + exact permanent", "spec formulas vf/spec/fock.py", "z3 5.1"]


def units(tier):
    u = [dict(kind="xlift", mechanism="xlift modular (B): real pdist_calc against the callee contract, symbolic probabilities", name="xlift:pdist_calc", module="vf.tasks.t_fock", func="unit", args=dict(which="pdist"))]
    for l in [x for x in circuit_labels(tier) if x != 'U3[late-herald]']:
        u.append(dict(kind="xlift", mechanism="xlift bounded (C), exact", name=f"xlift:sampler[{l}]", module="vf.tasks.t_fock", func="unit", args=dict(which="sampler", label=l)))
    u.append(dict(kind="func", mechanism="bounded runtime contract (C), native machine integers", name="bounded:large-occupations", module="vf.tasks.t_fock", func="unit_bigint", args={}))
    # the distribution a Sampler reports after parameter updates (large, and tiny: relative 4e-6), in-place circuit edits and backend changes is the one
    # of the current values (= a fresh Sampler's, which the units above compare with the independent reference)
    u.append(dict(kind="func", mechanism="bounded runtime contract (C)", name="bounded:parameter-update-histories", module="vf.tasks.t_history", func="unit",
                  args=dict(kind="sampler", only=["param", "param-tiny", "edit-circuit", "backend", "loss"])))
    # a Sampler created without a source / detector is ideal whatever was done to another such Sampler before (no shared default objects)
    u.append(dict(kind="func", mechanism="bounded runtime contract (C)", name="bounded:default-objects-not-shared", module="vf.tasks.t_history", func="unit_bystanders", args={}))
    u.append(dict(kind="func", mechanism="bounded runtime contract (C), native", name="bounded:backend-names", module="vf.tasks.t_fock", func="unit_backend_names", args={}))
    return u
