from .common import frame_unit, DISPLAY_FILES
LEVEL = "other"
EXPLANATION = ("BOUNDED (native): 313 circuits (quick) - the Circuit.add histories of C02 (every ancilla configuration), all component kinds with labelled / unlabelled parameters, loss, barriers, plain, heralded and nested groups, qubit gates, single mode, empty, heralds only - x both back-ends x display_loss x show_parameter_values x default / custom labels (7759 calls): a drawing is produced without raising and the circuit is unchanged; label lists of the wrong length (incl. empty) and an unknown display type give DisplayError and change nothing. PROVED (frame pass): the display modules never write module- or class-level mutable state. NOT under contract: the drawing classes' position arithmetic (bounded only). ADDED LATER (bounded): degenerate but constructible components (barrier over no modes, empty swaps, empty group, 1x1 unitary), mode numbers given as numpy integers / whole floats / float32, one label list reused for all calls (must not be changed).")
EXPLANATION = EXPLANATION + ' ADDED IN ROUNDS 5-8. BOUNDED: unknown display types of every kind (non-strings too) through Display and Circuit.display, component values given as numpy scalars / ints / Fractions (directly and through Parameters), group names of every shape, mode labels that are not strings.'
ASSUMPTIONS = ["A4: drawsvg / matplotlib calls are total", "bounded: the constructed family of circuits (add-histories of C02, all component kinds, nested and heralded groups, qubit gates)"]
TRUSTED = ["snapshot comparison of (n_modes, input_modes, heralds, internal modes, spec repr, U_full bytes)"]
NSHARDS = 14


def units(tier):
    u = [dict(kind="func", mechanism="bounded runtime contract (C)", name=f"bounded:display[{k}/{NSHARDS}]", module="vf.tasks.t_display", func="unit", args=dict(shard=k, nshards=NSHARDS))
            for k in range(NSHARDS)]
    u.append(frame_unit("display", DISPLAY_FILES))
    return u
