from .common import frame_unit, DISPLAY_FILES
LEVEL = "other"
EXPLANATION = "under construction"
ASSUMPTIONS = ["A4: drawsvg / matplotlib calls are total", "bounded: the constructed family of circuits (add-histories of C02, all component kinds, nested and heralded groups, qubit gates)"]
TRUSTED = ["snapshot comparison of (n_modes, input_modes, heralds, internal modes, spec repr, U_full bytes)"]
NSHARDS = 14


def units(tier):
    u = [dict(kind="func", mechanism="bounded runtime contract (C)", name=f"bounded:display[{k}/{NSHARDS}]", module="vf.tasks.t_display", func="unit", args=dict(shard=k, nshards=NSHARDS))
            for k in range(NSHARDS)]
    u.append(frame_unit("display", DISPLAY_FILES))
    return u
