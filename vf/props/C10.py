from .common import pyvc_units

LEVEL = "other"
MODULES = ["vf.contracts.c_parameters", "vf.contracts.c_components"]
NSHARDS = 6
EXPLANATION = "under construction"
ASSUMPTIONS = ["A1: float values are exact reals (NaN excluded)"]
TRUSTED = ["z3 5.1", "pyvc encoding of the Python subset"]


def units(tier):
    u = pyvc_units("C10", MODULES)
    for k in range(NSHARDS):
        u.append(dict(kind="xlift", mechanism="xlift bounded (C), exact", name=f"xlift:live-parameters[{k}/{NSHARDS}]", module="vf.tasks.t_rewrite", func="unit_params",
                      args=dict(shard=k, nshards=NSHARDS)))
    return u
