from .common import pyvc_units

LEVEL = "other"
MODULES = ["vf.contracts.c_parameters", "vf.contracts.c_components", "vf.contracts.c_specshift", "vf.contracts.c_circuit_modes", "vf.contracts.c_rewrite"]
NSHARDS = 6
EXPLANATION = ("Clause table. PROVED unbounded (pyvc, all argument type variants): Parameter.set / min_bound / max_bound preserve the object invariant (value within its bounds; bounds only with numeric values), raise ParameterValueError / ParameterBoundsError exactly under the stated conditions and change nothing when they raise; Parameter.get returns the current value; an out-of-range reflectivity held by a Parameter raises ValueError when the matrix is requested (BeamSplitter validation contract); add_empty_mode_to_circuit_spec / add_modes_to_circuit_spec (herald insertion and sub-circuit placement) keep the SAME Parameter object in the shifted BeamSplitter / PhaseShifter / Loss element (element contracts, vf/contracts/c_specshift.py). BOUNDED, exact (xlift): circuits built with Parameter objects in every component kind (also inside plain and heralded groups) report the unitary for the values at construction and, after set() on the user's objects, for the new values - also after unpack_groups / compress_mode_swaps / remove_non_adjacent_bs / copy; every Parameter is listed exactly once by identity; a frozen copy keeps the old values and lists none; a reflectivity / loss of 1.5 gives CircuitCompilationError on use. OUT OF REACH: NaN (A1). ADDED LATER: Loss validation contract (current Parameter value out of range raises ValueError); BOUNDED native: the Parameter invariant with float32 / float64 / int64 values and bounds compared in double precision; the parameter list read between construction steps.")
EXPLANATION = EXPLANATION + " ADDED IN ROUNDS 5-8. PROVED (pyvc): Circuit.bs / ps / loss keep a Parameter as the object itself and record the Loss element whatever its value; _freeze_params, Circuit.copy (plain and frozen), get_all_params (each object once by identity, also inside nested groups), remove_non_adjacent_bs / compress_mode_swaps keep the user's Parameter objects, _add_empty_mode shifts the spec passed in. BOUNDED: equal initial values of distinct Parameters; zero-valued loss Parameters; falsy non-numeric values; NaN / infinite values and bounds (native)."
ASSUMPTIONS = ["A1: float values are exact reals (NaN excluded)"]
TRUSTED = ["z3 5.1", "pyvc encoding of the Python subset"]


def units(tier):
    u = pyvc_units("C10", MODULES)
    for k in range(NSHARDS):
        u.append(dict(kind="xlift", mechanism="xlift bounded (C), exact", name=f"xlift:live-parameters[{k}/{NSHARDS}]", module="vf.tasks.t_rewrite", func="unit_params",
                      args=dict(shard=k, nshards=NSHARDS)))
    u.append(dict(kind="func", mechanism="bounded runtime contract (C), native numpy scalars", name="bounded:parameter-numpy-scalars", module="vf.tasks.t_params", func="unit", args={}))
    return u
