from .common import pyvc_units

LEVEL = "other"
MODULES = ["vf.contracts.c_parameters"]
EXPLANATION = "under construction"
ASSUMPTIONS = ["A1: float values are exact reals (NaN excluded)"]
TRUSTED = ["z3 5.1", "pyvc encoding of the Python subset"]


def units(tier):
    return pyvc_units("C10", MODULES)
