from .common import frame_unit, EMU_FILES
LEVEL = "other"
EXPLANATION = "under construction"
ASSUMPTIONS = ["bounded: histories of <=2 (quick) / <=3 (thorough) reconfiguration steps from 10 step kinds, each followed by every kind of read"]
TRUSTED = ["identical code path on identical inputs gives identical floats (comparison to 1e-12)"]


def units(tier):
    u = []
    for k in range(6):
        u.append(dict(kind="func", mechanism="bounded runtime contract (C)", name=f"bounded:sampler-histories[{k}/6]", module="vf.tasks.t_history", func="unit",
                      args=dict(kind="sampler", shard=k, nshards=6)))
    for k in range(3):
        u.append(dict(kind="func", mechanism="bounded runtime contract (C)", name=f"bounded:quick-histories[{k}/3]", module="vf.tasks.t_history", func="unit",
                      args=dict(kind="quick", shard=k, nshards=3)))
    u.append(dict(kind="func", mechanism="bounded runtime contract (C)", name="bounded:analyzer-histories", module="vf.tasks.t_history", func="unit", args=dict(kind="analyzer")))
    u.append(frame_unit("emulator", EMU_FILES))
    return u
