from .common import frame_unit, EMU_FILES
LEVEL = "other"
EXPLANATION = ("BOUNDED (native): long-lived Sampler (303 histories quick), QuickSampler (150) and Analyzer (call sequences) versus a freshly created object with the same settings: after every sequence of <=2 (thorough 3) reconfiguration steps out of 10 kinds (new unitary, in-place circuit edit, parameter value, input state, herald photon number, herald mode, brightness, indistinguishability, backend, loss) with a distribution read after each step, every kind of read (distribution, sample, sample_N_inputs, sample_N_outputs with fixed seeds) is identical; sampling works as the first read; an analysis result carries only quantities computed by that call. PROVED (frame pass): no emulator module writes module- or class-level mutable state. NOT under contract: the 'reads are a subset of the configuration snapshot' obligation of DESIGN section 5 was not built.")
ASSUMPTIONS = ["bounded: histories of <=2 (quick) / <=3 (thorough) reconfiguration steps from 10 step kinds, each followed by every kind of read"]
TRUSTED = ["identical code path on identical inputs gives identical floats (comparison to 1e-12)"]


def units(tier):
    u = []
    for k in range(6):
        u.append(dict(kind="func", mechanism="bounded runtime contract (C)", name=f"bounded:sampler-histories[{k}/6]", module="vf.tasks.t_history", func="unit",
                      args=dict(kind="sampler", shard=k, nshards=6)))
    for k in range(3):
        u.append(dict(kind="func", mechanism="bounded runtime contract (C)", name=f"bounded:quick-histories[{k}/3]", module="vf.tasks.t_history", func="unit",
                      args=dict(kind="quick", shard=k, nshards=3)))
    u.append(dict(kind="func", mechanism="bounded runtime contract (C)", name="bounded:analyzer-histories", module="vf.tasks.t_history", func="unit", args=dict(kind="analyzer")))
    u.append(frame_unit("emulator", EMU_FILES))
    return u
