from .common import frame_unit, pyvc_units, EMU_FILES
LEVEL = "other"
EXPLANATION = ("BOUNDED (native): long-lived Sampler (~730 histories quick), QuickSampler (~440) and Analyzer (call sequences) versus a freshly created object with the same settings: after every sequence of <=2 (thorough 3) reconfiguration steps out of 14 kinds (new unitary, in-place circuit edit, parameter value, input state, herald photon number, herald mode, both together, herald swap at constant photon number, brightness, indistinguishability, backend, loss, and two reconfigurations after which reading must FAIL - wrong input length, post-selection rejecting everything) with a distribution read (or, in the warm-all variant, every kind of read) after each step, every kind of read (distribution, sample, sample_N_inputs, sample_N_outputs with fixed seeds) is identical; sampling works as the first read; an analysis result carries only quantities computed by that call. PROVED (frame pass): no emulator module writes module- or class-level mutable state. PROVED (order obligation of the same pass): the snapshot is stored only after the distribution has been computed and stored, so a recalculation that raises leaves the object out of date. PROVED (reads pass, vf/pyvc/readsframe.py): every attribute of self that the recomputation of Sampler / QuickSampler.probability_distribution reads (transitively through its helper methods) is determined by a key stored in the configuration snapshot _gen_calculation_values (reads of the recomputation are a subset of the snapshot; the per-callee reads table is trusted). PROVED LATER (pyvc): State.__init__ owns its list, so the input state held by a sampler cannot change behind the configuration snapshot.")
EXPLANATION = EXPLANATION + ' ADDED IN ROUNDS 5-8. BOUNDED: tiny parameter updates, repeated steps, sibling closures as post-selection, sampling calls with their own criteria followed by a read, in-place edits of the held detector / circuit (incl. edits after which a fresh object refuses), default-constructed Samplers sharing nothing.'
ASSUMPTIONS = ["bounded: histories of <=2 (quick) / <=3 (thorough) reconfiguration steps from 14 step kinds (two of them make reading fail), each followed by every kind of read"]
TRUSTED = ["reads table of vf/pyvc/readsframe.py: which configuration keys determine circuit._build(), circuit.input_modes, source._build_statistics()", "identical code path on identical inputs gives identical floats (comparison to 1e-12)"]


def units(tier):
    # State.__init__ owns its list (pyvc): the input state held by a sampler cannot change behind the configuration snapshot
    u = pyvc_units("C11", ["vf.contracts.c_state", "vf.contracts.c_emulator"])
    for k in range(6):
        u.append(dict(kind="func", mechanism="bounded runtime contract (C)", name=f"bounded:sampler-histories[{k}/6]", module="vf.tasks.t_history", func="unit",
                      args=dict(kind="sampler", shard=k, nshards=6)))
    for k in range(3):
        u.append(dict(kind="func", mechanism="bounded runtime contract (C)", name=f"bounded:quick-histories[{k}/3]", module="vf.tasks.t_history", func="unit",
                      args=dict(kind="quick", shard=k, nshards=3)))
    u.append(dict(kind="func", mechanism="bounded runtime contract (C)", name="bounded:analyzer-histories", module="vf.tasks.t_history", func="unit", args=dict(kind="analyzer")))
    u.append(frame_unit("emulator", EMU_FILES))
    u.append(dict(kind="func", mechanism="pyvc reads pass (A: reads of the cached recomputation are a subset of the configuration snapshot)", name="reads:snapshot", module="vf.pyvc.readsframe",
                  func="unit", args={}))
    return u
