from .common import pyvc_units, frame_unit, CONV_FILES, GATE_FILES

LEVEL = "other"
MODULES = ["vf.contracts.c_qiskit"]
EXPLANATION = ('Clause table. PROVED unbounded incl. termination (pyvc): convert_two_qubits_to_adjacent returns adjacent qubits in the original order inside the original span and exactly the swaps that move the two original qubits there. BOUNDED (native, oracle qiskit.quantum_info.Operator): 490 conversions (quick) - every single two/three-qubit gate on 3 qubits between phase-sensitive single-qubit layers, every 3rd ordered pair of them, explicit swaps between entangling gates, distance-3 gates on 4 qubits, both values of allow_post_selection: accepted amplitudes (heralds + returned post-selection rules, spec permanent) are one non-zero scalar times the qiskit unitary column, nothing accepted outside the qubit subspace, no computational output rejected; or the converter raises ValueError. post_selection_analyzer for every program of <=3 instructions (quick; <=4 thorough) of arity 1-3 with SYMBOLIC qubit indices: a gate marked post-selectable has at most one qubit touched by a later multi-qubit gate (deferral condition M8), single-qubit instructions are marked False, the returned qubit list is exactly the qubits of multi-qubit gates, each once. NOT under contract: convert/_add_* (bounded only). ADDED LATER (bounded): circuits built from several quantum registers, three-qubit gates on 4 and 5 qubits in every control / target order (refused or correct).')
EXPLANATION = EXPLANATION + ' ADDED IN ROUNDS 5-8. BOUNDED: three entangling gates in every order mixing heralded and post-selected versions, the same gate 2-3 times in a row, explicit swaps moving the post-selected qubits on 4 qubits.'
ASSUMPTIONS = ["qiskit.quantum_info.Operator is the reference unitary (external oracle)", "thewalrus.perm numeric permanent for the bounded amplitude comparison (atol 1e-7)"]
TRUSTED = ["z3 5.1", "pyvc encoding of the Python subset", "spec amplitude formula vf/spec/fock.py"]
NSHARDS = 12


def units(tier):
    u = pyvc_units("C12", MODULES)
    for k in range(NSHARDS):
        u.append(dict(kind="func", mechanism="bounded runtime contract (C)", name=f"bounded:convert[{k}/{NSHARDS}]", module="vf.tasks.t_qiskit", func="unit",
                      args=dict(shard=k, nshards=NSHARDS)))
    u.append(frame_unit("converter", CONV_FILES + GATE_FILES))
    return u
