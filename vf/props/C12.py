from .common import pyvc_units, frame_unit, CONV_FILES, GATE_FILES

LEVEL = "other"
MODULES = ["vf.contracts.c_qiskit"]
EXPLANATION = "under construction"
ASSUMPTIONS = ["qiskit.quantum_info.Operator is the reference unitary (external oracle)", "thewalrus.perm numeric permanent for the bounded amplitude comparison (atol 1e-7)"]
TRUSTED = ["z3 5.1", "pyvc encoding of the Python subset", "spec amplitude formula vf/spec/fock.py"]
NSHARDS = 12


def units(tier):
    u = pyvc_units("C12", MODULES)
    for k in range(NSHARDS):
        u.append(dict(kind="func", mechanism="bounded runtime contract (C)", name=f"bounded:convert[{k}/{NSHARDS}]", module="vf.tasks.t_qiskit", func="unit",
                      args=dict(shard=k, nshards=NSHARDS)))
    u.append(frame_unit("converter", CONV_FILES + GATE_FILES))
    return u
