from .common import frame_unit, GATE_FILES
LEVEL = "other"
EXPLANATION = (
    "Contract: for every gate class of lightworks.qubit (14 single-qubit, CZ, CNOT x2 targets, CZ_Heralded, CNOT_Heralded x2, "
    "CCZ, CCNOT x3, SWAP) and every real rotation angle, the heralded dual-rail amplitude matrix computed with the spec permanent "
    "from the circuit's own U_full equals one scalar times the textbook matrix, |scalar|^2 = 1, 1/9, 1/16, 1/72, and heralded gates "
    "have zero amplitude outside the qubit subspace. Mechanism xlift: the REAL constructors (Unitary, herald, Circuit.add, compile) are "
    "executed by CPython over the exact field Q(i)[sqrt2, 2^(1/4), sqrt3, sqrt7, cos(theta/2), sin(theta/2), ...]; identities are decided "
    "by normal form (z3-nlsat confirms any non-zero form). The discrete domain (class x target_qubit) is finite and fully enumerated and "
    "theta is symbolic, so each of these obligations holds for all inputs of the contract: a complete proof, not a sample (23 of the 24 gate "
    "variants; 93 identities incl. SWAP cases). NOT proved, bounded: SWAP on arbitrary mode pairs - quick tier checks every 7th of the 120 "
    "placements of 4 distinct modes out of 5, thorough all 120 (the infinite family of mode pairs is why the level is 'other', not 'proof'; the "
    "permutation matrix of any complete swap dictionary is proved for all sizes by the pyvc contract of permutation_mat_from_swaps_dict, C01). "
    "Frame obligation: no function of the gate modules writes module- or class-level mutable state (so a gate does not depend on which gates were "
    "built before); cross-checked natively on 72 constructions in sequence."
)
EXPLANATION = EXPLANATION + ' ADDED IN ROUNDS 5-8. BOUNDED (native): default targets of CNOT / CNOT_Heralded / CCNOT; P, Rx, Ry, Rz at 260 concrete angles (all multiples of pi/4 in [-4pi, 4pi], their neighbours, generic angles of both signs); gates composed with Circuit.add (2-3 heralded gates, then gates on higher qubits) and ccx / ccz through the converter in every control / target order. A symbolic-angle run that the gate code makes undecidable (rounding of theta) is reported as undecided.'
ASSUMPTIONS = ["A1: IEEE doubles are treated as exact reals by the lifting (float literals become exact rationals)",
               "trig: cos/sin atoms with c^2+s^2=1 per distinct angle; exp(i x) = cos x + i sin x; values at rational multiples of pi from the exact table"]
TRUSTED = ["CPython executing the lifted modules", "vf/xlift/field.py exact field + numpy object-dtype proxy (vf/xlift/hook.py)",
           "spec permanent vf/spec/fock.py", "textbook gate matrices in vf/tasks/t_gates.py"]


def units(tier):
    u = [dict(kind="xlift", mechanism="xlift (B: real code over exact reals, finite discrete domain complete)", name="xlift:gate-library",
                 module="vf.tasks.t_gates", func="unit")]
    u.append(frame_unit("gate-library", GATE_FILES))
    u.append(dict(kind="func", mechanism="bounded runtime contract (C), native", name="bounded:gate-sequences", module="vf.tasks.t_gates", func="unit_sequences"))
    u.append(dict(kind="func", mechanism="bounded runtime contract (C), native", name="bounded:rotation-gates-concrete-angles", module="vf.tasks.t_gates", func="unit_angles"))
    u.append(dict(kind="func", mechanism="bounded runtime contract (C), native", name="bounded:composed-gates", module="vf.tasks.t_gates", func="unit_composed"))
    return u
