from .common import pyvc_units

LEVEL = "other"
MODULES = ["vf.contracts.c_state", "vf.contracts.c_heralding", "vf.contracts.c_annotated"]
EXPLANATION = ('Clause table. PROVED unbounded (pyvc): State.__add__ (concatenation, TypeError iff not a State), merge (pointwise sum, ValueError iff lengths differ), __eq__ (list equality), s (fresh copy), n_photons (sum), __len__, __getitem__, setters always raise and change nothing, _validate; add_heralds_to_state (C03); remove_heralds_from_state = order-preserving deletion of any list of distinct in-range modes in any order, result fresh, argument unchanged (ghost index maps g / g^-1); db_loss_to_decimal in [0,1), decimal_to_db_loss >= 0 with ValueError iff outside [0,1); lemmas (z3): dB -> decimal -> dB = |x| and decimal -> dB -> decimal = identity from the two contracts and the axioms for 10**x / log10. BOUNDED (native): remove(add(s,h), keys in any order) = s for all states <=3 modes x <=3 heralds x all positions and key orders (9416 cases); State laws incl. hash coherence, slices, associativity; AnnotatedState with label multisets (order irrelevant); random_unitary / random_permutation valid and reproducible for seeds {0,1,2,3,7,42,2^31-1}, N<=5. ASSUMED: scipy unitary_group / numpy permutation distributions; str of equal int lists equal. ADDED LATER (bounded): the list passed to State(...) is not shared, item access / iteration / slices of an AnnotatedState hand out copies, seeded matrices are not shared between calls, integral seeds of other numeric types. PROVED LATER (pyvc): State.__init__ stores a new list with the given entries (the argument is neither kept nor changed); AnnotatedState.__getitem__(i) returns a new list; process_random_seed.')
EXPLANATION = EXPLANATION + ' ADDED IN ROUNDS 5-8. PROVED (pyvc): AnnotatedState.__init__ owns every per-mode list, .s, n_photons, merge, +. BOUNDED: every slice form incl. negative steps, every integer index from -n to n-1, += re-binds and never mutates, numpy-integer occupations hash like Python ints, AnnotatedState constructor aliasing.'
ASSUMPTIONS = ["A1: reals; 10**x and log10 mutually inverse (axioms)", "A6: str of equal int lists are equal (hash coherence)",
               "scipy unitary_group / numpy Generator.permutation: validity and distribution assumed, reproducibility checked bounded"]
TRUSTED = ["z3 5.1", "pyvc encoding of the Python subset", "Lean 4.33 kernel + Mathlib (lemma Lcard is kernel-checked on every run)"]


def units(tier):
    u = pyvc_units("C18", MODULES)
    u.append(dict(kind="func", mechanism="lemmas (D: z3)", name="lemmas:z3", module="vf.lemmas.z3lemmas", func="unit"))
    for w in ("roundtrip", "state", "annotated", "random"):
        u.append(dict(kind="func", mechanism="bounded runtime contract (C)", name=f"bounded:{w}", module="vf.tasks.t_state", func="unit", args=dict(which=w)))
    u.append(dict(kind="func", mechanism="lemmas (D: Lean 4 + Mathlib, kernel-checked)", name="lemmas:lean", module="vf.lemmas.leancheck", func="unit", args=dict(only=['Lcard'])))
    return u
