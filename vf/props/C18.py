from .common import pyvc_units

LEVEL = "other"
MODULES = ["vf.contracts.c_state", "vf.contracts.c_heralding"]
EXPLANATION = "under construction"
ASSUMPTIONS = ["A1: reals; 10**x and log10 mutually inverse (axioms)", "A6: str of equal int lists are equal (hash coherence)",
               "scipy unitary_group / numpy Generator.permutation: validity and distribution assumed, reproducibility checked bounded"]
TRUSTED = ["z3 5.1", "pyvc encoding of the Python subset", "lemma L-card (n distinct integers in [0,N) are exactly the members of their set below N): mathematics"]


def units(tier):
    u = pyvc_units("C18", MODULES)
    u.append(dict(kind="func", mechanism="lemmas (D: z3)", name="lemmas:z3", module="vf.lemmas.z3lemmas", func="unit"))
    for w in ("roundtrip", "state", "annotated", "random"):
        u.append(dict(kind="func", mechanism="bounded runtime contract (C)", name=f"bounded:{w}", module="vf.tasks.t_state", func="unit", args=dict(which=w)))
    return u
