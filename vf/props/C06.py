LEVEL = "other"
EXPLANATION = "under construction"
ASSUMPTIONS = ["A1: exact reals", "mixture law: bounded to inputs of <=2 photons on 3-mode circuits (lossless, lossy, photon-carrying herald), 6 exact parameter triples, both backends"]
TRUSTED = ["xlift field + numpy proxy + exact permanent", "z3-nlsat 5.1", "statement-derived reference vf/tasks/t_source.py:per_photon_outcomes/reference_mixture"]


def units(tier):
    u = [dict(kind="xlift", mechanism="xlift symbolic (B): complete over brightness, purity, indistinguishability", name="xlift:single-photon-table", module="vf.tasks.t_source", func="unit", args=dict(which="single")),
         dict(kind="xlift", mechanism="xlift symbolic (B): indistinguishability symbolic", name="xlift:hom", module="vf.tasks.t_source", func="unit", args=dict(which="hom"))]
    for label in ("U3", "lossy3", "U3+h(1,0,2)"):
        for k in range(6):
            u.append(dict(kind="xlift", mechanism="xlift bounded (C), exact", name=f"xlift:mixture[{label};{k}]", module="vf.tasks.t_source", func="unit",
                          args=dict(which="mixture", label=label, k=k)))
    return u
