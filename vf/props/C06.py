from .common import pyvc_units
LEVEL = "other"
EXPLANATION = ('Clause table. PROVED for all brightness in [0,1], purity in (1/2,1], indistinguishability in [0,1] (xlift symbolic, 14 symbolic paths covering the region, z3-nlsat + normal form): the real Source._single_photon_distribution / purity_to_prob give outcome weights >= 0 summing to one, photon-number statistics with g2 = 1 - purity for every brightness, indistinguishable : distinguishable = sqrt(I) : 1 - sqrt(I), two fresh labels per photon; perfect settings reduce to the ideal source; HOM visibility on a 50:50 beam splitter = indistinguishability for all I (both backends). BOUNDED, exact (xlift): on 3 circuits (lossless, lossy, photon-carrying herald), inputs of 1-2 photons (bunched, gaps), 6 exact parameter triples incl. I = 0 (classical particles), both backends: input statistics sum to one; output = mixture over per-photon emission outcomes of the convolution of the boson-sampling distributions of the mutually distinguishable groups (reference written from the statement); with a probability threshold the retained inputs are renormalised and the output stays normalised. NOT under contract: _full_distribution/_remap_distribution/group_empty_modes/annotated_state_pdist_calc individually (bounded end-to-end only).')
EXPLANATION = EXPLANATION + ' ADDED IN ROUNDS 5-8. PROVED (pyvc): Source.__init__ stores every setting as given (also 0) and refuses what the setters refuse. BOUNDED: a re-used Sampler (earlier circuit with other heralds / other input) gives the mixture of its current configuration; default-constructed Samplers share no source object.'
ASSUMPTIONS = ["A1: exact reals", "mixture law: bounded to inputs of <=2 photons on 3-mode circuits (lossless, lossy, photon-carrying herald), 6 exact parameter triples, both backends"]
TRUSTED = ["xlift field + numpy proxy + exact permanent", "z3-nlsat 5.1", "statement-derived reference vf/tasks/t_source.py:per_photon_outcomes/reference_mixture"]


def units(tier):
    u = pyvc_units("C06", ["vf.contracts.c_emulator", "vf.contracts.c_state"]) + [dict(kind="xlift", mechanism="xlift symbolic (B): complete over brightness, purity, indistinguishability", name="xlift:single-photon-table", module="vf.tasks.t_source", func="unit", args=dict(which="single")),
         dict(kind="xlift", mechanism="xlift symbolic (B): indistinguishability symbolic", name="xlift:hom", module="vf.tasks.t_source", func="unit", args=dict(which="hom"))]
    for label in ("U3", "lossy3", "U3+h(1,0,2)"):
        for k in range(6):
            u.append(dict(kind="xlift", mechanism="xlift bounded (C), exact", name=f"xlift:mixture[{label};{k}]", module="vf.tasks.t_source", func="unit",
                          args=dict(which="mixture", label=label, k=k)))
    # a Sampler created without a source / detector is ideal whatever was done to another such Sampler before (no shared default objects)
    u.append(dict(kind="func", mechanism="bounded runtime contract (C)", name="bounded:default-objects-not-shared", module="vf.tasks.t_history", func="unit_bystanders", args={}))
    return u
