from .common import pyvc_units

LEVEL = "other"
MODULES = ["vf.contracts.c_components", "vf.contracts.c_rewrite", "vf.contracts.c_specshift", "vf.contracts.c_circuit_modes", "vf.contracts.c_matrix"]
EXPLANATION = ('BOUNDED, exact arithmetic (xlift): 4 visible modes, programs over a 17-letter alphabet (swaps, phase shifters, adjacent and non-adjacent beam splitters in both conventions and mode orders, loss, barrier, unitary block, plain group, heralded group with a non-adjacent BS inside) - all pairs plus 400 (quick) / 3000 (thorough) swap-rich programs of length 3-5 - under each of unpack_groups, compress_mode_swaps, remove_non_adjacent_bs, copy, copy(freeze) and every ordered pair of the first three: U_full, heralds, input size unchanged (hence every heralded amplitude); no group remains / no non-adjacent BS remains at any depth / component count not grown; editing the rewritten circuit does not change the original. PROVED unbounded (pyvc): the permutation matrix of a swap dictionary (C01). PROVED for all mode values, shapes enumerated (pyvc, added later): combine_mode_swap_dicts is the composition of the two swaps with unchanged modes dropped (dictionaries of 0-3 entries each); convert_non_adj_beamsplitters replaces a beam splitter d = 2..5 modes apart (either order, either convention) by swap / adjacent beam splitter on the images, same settings / inverse swap, copies other components unchanged and rewrites inside a group; compress_mode_swaps merges a later swap exactly when the component in between (phase shifter, loss, beam splitter, group) touches none of its modes and otherwise returns the spec unchanged; unpack_circuit_spec on 8 spec shapes (groups nested up to three deep, empty group) returns the components in order in a new list with no group left. NOT under contract: Circuit._freeze_params, Circuit.copy (bounded only). ADDED LATER (bounded, native): unpack_circuit_spec on specs with groups nested 1-3 deep terminates, leaves no group and keeps the unitary.')
EXPLANATION = EXPLANATION + " ADDED IN ROUNDS 5-8. PROVED (pyvc): Circuit.copy / __add__ / unpack_groups, the rewriting methods keep the user's Parameter objects, ModeSwaps.get_unitary and __post_init__, the Group element contracts of the spec-shifting functions (a group's declared range follows its components). BOUNDED: zero-valued loss elements, swaps on both sides of groups and of diagonal-phase unitary blocks."
ASSUMPTIONS = ["A1: exact reals", "bounded: 4 visible modes, programs of <=5 components from a 17-letter alphabet, rewrite sequences of length <=2"]
TRUSTED = ["xlift field + numpy proxy", "z3 5.1"]
NSHARDS = 14


def units(tier):
    u = pyvc_units("C09", MODULES)
    for k in range(NSHARDS):
        u.append(dict(kind="xlift", mechanism="xlift bounded (C), exact", name=f"xlift:rewrites[{k}/{NSHARDS}]", module="vf.tasks.t_rewrite", func="unit",
                      args=dict(shard=k, nshards=NSHARDS)))
    u.append(dict(kind="func", mechanism="bounded runtime contract (C)", name="bounded:nested-groups", module="vf.tasks.t_rewrite", func="unit_nested", args={}))
    u.append(dict(kind="func", mechanism="lemmas (D: Lean 4 + Mathlib, kernel-checked)", name="lemmas:lean", module="vf.lemmas.leancheck", func="unit", args=dict(only=['Lsortperm'])))
    return u
