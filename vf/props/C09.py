from .common import pyvc_units

LEVEL = "other"
MODULES = ["vf.contracts.c_components"]
EXPLANATION = "under construction"
ASSUMPTIONS = ["A1: exact reals", "bounded: 4 visible modes, programs of <=5 components from a 17-letter alphabet, rewrite sequences of length <=2"]
TRUSTED = ["xlift field + numpy proxy", "z3 5.1"]
NSHARDS = 14


def units(tier):
    u = pyvc_units("C09", MODULES)
    for k in range(NSHARDS):
        u.append(dict(kind="xlift", mechanism="xlift bounded (C), exact", name=f"xlift:rewrites[{k}/{NSHARDS}]", module="vf.tasks.t_rewrite", func="unit",
                      args=dict(shard=k, nshards=NSHARDS)))
    return u
