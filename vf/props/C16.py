from .common import frame_unit, GATE_FILES, TOMO_FILES
LEVEL = "other"
EXPLANATION = ('Clause table. PROVED for every single-qubit unitary V = Rz(gamma)Ry(beta)Rz(alpha), angles symbolic (xlift): LIProcessTomography.process() on noiseless data equals choi_from_unitary(V) exactly (the 16x16 transform matrix is inverted exactly); GateFidelity.process(T) = (|tr T^dagger V|^2 + d)/(d(d+1)) for T = V (one) and T = X, H, S. BOUNDED (native floats): LI and gate fidelity for n=2 (CNOT, complex non-symmetric S x T . CZ . Ry); MLE on 8 one-qubit and 4 two-qubit gates (H, S, T, Ry, Rx, T.Ry, SX, Rz Ry Rz, CNOT both targets, SWAP, complex two-qubit gate): positive, trace preserving, fidelity >= 0.99, fidelity one for LI. OUT OF REACH: convergence of the projected gradient iteration for all unitaries (numerical analysis).')
EXPLANATION = EXPLANATION + ' ADDED IN ROUNDS 5-8. BOUNDED (native): base circuits with their own heralds (groups unpacked), MLE second run and earlier result kept, LI / MLE / GateFidelity objects reused over parameter steps of 0.004 rad and after a failed experiment.'
ASSUMPTIONS = ["A1: exact reals (xlift units)", "scipy sqrtm / numpy eigh (fidelity, MLE projections): native units only", "MLE convergence (fidelity >= 0.99) is a numerical property: checked on a stated family, not proved"]
TRUSTED = ["xlift field + numpy proxy + exact Gaussian elimination (pinv of the constant 16x16 transform matrix)", "spec amplitude formula"]


def units(tier):
    u = [dict(kind="xlift", mechanism="xlift symbolic (B): Euler angles of V symbolic", name="xlift:li[n=1]", module="vf.tasks.t_tomo", func="unit", args=dict(which="li", n=1)),
         dict(kind="xlift", mechanism="xlift symbolic (B): Euler angles of V symbolic", name="xlift:gate-fidelity[n=1]", module="vf.tasks.t_tomo", func="unit", args=dict(which="gate", n=1))]
    for w in ("li", "gate", "mle"):
        for n in (1, 2):
            u.append(dict(kind="func", mechanism="bounded runtime contract (C), native floats", name=f"bounded:{w}-native[n={n}]", module="vf.tasks.t_tomo", func="unit", args=dict(mode="native", which=w, n=n)))
    u.append(frame_unit("tomography", TOMO_FILES + GATE_FILES))
    u.append(dict(kind="func", mechanism="bounded runtime contract (C), native floats", name="bounded:scans-and-retries", module="vf.tasks.t_tomo", func="unit_scans", args={}))
    return u
