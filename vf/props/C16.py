from .common import frame_unit, GATE_FILES, TOMO_FILES
LEVEL = "other"
EXPLANATION = "under construction"
ASSUMPTIONS = ["A1: exact reals (xlift units)", "scipy sqrtm / numpy eigh (fidelity, MLE projections): native units only", "MLE convergence (fidelity >= 0.99) is a numerical property: checked on a stated family, not proved"]
TRUSTED = ["xlift field + numpy proxy + exact Gaussian elimination (pinv of the constant 16x16 transform matrix)", "spec amplitude formula"]


def units(tier):
    u = [dict(kind="xlift", mechanism="xlift symbolic (B): Euler angles of V symbolic", name="xlift:li[n=1]", module="vf.tasks.t_tomo", func="unit", args=dict(which="li", n=1)),
         dict(kind="xlift", mechanism="xlift symbolic (B): Euler angles of V symbolic", name="xlift:gate-fidelity[n=1]", module="vf.tasks.t_tomo", func="unit", args=dict(which="gate", n=1))]
    for w in ("li", "gate", "mle"):
        for n in (1, 2):
            u.append(dict(kind="func", mechanism="bounded runtime contract (C), native floats", name=f"bounded:{w}-native[n={n}]", module="vf.tasks.t_tomo", func="unit", args=dict(mode="native", which=w, n=n)))
    u.append(frame_unit("tomography", TOMO_FILES + GATE_FILES))
    return u
