"""helpers shared by the per-property unit lists"""
import importlib

ALL_CONTRACT_MODULES = []   # filled by register()


def register(*mods):
    for m in mods:
        if m not in ALL_CONTRACT_MODULES:
            ALL_CONTRACT_MODULES.append(m)


def pyvc_units(prop, modules):
    units = []
    for m in modules:
        mod = importlib.import_module(m)
        seen = {}
        for c in mod.CONTRACTS:
            key = (c.target, c.kind, c.ordinal)
            nth = seen.get(key, 0)          # position among ALL contracts of the module on this function (the driver selects by this index)
            seen[key] = nth + 1
            if prop not in c.props:
                continue
            name = f"pyvc:{c.target}" + (f"[{c.kind}]" if c.kind != "function" else "") + (f"#{c.ordinal}" if c.ordinal else "") + (f"~{nth}" if nth else "")
            units.append(dict(kind="pyvc", mechanism="pyvc (A: VCs from the real AST, unbounded)", name=name, module=m, target=c.target,
                              ckind=c.kind, ordinal=c.ordinal, nth=nth, registry_modules=list(modules)))
    return units


def frame_unit(name, files):
    """global-state frame obligations (vf/pyvc/globalsframe.py) for the listed source files"""
    return dict(kind="func", mechanism="pyvc frame pass (A: module / class level mutable state is never written)", name=f"frame:{name}", module="vf.pyvc.globalsframe", func="unit",
                args=dict(files=list(files)))


GATE_FILES = ["lightworks/qubit/gates/single_qubit_gates.py", "lightworks/qubit/gates/two_qubit_gates.py", "lightworks/qubit/gates/three_qubit_gates.py"]
TOMO_FILES = ["lightworks/tomography/state_tomography.py", "lightworks/tomography/process_tomography.py", "lightworks/tomography/process_tomography_li.py",
              "lightworks/tomography/process_tomography_mle.py", "lightworks/tomography/gate_fidelity.py", "lightworks/tomography/utils.py", "lightworks/tomography/mappings.py"]
EMU_FILES = ["lightworks/emulator/simulation/sampler.py", "lightworks/emulator/simulation/quick_sampler.py", "lightworks/emulator/simulation/analyzer.py",
             "lightworks/emulator/simulation/simulator.py", "lightworks/emulator/simulation/probability_distribution.py", "lightworks/emulator/backend/backend.py",
             "lightworks/emulator/backend/slos.py", "lightworks/emulator/backend/permanent.py", "lightworks/emulator/components/source.py", "lightworks/emulator/components/detector.py"]
SDK_FILES = ["lightworks/sdk/circuit/circuit.py", "lightworks/sdk/circuit/circuit_utils.py", "lightworks/sdk/circuit/compiler.py", "lightworks/sdk/circuit/components.py",
             "lightworks/sdk/circuit/parameters.py", "lightworks/sdk/circuit/unitary.py", "lightworks/sdk/state/state.py", "lightworks/sdk/utils/heralding_utils.py",
             "lightworks/sdk/utils/post_selection.py", "lightworks/sdk/utils/permutation_conversion.py", "lightworks/sdk/utils/matrix_utils.py"]
CONV_FILES = ["lightworks/qubit/converter/qiskit_convert.py"]
RECK_FILES = ["lightworks/interferometers/reck.py", "lightworks/interferometers/decomposition.py", "lightworks/interferometers/error_model.py"]
DISPLAY_FILES = ["lightworks/sdk/visualisation/display.py", "lightworks/sdk/visualisation/draw_circuit_svg.py", "lightworks/sdk/visualisation/draw_circuit_mpl.py",
                 "lightworks/sdk/visualisation/display_components_svg.py", "lightworks/sdk/visualisation/display_utils.py"]
