"""helpers shared by the per-property unit lists"""
import importlib

ALL_CONTRACT_MODULES = []   # filled by register()


def register(*mods):
    for m in mods:
        if m not in ALL_CONTRACT_MODULES:
            ALL_CONTRACT_MODULES.append(m)


def pyvc_units(prop, modules):
    units = []
    for m in modules:
        mod = importlib.import_module(m)
        seen = {}
        for c in mod.CONTRACTS:
            if prop not in c.props:
                continue
            key = (c.target, c.kind, c.ordinal)
            nth = seen.get(key, 0)
            seen[key] = nth + 1
            name = f"pyvc:{c.target}" + (f"[{c.kind}]" if c.kind != "function" else "") + (f"#{c.ordinal}" if c.ordinal else "") + (f"~{nth}" if nth else "")
            units.append(dict(kind="pyvc", mechanism="pyvc (A: VCs from the real AST, unbounded)", name=name, module=m, target=c.target,
                              ckind=c.kind, ordinal=c.ordinal, nth=nth, registry_modules=list(modules)))
    return units
