from .common import pyvc_units, frame_unit, RECK_FILES

LEVEL = "other"
MODULES = ["vf.contracts.c_reck"]
EXPLANATION = "under construction"
ASSUMPTIONS = ["A4.rng: numpy Generator.random() in [0,1), normal() real; seeded => deterministic", "bounded part in native floats, tolerance 1e-8 (the property is stated to numerical precision)"]
TRUSTED = ["z3 5.1 (nlsat)", "lemma M3: identity outside a unitary 2x2 block is unitary"]


def units(tier):
    u = pyvc_units("C14", MODULES)
    u.append(dict(kind="func", mechanism="bounded runtime contract (C), native floats", name="bounded:reck-default", module="vf.tasks.t_reck", func="unit", args=dict(which="default")))
    u.append(dict(kind="func", mechanism="bounded runtime contract (C), native floats", name="bounded:reck-error-model", module="vf.tasks.t_reck", func="unit", args=dict(which="error")))
    u.append(frame_unit("reck", RECK_FILES))
    return u
