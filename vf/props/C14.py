from .common import pyvc_units, frame_unit, RECK_FILES

LEVEL = "other"
MODULES = ["vf.contracts.c_reck"]
EXPLANATION = ('Clause table. PROVED unbounded (pyvc, z3-nlsat): bs_matrix is the identity outside the two modes and its 2x2 block is unitary for all theta, phi, mode pairs and sizes; TopHat.value lies within its bounds; Gaussian.value lies within its bounds whenever the resampling loop exits (partial correctness). BOUNDED (native floats, tolerance 1e-12, observed worst 1e-15 - the property is stated to numerical precision): Reck().map reproduces 106 structured unitaries (identity, every permutation up to 4 modes, phased permutations, block-diagonal, sparse, DFT, nearly-zero couplings of either sign from 1e-6 down to 1e-14 on 3 and 4 modes, Haar up to 6 modes) with adjacent beam splitters and phase shifters only, all phases in [0, 2 pi), heralds (5 layouts incl. crossed) kept, original unchanged; with two error models and ten stand-alone distributions (one-sided bounds, bounds equal to 0) every drawn value is inside its declared bounds, equal seeds give equal circuits, the result is a valid sub-unitary circuit. NOT under contract: reck_decomposition / Reck.map loops (bounded only). ADDED LATER (bounded): one Reck object used again after the same circuit object was changed in place. PROVED LATER (pyvc): Gaussian.__init__ / TopHat.__init__ store the declared bounds (a bound of 0 is a bound; a missing bound is +-infinity) and raise ValueError iff max < min.')
EXPLANATION = EXPLANATION + ' ADDED IN ROUNDS 5-8. BOUNDED (native): freshly created identical error models give identical circuits for a seed; a default Reck() is ideal whatever was done to another one; lossless circuits holding zero-valued loss elements, barriers, swaps, groups; 1- and 2-mode circuits.'
ASSUMPTIONS = ["A4.rng: numpy Generator.random() in [0,1), normal() real; seeded => deterministic", "bounded part in native floats, tolerance 1e-12 (the property is stated to numerical precision)"]
TRUSTED = ["z3 5.1 (nlsat)", "Lean 4.33 kernel + Mathlib (lemma M3 is kernel-checked on every run)"]


def units(tier):
    u = pyvc_units("C14", MODULES)
    u.append(dict(kind="func", mechanism="bounded runtime contract (C), native floats", name="bounded:reck-default", module="vf.tasks.t_reck", func="unit", args=dict(which="default")))
    u.append(dict(kind="func", mechanism="bounded runtime contract (C), native floats", name="bounded:reck-error-model", module="vf.tasks.t_reck", func="unit", args=dict(which="error")))
    u.append(frame_unit("reck", RECK_FILES))
    u.append(dict(kind="func", mechanism="lemmas (D: Lean 4 + Mathlib, kernel-checked)", name="lemmas:lean", module="vf.lemmas.leancheck", func="unit", args=dict(only=['M3', 'M3r', 'M3fin', 'M3two', 'M3bs'])))
    return u
