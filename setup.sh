#!/bin/sh
# Build the overlay interpreter used by every check (offline; idempotent).
# /verif/.venv = CPython 3.12 from /venv + z3-solver + cvc5 + jsonschema from the
# offline wheelhouse, with a .pth that makes lightworks' own dependencies
# (numpy, scipy, thewalrus, qiskit, ...) resolvable from /venv.
set -e
cd "$(dirname "$0")"
V=.venv
if [ -x "$V/bin/python" ] && "$V/bin/python" -c "import z3, numpy, cvc5" 2>/dev/null; then
  exit 0
fi
rm -rf "$V"
/venv/bin/python -m venv "$V"
PIP_NO_INDEX=1 "$V/bin/python" -m pip install -q --no-index --find-links /opt/veriftools/wheels z3-solver cvc5 >/dev/null
SP=$("$V/bin/python" -c "import sysconfig; print(sysconfig.get_paths()['purelib'])")
echo "import site; site.addsitedir('/venv/lib/python3.12/site-packages')" > "$SP/zz_venv_overlay.pth"
"$V/bin/python" -c "import z3, numpy, cvc5, sympy; print('overlay venv ok: z3', z3.get_version_string())"
