#!/bin/bash
# confirm sub-agent seeds in their scratch worktree: tests pass with the change, demo fails with it, demo passes without
# usage: confirm_seeds.sh C01 C02 ...   (results in /tmp/mut/<id>/_seed/<k>/confirm.txt)
for id in "$@"; do
 (
  wt=/tmp/mut/$id
  cd $wt || exit
  for k in ${SEED_KS:-1 2}; do
    d=$wt/_seed/$k
    [ -f $d/patch.diff ] || continue
    git checkout -q -- lightworks
    out=$d/confirm.txt
    : > $out
    PYTHONPATH=$wt /venv/bin/python $d/demo.py > $d/demo_clean.log 2>&1; echo "demo_unchanged_exit=$?" >> $out
    if git apply $d/patch.diff 2>>$out; then
      PYTHONPATH=$wt /venv/bin/python -m pytest -q -p no:cacheprovider --timeout=900 tests 2>&1 | tail -1 >> $out
      PYTHONPATH=$wt /venv/bin/python $d/demo.py > $d/demo_changed.log 2>&1; echo "demo_changed_exit=$?" >> $out
    else
      echo "patch_failed" >> $out
    fi
    git checkout -q -- lightworks
  done
 ) &
done
wait
