"""copy confirmed sub-agent seeds into /verif/seeded/<prop>-<k>/ and record which checks catch them.
usage: harvest_seeds.py [--run] C01 C02 ...    (--run also runs the property's quick check against a scratch copy with the patch)"""
import json, os, re, shutil, subprocess, sys, tempfile
ROOT = os.path.dirname(os.path.dirname(os.path.abspath(__file__)))
run = "--run" in sys.argv
ids = [a for a in sys.argv[1:] if not a.startswith("--")]
for pid in ids:
    for k in [int(x) for x in os.environ.get("SEED_KS", "1 2").split()]:
        src = f"/tmp/mut/{pid}/_seed/{k}"
        if not os.path.exists(f"{src}/patch.diff"):
            continue
        dst = os.path.join(ROOT, "seeded", f"{pid}-{k}")
        os.makedirs(dst, exist_ok=True)
        shutil.copy(f"{src}/patch.diff", dst)
        shutil.copy(f"{src}/demo.py", dst)
        meta = json.load(open(f"{src}/meta.json")) if os.path.exists(f"{src}/meta.json") else {}
        conf = open(f"{src}/confirm.txt").read().split("\n") if os.path.exists(f"{src}/confirm.txt") else []
        meta = dict(property=pid, origin="independent sub-agent given only the property text and a scratch worktree of the pinned tree",
                    summary=meta.get("summary"), needs=meta.get("needs"), files=meta.get("files"),
                    confirmed_by_me=dict(worktree=f"/tmp/mut/{pid} (" + os.environ.get("SEED_BASE", "pinned commit 088b5b7") + ", removed afterwards)", lines=[c for c in conf if c],
                                         command="tools/confirm_seeds.sh: demo on clean tree; git apply patch; full pytest suite; demo with patch; git checkout"))
        if run:
            scr = tempfile.mkdtemp(prefix="scr.", dir="/tmp")
            shutil.copytree("/repo/lightworks", f"{scr}/lightworks")
            ap = subprocess.run(["patch", "-p1", "-s", "-i", f"{dst}/patch.diff"], cwd=scr, capture_output=True, text=True)
            if ap.returncode != 0:
                meta["check_run"] = dict(applies_to_current_tree=False, note=(ap.stdout + ap.stderr)[-300:])
            else:
                env = dict(os.environ, VERIF_REPO=scr)
                p = subprocess.run(["./check", pid, "quick"], cwd=ROOT, env=env, capture_output=True, text=True, timeout=1800)
                obl = re.findall(r"obligation: (\S+)", p.stdout)
                meta["check_run"] = dict(applies_to_current_tree=True, command=f"VERIF_REPO=<scratch copy of /repo + patch> ./check {pid} quick", exit=p.returncode,
                                         caught=p.returncode == 1, failed_obligations=sorted(set(re.sub(r"@L\d+", "", o) for o in obl))[:8],
                                         summary=[l for l in p.stdout.splitlines() if l.startswith("[")][-1:] )
            shutil.rmtree(scr, ignore_errors=True)
        json.dump(meta, open(f"{dst}/meta.json", "w"), indent=1)
        print(pid, k, meta.get("check_run", {}).get("caught"), meta.get("check_run", {}).get("failed_obligations"))
