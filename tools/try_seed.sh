#!/bin/bash
# usage: try_seed.sh <patch.diff> <prop> [tier]   - run a check against a scratch copy of /repo with the patch applied
set -e
patch=$1; prop=$2; tier=${3:-quick}
scr=$(mktemp -d /tmp/scr.XXXXXX)
cp -r /repo/lightworks $scr/
(cd $scr && patch -p1 -s < $patch) || { echo "PATCH FAILED"; rm -rf $scr; exit 9; }
cd /verif
VERIF_REPO=$scr ./check $prop $tier; rc=$?
rm -rf $scr
echo "exit=$rc"
