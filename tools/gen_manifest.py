"""regenerate MANIFEST.json from vf/props/*.py (claimed) and the not_applicable table below"""
import importlib, json, os, sys
ROOT = os.path.dirname(os.path.dirname(os.path.abspath(__file__)))
sys.path.insert(0, ROOT)
props = [json.loads(l) for l in open(os.path.join(ROOT, "properties.jsonl"))]
NOT_BUILT = "check not built yet (build in progress; DESIGN.md section 5 describes the planned contracts)"
checks, na = [], []
for p in props:
    pid = p["id"]
    if os.path.exists(os.path.join(ROOT, "vf", "props", f"{pid}.py")):
        m = importlib.import_module(f"vf.props.{pid}")
        if getattr(m, "CLAIMED", True):
            checks.append(dict(
                property_id=pid, quick_cmd=f"./check {pid} quick", thorough_cmd=f"./check {pid} thorough",
                evidence_file=f"evidence/{pid}.json", replay_cmd_template="./check --replay {path}",
                engine=getattr(m, "ENGINE", "pyvc+xlift"),
                level_claimed=dict(category=m.LEVEL, text=getattr(m, "LEVEL_TEXT", m.EXPLANATION[:1200]), design_ref=f"DESIGN.md section 5 {pid}"),
                level_note="; ".join(getattr(m, "TRUSTED", []) + getattr(m, "ASSUMPTIONS", []))[:1500] or "see evidence",
                technique=getattr(m, "TECHNIQUE", "contract-based deductive verification: VCs generated from the real AST (pyvc) discharged by z3/cvc5; real code over exact reals (xlift); bounded stand-ins labelled")))
            continue
    na.append(dict(property_id=pid, reason=NOT_BUILT))
man = dict(version=1, setup_cmd="./setup.sh",
           hooks=dict(guard="LIGHTWORKS_VERIF", enable="no source hooks: contracts are sidecar files (vf/contracts), the exact-arithmetic lifting is an import hook (vf/xlift/hook.py); checks read /repo's working tree on every run",
                      baseline_off_cmd="cd /repo && /venv/bin/python -m pytest -ra -q -p no:cacheprovider --timeout=900 --continue-on-collection-errors",
                      source_commits=[], add_only=True),
           engines=[dict(name="pyvc", path="vf/pyvc", serves_properties=[c["property_id"] for c in checks], kind_free_text="VC generator: symbolic execution of the real function ASTs against sidecar contracts, z3 5.1 + cvc5, unbounded"),
                    dict(name="xlift", path="vf/xlift", serves_properties=[c["property_id"] for c in checks], kind_free_text="import hook running the real modules over an exact real-closed scalar field; complete for finite discrete domains"),
                    dict(name="lemmas", path="vf/lemmas", serves_properties=[c["property_id"] for c in checks], kind_free_text="z3 induction-schema lemmas over spec functions")],
           checks=checks, notes="see DESIGN.md; exit codes 0 held / 1 violation / 2 undecided / 3 checker failure", not_applicable=na)
json.dump(man, open(os.path.join(ROOT, "MANIFEST.json"), "w"), indent=1)
import jsonschema
jsonschema.validate(man, json.load(open("/root/.vp/MANIFEST.schema.json")))
print("claimed:", [c["property_id"] for c in checks])
